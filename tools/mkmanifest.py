#!/usr/bin/env python3
"""regenerate /verif/MANIFEST.json from tools/props.py (+ tools/not_applicable.json)"""
import json, os, sys
ROOT = os.path.dirname(os.path.dirname(os.path.abspath(__file__)))
sys.path.insert(0, os.path.join(ROOT, "tools"))
from props import PROPS
ids = [json.loads(l)["id"] for l in open(os.path.join(ROOT, "properties.jsonl"))]
na = json.load(open(os.path.join(ROOT, "tools", "not_applicable.json")))
checks = []
for p in ids:
    if p not in PROPS:
        continue
    s = PROPS[p]
    checks.append(dict(
        property_id=p,
        quick_cmd="./check %s --tier quick" % p,
        thorough_cmd="./check %s --tier thorough" % p,
        evidence_file="/verif/evidence/%s.json" % p,
        replay_cmd_template="./check %s --replay {path}" % p,
        engine=s.get("engine") or "+".join(sorted({p["engine"] for p in s["parts"]})),
        level_claimed=dict(category="proof", text=s["level_text"], design_ref=s.get("design_ref", "")),
        level_note=s["level_note"],
        technique=s["technique"],
    ))
engines = {}
for p, s in PROPS.items():
    for e in ([s["engine"]] if s.get("engine") else sorted({q["engine"] for q in s["parts"]})):
        engines.setdefault(e, []).append(p)
m = dict(
    version=1,
    setup_cmd="./setup.sh",
    hooks=dict(guard="wirm_verif", enable="RUSTFLAGS=\"--cfg wirm_verif\" (no source hooks are needed: the harness drives the public API only)",
               baseline_off_cmd="cd /repo && cargo test --workspace --no-fail-fast --offline", source_commits=[], add_only=True),
    engines=[dict(name=e, path="harness/src/bin/%s.rs + coq/" % e, serves_properties=sorted(ps),
                  kind_free_text="Coq model + theorems; Rust correspondence harness; verdict computed by coqc (vm_compute) on generated cases")
             for e, ps in sorted(engines.items())],
    checks=checks,
    notes="Every check: hygiene grep, translator (where used), make of the property's theorems, Print Assumptions, harness build against /repo's working tree, "
          "in-Coq evaluation of model-vs-implementation and property-on-observed-output. See DESIGN.md.",
    not_applicable=[dict(property_id=p, reason=na.get(p, "not yet covered by a check that runs clean on the unchanged tree (work in progress; see DESIGN.md section 9)")) for p in ids if p not in PROPS],
)
json.dump(m, open(os.path.join(ROOT, "MANIFEST.json"), "w"), indent=1)
print("MANIFEST.json: %d checks, %d not claimed" % (len(checks), len(m["not_applicable"])))
