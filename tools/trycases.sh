#!/bin/bash
# usage: tools/trycases.sh <engine-bin> <prop> <seed> <n> [shards]   -- ad-hoc run, prints reports
set -e
cd /verif
export CARGO_TARGET_DIR=/verif/build/cargo CARGO_NET_OFFLINE=true RUSTFLAGS="--cfg wirm_verif"
cargo build --offline --release -q --bin $1 --manifest-path harness/Cargo.toml 2>&1 | grep -E "^error|^warning: unused" -A5 || true
d=build/t_$2; rm -rf $d
build/cargo/release/$1 --prop $2 --seed $3 --n $4 --shards ${5:-2} --out $d
for f in $d/s*.v; do (coqc -q -noglob -R coq Orca $f 2>&1 | grep -v "^WARNING" | tr '\n' ' ' | sed 's/  */ /g'; echo) & done; wait
