#!/bin/bash
# usage: tools/recheck_seed.sh <seed-name> <prop> [props...]  -- re-run checks against a stored seeded change
set -u
name=$1; shift
wt=${RECHECK_WT:-/tmp/mut/re_$name}   # RECHECK_WT: one fixed path for a series of seeds, so that the cargo target and the Coq mirror of that path are reused
git -C /repo worktree add -q --detach $wt HEAD || exit 1
git -C $wt apply /verif/seeded/$name/patch.diff || { git -C /repo worktree remove --force $wt; exit 1; }
for p in "$@"; do
  line=$(cd /verif && VERIF_REPO=$wt ./check $p 2>&1 | grep -E "^VIOLATION|^$p quick" | tr '\n' ' ')
  echo "check $p: $line"
  python3 - "$name" "$p" "$line" <<'PY'
import json,sys
name,p,line=sys.argv[1:4]
f='/verif/seeded/%s/meta.json'%name
m=json.load(open(f)); m.setdefault('checks_run_against_it',{})[p]=line.strip(); json.dump(m,open(f,'w'),indent=1)
PY
done
rm -rf /verif/build/evidence_alt_*/replay
git -C /repo worktree remove --force $wt
