#!/usr/bin/env python3
"""Regenerates the per-property table of DESIGN.md section 10.2 (between the TABLE markers) from the registry
(tools/props_d/*.py), known_findings.json and the seeded/ directory, so that the document cannot drift."""
import json, os, re, sys
ROOT = os.path.dirname(os.path.dirname(os.path.abspath(__file__)))
sys.path.insert(0, os.path.join(ROOT, "tools"))
import props
K = json.load(open(os.path.join(ROOT, "known_findings.json")))
def esc(s): return s.replace("|", "\\|").replace("\n", " ")
rows = ["| prop | engine | theorems registered (each `Closed under the global context`) | what is decided, and how | known findings today | repaired |",
        "|---|---|---|---|---|---|"]
for p in sorted(props.PROPS):
    s = props.PROPS[p]
    eng = s.get("engine") or "+".join(x["engine"] for x in s.get("parts", []))
    thms = ", ".join("`%s`" % t[1] for t in s.get("theorems", []))
    known = sorted({f["id"] for f in K["findings"] if p in f["properties"]})
    fixed = sorted({m.group(1) for l in K["fixed"] if ("property=%s " % p) in l for m in [re.search(r"\((D\d+[a-z]?)", l)] if m})
    rows.append("| %s | %s | %s | %s | %s | %s |" % (p, eng, thms, esc(s.get("level_text", "")), " ".join(known) or "none", " ".join(fixed) or ""))
table = "\n".join(rows)
seeds = ["| seeded change | breaks | needs | checks run against it (quick tier, `VERIF_REPO=<worktree with the change>`) |", "|---|---|---|---|"]
for d in sorted(os.listdir(os.path.join(ROOT, "seeded"))):
    mf = os.path.join(ROOT, "seeded", d, "meta.json")
    if not os.path.exists(mf): continue
    m = json.load(open(mf))
    runs = []
    for c, line in sorted(m.get("checks_run_against_it", {}).items()):
        mm = re.search(r"(\d+) mismatches, (\d+) unlisted failures", line)
        tag = "no-failing-input-found" in line
        if "VIOLATION" in line:
            runs.append("**%s: VIOLATION** (%s unlisted failures, %s mismatches%s)" % (c, mm.group(2) if mm else "?", mm.group(1) if mm else "?", "; correspondence only" if tag else ""))
        else:
            runs.append("%s: not detected" % c)
    seeds.append("| %s | %s | %s | %s |" % (d, m.get("breaks_property", ""), esc(str(m.get("needs", "")))[:300], "; ".join(runs)))
seedt = "\n".join(seeds)
f = os.path.join(ROOT, "DESIGN.md"); s = open(f).read()
for name, body in (("TABLE", table), ("SEEDS", seedt)):
    b, e = "<!-- %s:BEGIN -->" % name, "<!-- %s:END -->" % name
    if b in s:
        s = s[:s.index(b) + len(b)] + "\n" + body + "\n" + s[s.index(e):]
    else:
        print("marker missing:", name)
open(f, "w").write(s)
print("DESIGN.md tables regenerated: %d properties, %d seeded changes" % (len(rows) - 2, len(seeds) - 2))
