#!/usr/bin/env python3
"""print the prompt given to an independent mutation-seeding sub-agent for one property"""
import json, sys
pid = sys.argv[1]
wt = "/tmp/mut/" + (sys.argv[2] if len(sys.argv) > 2 else pid)     # second argument: worktree id (default: the property id)
hint = sys.argv[3] if len(sys.argv) > 3 else ""
for l in open('/verif/properties.jsonl'):
    p = json.loads(l)
    if p['id'] == pid:
        break
print(f"""You are helping to evaluate a verification framework by seeding a realistic defect into a Rust library. Work ONLY inside the git worktree {wt} (a scratch checkout of the library thesuhas/orca, crate name `wirm`: a WebAssembly module/component transformation library with its own IR, ID re-indexing and instrumentation-injection lowering over wasmparser/wasm-encoder). Do not read or touch /verif or /repo or any other directory besides {wt} and a results directory {wt}_out that you create. The sandbox is offline: use `cargo ... --offline` only.

The semantic property to break:
  Title: {p['title']}
  Statement: {p['statement']}
  Quantified over: {p['quantifier']['text']}

{hint}Task: produce ONE small source change to the library under {wt}/src that (1) still compiles, (2) still passes the existing test suite — run `cd {wt} && cargo test --workspace --no-fail-fast --offline 2>&1 | tail -60` before and after: 45 tests fail at baseline because the external `wasm-tools` binary is missing; exactly the same set of tests (111 passing) must pass with your change — and (3) breaks the property above on SOME inputs only. Make it a change that needs something specific to manifest (a particular nesting shape, a multi-step sequence of API calls, an unusual but valid input, a particular combination of instrumentation modes, two cooperating code sites that each look fine alone, an off-by-one at a boundary) rather than one that ordinary use would expose at once; it should look like a plausible refactoring slip or optimisation, not sabotage. Do not add cfg flags, environment checks, randomness, or special-casing of magic constants.

Then write a demonstration: a standalone Rust integration test file `{wt}/tests/seeded_demo.rs` (using only the crate's public API plus dev-dependencies already in Cargo.toml, i.e. `wat` and `wasmprinter`/`wasmparser`) that FAILS with your change and PASSES on the original code. Verify both: run it with your change applied (`cargo test --offline --test seeded_demo`), then save your change with `git diff -- src > {wt}_out/patch.diff`, undo it with `git apply -R {wt}_out/patch.diff` (keep the test), run the test again on the original code, then re-apply with `git apply {wt}_out/patch.diff`. Do NOT use `git stash`: the stash is shared by every worktree of the repository and other agents are working in sibling worktrees.

Deliver into {wt}_out/: `patch.diff` (output of `git -C {wt} diff -- src`, the library change only), `seeded_demo.rs` (the demonstration test), and `meta.json` with keys: property ("{pid}"), summary (what you changed, one paragraph), needs (what specific input/sequence is required for the violation to manifest), files (list of changed source files), ran (the commands you ran and their outcomes: baseline test counts, test counts with the change, demo fails-with / passes-without). Leave the worktree with your change applied. Your final message should be a short summary of the same.""")
