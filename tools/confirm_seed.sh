#!/bin/bash
# usage: tools/confirm_seed.sh <worktree-id> <seed-name> <prop> [more props...]
# Confirms a seeded change made by an independent sub-agent in /tmp/mut/<id> (compiles, the baseline suite still
# passes, the demonstration fails with it and passes without it), runs the named checks against that worktree,
# stores everything under /verif/seeded/<seed-name>/ and removes the worktree.
set -u
id=$1; name=$2; shift 2
wt=/tmp/mut/$id; out=${wt}_out; dst=/verif/seeded/$name
mkdir -p $dst
cd $wt || exit 1
export CARGO_NET_OFFLINE=true
git diff -- src > $dst/patch.diff
cp $out/seeded_demo.rs $dst/ 2>/dev/null || cp tests/seeded_demo.rs $dst/
cp $out/meta.json $dst/agent_meta.json 2>/dev/null
mv tests/seeded_demo.rs /tmp/mut/${id}_demo.rs 2>/dev/null
suite=$(cargo test --workspace --no-fail-fast --offline 2>&1 | grep -E "^test result" | awk '{p+=$4; f+=$6} END {print p" passed, "f" failed"}')
cp /tmp/mut/${id}_demo.rs tests/seeded_demo.rs
with=$(cargo test --offline --test seeded_demo 2>&1 | grep -E "^test result" | tail -1)
git apply -R $dst/patch.diff      # (git stash is shared by all worktrees of a repository: never use it here)
without=$(cargo test --offline --test seeded_demo 2>&1 | grep -E "^test result" | tail -1)
git apply $dst/patch.diff
echo "suite with change: $suite"; echo "demo with change: $with"; echo "demo without: $without"
res=""
cat > $dst/meta.json <<EOT
{
 "breaks_property": "$1",
 "needs": $(python3 -c "import json;print(json.dumps(json.load(open('$dst/agent_meta.json')).get('needs','')))" 2>/dev/null || echo '""'),
 "summary": $(python3 -c "import json;print(json.dumps(json.load(open('$dst/agent_meta.json')).get('summary','')))" 2>/dev/null || echo '""'),
 "confirmed": {
  "baseline_suite_with_change": "$suite (baseline: 111 stable + 6 doctests pass, 45 always fail)",
  "demo_with_change": "$with",
  "demo_without_change": "$without",
  "how": "tools/confirm_seed.sh $id $name $*"
 },
 "checks_run_against_it": { ${res%, } }
}
EOT
cd /; git -C /repo worktree remove --force $wt; rm -rf $out /tmp/mut/${id}_demo.rs /tmp/mut/$id.prompt
echo "stored in $dst"
# the checks run against a fresh worktree of the CURRENT /repo HEAD with the stored change applied (the agent's
# worktree may be based on an older HEAD than the one the live Coq models describe)
/verif/tools/recheck_seed.sh $name "$@"
