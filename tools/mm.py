#!/usr/bin/env python3
"""tools/mm.py <cases-dir> [which=mismatch|fail] [max]  -- print descriptions of mismatching / failing cases of every shard"""
import json, subprocess, re, sys, glob, os
sys.path.insert(0, os.path.dirname(os.path.abspath(__file__)) + "/..")
d = sys.argv[1]; which = sys.argv[2] if len(sys.argv) > 2 else "mismatch"; mx = int(sys.argv[3]) if len(sys.argv) > 3 else 3
def parse(s):
    s = re.sub(r"%[A-Za-z_]+", "", s); pos = 0
    def skip():
        nonlocal pos
        while pos < len(s) and s[pos].isspace(): pos += 1
    def item():
        nonlocal pos
        skip()
        if s[pos] in "([":
            close = ")" if s[pos] == "(" else "]"; pos += 1; out = []; skip()
            if s[pos] == close: pos += 1; return out
            while True:
                out.append(item()); skip()
                if s[pos] == close: pos += 1; return out
                pos += 1
        m = re.match(r"-?\d+", s[pos:]); pos += m.end(); return int(m.group(0))
    return item()
for f in sorted(glob.glob(d + "/s*.v")):
    out = subprocess.run(["coqc", "-q", "-noglob", "-R", "/verif/coq", "Orca", f], capture_output=True, text=True).stdout
    m = re.search(r"=\s*(\(.*?\))\s*:\s*N \*", out, flags=re.S)
    if not m: print(out[-2000:]); continue
    tot, mm, fl, kn, dom, kc = parse(m.group(1))
    meta = json.load(open(f[:-2] + ".json"))
    ids = mm if which == "mismatch" else fl
    print(os.path.basename(f), "total", tot, "mismatch", mm, "fail", fl)
    for i in ids[:mx]:
        print("  #%d" % i, meta["cases"][i]["desc"][:2500]); print()
