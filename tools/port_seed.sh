#!/bin/bash
# usage: tools/port_seed.sh <seed-name>   -- re-creates seeded/<name>/patch.diff against the current /repo HEAD when the
# stored patch applies only with fuzz (context moved by later fix: commits); re-verifies suite and demonstration.
set -u
name=$1; d=/verif/seeded/$name; wt=/tmp/mut/port_$name
git -C /repo worktree add -q --detach $wt HEAD || exit 1
cd $wt
patch -p1 --fuzz=3 -s < $d/patch.diff || { echo "$name: does not apply even with fuzz"; cd /; git -C /repo worktree remove --force $wt; exit 1; }
find . -name "*.orig" -delete
git diff -- src > /tmp/mut/port_$name.diff
export CARGO_NET_OFFLINE=true
suite=$(cargo test --workspace --no-fail-fast --offline 2>&1 | grep -E "^test result" | awk '{p+=$4; f+=$6} END {print p" passed, "f" failed"}')
cp $d/seeded_demo.rs tests/seeded_demo.rs
with=$(cargo test --offline --test seeded_demo 2>&1 | grep -E "^test result" | tail -1)
git apply -R /tmp/mut/port_$name.diff
without=$(cargo test --offline --test seeded_demo 2>&1 | grep -E "^test result" | tail -1)
echo "$name: suite=$suite | with: $with | without: $without"
if [ "$suite" = "117 passed, 45 failed" ] && echo "$with" | grep -q FAILED && echo "$without" | grep -q "test result: ok"; then
  cp /tmp/mut/port_$name.diff $d/patch.diff
  python3 - "$d" "$(git -C /repo log --format=%h -1)" <<'PY'
import json,sys
f=sys.argv[1]+"/meta.json"; m=json.load(open(f))
m["ported"]="the stored patch applied only with fuzz after later fix: commits moved its context; regenerated against %s with `patch --fuzz=3`, suite 117 passed / 45 failed, demonstration fails with / passes without (re-verified)"%sys.argv[2]
json.dump(m,open(f,"w"),indent=1)
PY
  echo "$name: ported"
else
  echo "$name: NOT ported (verification failed)"
fi
cd /; git -C /repo worktree remove --force $wt; rm -f /tmp/mut/port_$name.diff
