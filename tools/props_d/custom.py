"""custom engine: C28"""
PROPS = {
    "C28": dict(
        engine="custom",
        check_targets=["Check/CheckCustom.vo"],
        proof_targets=["Props/C28.vo"],
        theorems=[("C28", "C28_single_calls"), ("C28", "C28_parse_then_emit"), ("C28", "C28_model_is_slot_spec"),
                  ("C28", "C28_one_slot_touched"), ("C28", "C28_edits_preserve_names_and_order"),
                  ("C28", "C28_model_meets_spec"), ("C28", "C28_checker_sound"), ("C28", "C28_former_D09_witness_holds")],
        quick=dict(n=3000), thorough=dict(n=60000), per_shard=500,
        rule="random module (random subset of type/import/function/table/memory/global/export/start/element/datacount/code/data "
             "sections) with 0-5 custom sections at random positions among them: plain ones named from a pool of 19 names (empty, "
             "unicode, duplicates, names wasmparser knows: dylink.0, linking, reloc.*, core*, branch hints, component-name), "
             "'producers' sections in five states (well-formed 1-2 fields; good first field + garbage; no header; zero fields; "
             "unreadable / unknown first field), a name section in 40% (after the code, 5% anywhere, 4% malformed); 0-6 calls of "
             "CustomSections::add / delete / get_section_data_mut (replace, extend, clear, truncate) / get_id / get_by_id / len "
             "(+ is_empty, iter) with valid, just-out-of-range and u32::MAX ids; non-trivial = at least one non-name custom section "
             "or one call; distinct by hash of the case term",
        level_text="Proof (Coq, all section layouts and all edit sequences, no size bound): add = append, delete = remove at index, "
                   "modify = replace data, emission = vector order; parse-then-emit = the non-name custom sections in file order (wherever the name section stands, whatever a producers section contains: D09 is repaired); "
                   "for every edit sequence the model equals an independent slot specification (sections never move; ids count live slots), "
                   "each id-directed call touches at most the designated slot, names and order of existing sections never change, data only "
                   "under modify, liveness only under delete, additions come last. The model is tied to /repo's working tree by differential "
                   "evaluation inside Coq (model =? observed and slot specification =? observed, including a token of everything else in the "
                   "module for the input, the output and an edit-free round trip).",
        level_note="Trusted: Coq kernel + vm_compute; the harness (generator, hand-written section walker, wasmprinter text used as the "
                   "'everything else' token, hash-consing of names and byte strings, classification of the generated producers/name "
                   "sections); that the sampled correspondence extends to unsampled inputs. Modelled, not verified: the custom-section arm of the "
                   "parse loop (mod.rs:375-460), CustomSections (types.rs:1896-1992), the emission loop (mod.rs:1743-1769). That no other part of "
                   "encode reads custom_sections is observed (rest tokens), not proved.",
        technique="Coq proof over a hand-written model + in-Coq differential correspondence against the real encoder",
        design_ref="5/C28",
        trusted_base=["coq/Model/Custom.v + coq/Check/CheckCustom.v: hand-written mirror of the custom-section arm of Module::parse, of "
                      "CustomSections and of the emission order (tied to /repo by the correspondence run)"],
        modelled="custom-section handling of Module::parse (name / producers special cases), CustomSections::{add,delete,get_section_data_mut,get_id,get_by_id,len}, emission after the rebuilt name section",
        assumptions=["modules whose name section cannot be read are outside the domain: Module::parse returns Err for them (the model predicts this; nothing is encoded)",
                     "get_by_id with an invalid id (a documented panic) and adding a second section called 'name' through the API are outside the domain",
                     "module-level custom sections only; custom sections of components belong to the component engine (C27)"],
    ),
}
