"""opcode-helpers engine: C24"""
PROPS = {
    "C24": dict(
        engine="helpers",
        gen=["GenHelpers"],
        check_targets=["Check/CheckHelpers.vo"],
        proof_targets=["Props/C24.vo"],
        theorems=[("C24", "C24_helpers_exact"), ("C24", "C24_helper_by_name_exact"), ("C24", "C24_coverage"),
                  ("C24", "C24_u32_const_bits"), ("C24", "C24_u64_const_bits"), ("C24", "C24_f32_const_bits"),
                  ("C24", "C24_f64_const_bits"), ("C24", "C24_checker_sound")],
        quick=dict(n=8000), thorough=dict(n=160000), per_shard=500,
        rule="every helper of Opcode/MacroOpcode (the call table of harness/src/bin/helpers.rs, compared inside Coq with the translator's "
             "list) called on a real injection target: first a sweep of all 200 helpers x 5 observation modes (the Operator value pushed into a "
             "FunctionBuilder body; FunctionBuilder+finish_module+Module::encode; ModuleIterator before_at+encode; FunctionModifier "
             "before_at+encode; ComponentIterator before+Component::encode; the four encoded ones decoded with wasmparser), then helpers with immediates at random, 30% f32_const/f64_const, 20% "
             "i32/i64/u32/u64_const; immediates: edge values (0, 1, 2^31-1, 2^31, 2^32-1, 2^63, 2^64-1, ...) and random values of random bit "
             "length; float bit patterns +-0, +-1, +-inf, canonical/negative/signalling NaNs, NaNs with random payloads, denormals, random "
             "bits; MemArg with any u8 alignment (exponent < 64 when encoded), any u64 offset; block types Empty / FuncType(any u32) / 27 value "
             "types; heap types 14 abstract x shared, concrete indices; non-trivial = the helper takes an immediate; distinct by hash of the case term",
        level_text="Proof (Coq) that for every helper of the table regenerated from src/opcode.rs (finite: 200 entries, boolean check by vm_compute "
                   "lifted with forallb_forall) and for ALL immediate values in the range of the parameter types (universally quantified Z; symbolic "
                   "check + soundness lemma over the expression semantics and the two's-complement lemmas of Base/Wrap.v) the injected operators "
                   "and immediates are exactly those of the hand-written specification Model/HelperSpec.v (helper name -> Wasm mnemonic and source "
                   "of every immediate), plus a coverage theorem (same helper names on both sides, each once) and the bit-preservation "
                   "corollaries for u32_const/u64_const/f32_const/f64_const. The translated table is tied to /repo's working tree by regeneration on "
                   "every check and by differential evaluation inside Coq (translated body =? observed, and specification =? observed) of real "
                   "helper calls, which also covers what translation cannot: Rust's `as` casts, f32 -> Ieee32, the encoder and the decoder.",
        level_note="Trusted: Coq kernel + vm_compute; the translator's reading of src/opcode.rs (narrow accepted shape, anything else is a broken "
                   "obligation; validated on every run by the correspondence) and of the pinned wasmparser's operator table (compared inside Coq with "
                   "the order of for_each_operator! as the harness sees it); the harness (sampling, wasmparser decoding, case printer); that the "
                   "sampled correspondence extends to unsampled immediates for the parts outside the translation (casts, Ieee32::from, "
                   "BlockType/HeapType conversion, encode/decode). Block types and heap types are opaque tokens: their conversion "
                   "(wasmparser::BlockType::from / HeapType::from, i.e. the DataType <-> ValType tables) is exercised on the sampled types but not "
                   "modelled. MemArg.max_align is not an immediate of the binary format and is only observed on the un-encoded Operator.",
        technique="translation of the helper bodies to Gallina + Coq proof against a hand-written specification + in-Coq differential "
                  "correspondence against the real helpers, encoder and decoder",
        design_ref="5/C24",
        trusted_base=["translator/src/helpers.rs (syn-based; regenerates coq/Gen/GenHelpers.v: helper table + wasmparser operator table)",
                      "coq/Model/HelperLang.v (semantics of the expression language: Rust integer `as` casts as wrap-around on Z, floats as bit patterns)",
                      "coq/Model/HelperSpec.v (the oracle, hand-written from the helper names and the WebAssembly specification)"],
        modelled="nothing by hand: the 200 default methods of Opcode/MacroOpcode are translated (verified by regeneration); the specification is the oracle",
        assumptions=["index immediates that Module::encode re-maps (function, global, memory indices) name existing entities of the base module in the "
                     "four end-to-end modes (encode panics otherwise); the full u32 range is observed on the un-encoded Operator value",
                     "block-type/heap-type arguments are drawn from types whose wirm DataType has one meaning in both conversion directions "
                     "(DataType::FuncRef/ExternRef, which parse from (ref func)/(ref extern) but convert back to the nullable funcref/externref, are "
                     "left to the value-type properties C01/C02)",
                     "every implementor of Opcode/MacroOpcode is an empty impl block (checked by the translator), so the default methods are the "
                     "helpers of FunctionBuilder, FunctionModifier, ModuleIterator and ComponentIterator alike (the harness drives all four)"],
    ),
}
