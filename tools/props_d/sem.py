"""semantic engine: C16-C20"""
SEM_TB = ["coq/Model/WasmP.v: the structured Wasm interpreter that *defines* when each probe mode fires (adequacy for control flow is trusted, not proved against the Wasm spec)",
          "coq/Model/Flat.v, Lowering.v, TreeLower.v: mirror of the flat resolution pass and the tree-level lowering (both compared with the real output on every case)"]
COMMON = dict(
    engine="sem", check_targets=["Check/KnownSem.vo"], per_shard=100, coqc_timeout=2400,
    trusted_base=SEM_TB,
    modelled="resolve_special_instrumentation + emission (flat mirror), the tree-level lowering, the interpreter WasmP.v",
    assumptions=["probe code is straight-line and stack-neutral (i32.const id; call $log)", "programs terminate within the fuel (fuel exhaustion = outside the domain, counted)",
                 "no Wasm engine exists in the sandbox: the execution oracle is the Gallina interpreter evaluated by vm_compute",
                 "memory is modelled as a window of eight i32 cells at constant aligned addresses (an access outside the window is OUnsupported = outside the domain, never generated); the helper function is an operator with fixed semantics"],
)
SIM_NOTE = ("Trusted: Coq kernel + vm_compute; WasmP.v as the meaning of control flow and of the probe modes; the harness. The simulation theorem is about the "
            "tree-level lowering; Proofs/Flatten.v proves that the flat mirror of resolve_special_instrumentation + emission produces exactly the flattening of that tree (resolve_flatten, all bodies in the fragment without the D16-D18 shapes: semantic-after on branch instructions), so the "
            "end-to-end theorem is about the mirror; the mirror's tie to /repo is the per-case comparison mirror = emitted body (and tree_tie, which follows from it).")
PROPS = {
    "C16": dict(COMMON,
        proof_targets=["Props/C16.vo"],
        theorems=[("C16", "C16_lowered_body_simulates_spec"), ("C16", "C16_exec_mono"), ("C16", "C16_emitted_code_simulates_the_probe_semantics"), ("C16", "C16_tree_tie_follows_from_the_correspondence")],
        quick=dict(n=600), thorough=dict(n=12000),
        rule="typed, terminating, validator-accepted programs (nested blocks/loops/ifs, br/br_if/br_table to every enclosing non-loop label, return, unreachable, a mutable global, locals, results, i32.load / i32.store on eight word cells of memory 0, calls of the imported $log and of a local helper function that accumulates into the global) "
             "with 1-6 neutral probes over before/after/block-entry/block-exit/semantic-after, neutral alternates on non-control instructions (probe + the replaced instruction re-emitted; given meaning on the specification side by desugaring: nop + alternate code after the before-probes) and function entry/exit, 4 argument vectors each; non-trivial = every case (plan never empty)",
        level_text="Partial proof: simulation theorem (all bodies, plans, configurations, fuel) that the plain interpreter on the lowered tree reproduces the specification interpreter, for before/after/"
                   "block-entry/block-exit/semantic-after-on-constructs, and end to end (C16_emitted_code_simulates_the_probe_semantics) that the code the flat mirror of resolve_special_instrumentation + emission produces - function "
                   "entry / exit probes with the real placement included - is the flattening of a tree on which the plain interpreter reproduces results, globals, traps and event trace of the probe-semantics interpreter; "
                   "semantic-after on branches (known classes D16-D18) and plain alternates are outside the theorem and covered by in-Coq differential execution of the original "
                   "vs. the really emitted body; validity of the output by the real validator per sample.",
        level_note=SIM_NOTE, technique="Coq simulation proof + in-Coq differential execution against the real encoder output", design_ref="5/C16"),
    "C17": dict(COMMON,
        proof_targets=["Props/C17.vo"], gen=["GenAddInstr"], theorems=[("C17", "C17_real_placement_correct"), ("C17", "C17_function_entry_exit_lowering_correct"), ("C17", "C17_exit_before_every_exit_instruction"), ("C17", "C17_exit_instruction_list_is_the_model"), ("C17", "C17_emitted_code_simulates_the_probe_semantics"), ("C17", "C17_tree_tie_follows_from_the_correspondence")],
        quick=dict(n=1200), thorough=dict(n=16000),
        rule="as C16 with function entry and/or exit probes (returns and branches to the function label at every nesting depth, unreachable, results) plus some plain before/after probes; non-trivial = every case",
        level_text="Proof (all bodies, plans, configurations, fuel): the plain interpreter on the lowered function - lowered body wrapped in a block of the result type, exit probes spliced before every "
                   "return/unreachable/throw/return_call and after the wrapper - returns the same results, globals and event trace as the specification interpreter, which fires entry once before any original "
                   "instruction and exit once on every normal path; tied to the implementation by comparing the theorem's tree (real placement: instruction 0's before-code and the entry probes in front of the wrapper opener, C17_real_placement_correct) "
                   "with the emitted body, exactly, and by in-Coq differential execution on every sampled program.",
        level_note=SIM_NOTE + " For C17 additionally: return_call/throw transfers themselves are not modelled (the interpreter stops after running the exit probes); probe code in front of the wrapper must be neutral (stack-neutral, events only).",
        technique="Coq simulation proof + in-Coq differential execution", design_ref="5/C17"),
    "C18": dict(COMMON,
        proof_targets=["Props/C18.vo"], theorems=[("C18", "C18_block_entry_lowering_correct"), ("C18", "C18_emitted_code_simulates_the_probe_semantics"), ("C18", "C18_tree_tie_follows_from_the_correspondence")],
        quick=dict(n=1200), thorough=dict(n=16000),
        rule="as C16 with block-entry probes on random subsets of block/loop/if/else (+ some plain before/after, and in half of the cases semantic-after probes on the same kind of constructs); non-trivial = every case",
        level_text="Proof (simulation theorem, all programs) that the tree lowering of block-entry probes fires them on every entry (every loop iteration) and never otherwise; tied to the implementation by "
                   "flat(lower tree) = emitted body and by in-Coq differential execution on every sampled program.",
        level_note=SIM_NOTE, technique="Coq simulation proof + in-Coq differential execution", design_ref="5/C18"),
    "C19": dict(COMMON,
        proof_targets=["Props/C19.vo"], theorems=[("C19", "C19_block_exit_tree_lowering_correct"), ("C19", "C19_emitted_code_simulates_the_probe_semantics"), ("C19", "C19_tree_tie_follows_from_the_correspondence")],
        quick=dict(n=1200), thorough=dict(n=16000),
        rule="as C16 with block-exit probes on random subsets of block/loop/if/else, arbitrarily nested blocks inside if-arms (+ in half of the cases semantic-after probes on constructs, which share the pending-probe tables with exit probes); non-trivial = every case",
        level_text="Proof (simulation theorem, all programs) that the tree placement of block-exit probes fires them exactly when the body / then-arm falls through, and proof that the flat mirror emits the flattening of that tree "
                   "for every nesting (the pending exit code of an `if` is keyed by its block id; the former defect D15 is repaired by a fix: commit and its witness now satisfies the property: C19_former_D15_witness_holds); tied to the implementation by "
                   "flat(lower tree) = emitted body and differential execution on every sampled program.",
        level_note=SIM_NOTE, technique="Coq simulation proof + in-Coq differential execution", design_ref="5/C19"),
    "C20": dict(COMMON,
        proof_targets=["Props/C20.vo"], theorems=[("C20", "C20_partial_semantic_after_on_constructs")],
        quick=dict(n=1200), thorough=dict(n=16000),
        rule="as C16 with semantic-after probes on block/if/else and on br/br_if/br_table (branches inside loops, br_table over several depths and the function label); non-trivial = every case; "
             "branches to loop labels are outside the property (class 99, excluded from the domain)",
        level_text="Partial proof: semantic-after on block/if/else by the simulation theorem; semantic-after on branches is not proved and is false today in the known classes D16/D17/D18 "
                   "(refutation witnesses proved); every sampled program outside them is decided by in-Coq differential execution.",
        level_note=SIM_NOTE, technique="Coq simulation proof (constructs) + refutation witnesses + in-Coq differential execution (branches)", design_ref="5/C20"),
}
