"""parse / round-trip engine: C03 (parsing never panics), C02 / C01 (unmodified round trip) -- see coq/Props/C03.v"""
PARSE_TB = ["coq/Model/ParseGlue.v: hand-written model of the glue code of Module::parse_internal / Component::parse_comp over the payload "
            "abstraction (tied to /repo by the in-Coq differential run and by the generated inventory)",
            "coq/Model/PanicSites.v: hand-written status (Reachable k / Guarded <reason>) of every generated panic site; the Guarded reasons are "
            "arguments by reading, not proofs",
            "translator/src/inventory.rs: the syntactic call-graph over-approximation that decides which functions are 'on the parse path'",
            "wasmparser 0.235 (framing, LEB / operator decoding, its own limits) -- the abstraction of an input is computed with it"]

PROPS = {
    "C03": dict(
        engine="parsefuzz",
        gen=["GenInventory"],
        check_targets=["Check/CheckParse.vo"],
        proof_targets=["Props/C03.vo"],
        theorems=[("C03", "C03_model_never_panics"), ("C03", "C03_model_never_panics_component"), ("C03", "C03_partial"), ("C03", "C03_partial_component"),
                  ("C03", "C03_inventory_covered"), ("C03", "C03_inventory_no_unknown"), ("C03", "C03_inventory_reachable_eq_known"),
                  ("C03", "C03_checker_sound"), ("C03", "C03_no_unlisted_failures")],
        quick=dict(n=20000), thorough=dict(n=400000),
        per_shard=1250,
        rule="byte strings: 14 % generated valid core modules (wasm-encoder 0.235: func / GC rec-group / sub types, imports of all five kinds, tables "
             "with init expressions, memories incl. memory64 / shared / multi-memory, tags, globals over all 16 const-expr forms plus extended-const, "
             "exports, start, all eight element forms, data count, code with locals, active / passive data, custom sections, name section placed "
             "first / before imports / before code / last with all map kinds, producers with 0-3 fields), 60 % mutations of such modules (file / "
             "section-boundary / header / body truncation, byte flips, section-size and vector-count LEB tweaks, swap / duplicate / delete / move of "
             "sections, section-body splices from another generated module, crafted name / producers / tag / global / unknown sections, trailing "
             "bytes), 20 % small components (nested modules and components to depth 3, type / custom / component-name sections) unmutated or mutated "
             "(outer level and inner modules), 6 % random strings; 23 hand-written witnesses (corpus/C03.json) first; each input is parsed with "
             "Module::parse(b,false), Module::parse(b,true), Component::parse(b,false) under catch_unwind; non-trivial = the input gets past the "
             "8-byte header (about 94 %)",
        level_text="Coq proof (every abstract input, no size bound) that the hand-written model of the parser's glue code never panics (the table of "
                   "known panic sites is empty since the repairs of D09a-D09l), one vm_compute example per repaired site (the former witnesses are "
                   "parsed or rejected with Err), and a vm_compute coverage theorem over the panic-site inventory regenerated from /repo/src on "
                   "every run (every unwrap / expect / panic!-like macro / index / slice / arithmetic site reachable from Module::parse / "
                   "Component::parse has a Guarded status, none is Reachable). The model is tied to /repo's working tree by differential evaluation "
                   "inside Coq: predicted Ok / Err =? observed, on fuzzed near-valid binaries; any observed panic is a violation.",
        level_note="Partial (the theorem is about the payload abstraction, not the bytes). Not covered: panics inside wasmparser, allocation failure, stack exhaustion "
                   "on deep nesting; inputs on which the model answers 'unmodelled' (none sampled). Trusted: Coq kernel + vm_compute; the harness "
                   "(generator, mutators, its own wasmparser pass computing the payload abstraction, panic-site classification by file / function / "
                   "message); the one-line Guarded arguments of Model/PanicSites.v; that sampled agreement extends to unsampled inputs. The library is "
                   "built in release mode (no overflow checks); the only arithmetic on the parse path that could overflow in a debug build "
                   "(`num_locals += count`) is guarded by wasmparser's own checked total.",
        design_ref="5/C03",
        technique="Coq proof over a hand-written model + generated panic-site inventory (syn) + in-Coq differential correspondence on fuzzed inputs",
        trusted_base=PARSE_TB,
        modelled="Module::parse_internal (payload match, count checks, construction of the function list), InitExpr::eval, namemap_parser2encoder, "
                 "indirect_namemap_parser2encoder, add_to_namemap, Component::parse_comp (payload match, slicing of nested sections)",
        assumptions=["a panic is identified by (source file, enclosing function, message prefix); two panics of one function with the same message are one site",
                     "aborts other than panics (allocation failure, stack overflow) are outside the property as checked",
                     "the debug-assertion behaviour was examined by reading only (the harness builds the library in release mode)"],
    ),
}

_RT_COMMON = dict(
    engine="roundtrip",
    gen=["GenDataTypeConv", "GenInventory"],
    check_targets=["Check/CheckRoundtrip.vo"],
    per_shard=100,
    technique="Coq proof over conversion tables generated from src/ir/types.rs + hand-written parse model + in-Coq differential "
              "correspondence on decoded forms of generated valid modules (wasmprinter / wasmparser / Validator as oracles)",
    trusted_base=PARSE_TB + ["translator/src/datatype.rs (From<ValType> for DataType, From<&DataType> for wasm_encoder::ValType / wasmparser::ValType, storage types); "
                             "validated on every case against the real conversions",
                             "coq/Model/ValTypes.v: hand-written vocabulary of wasmparser / wasm-encoder value types",
                             "wasmparser::Validator, wasmprinter 0.235 and wat 1.259 (input validity, output validity, decoded text of items)"],
    modelled="Module::parse_internal (as for C03); From<ValType> for DataType, From<&DataType> for wasm_encoder::ValType, storage-type conversions (generated). "
             "NOT modelled: Module::encode_internal's emission (compared differentially on decoded forms only)",
    rule="valid core modules: a profile set is drawn (plain MVP 10 %, exactly one proposal 30 %, random mix 60 % of multi-value, reference types, bulk "
         "memory, SIMD, tail calls, GC, exceptions with try_table / exnref, threads, memory64, multi-memory; never extended-const), a module is generated as "
         "text (types incl. rec groups / sub types, imports of all kinds, memories incl. shared / 64-bit / second memory, tables with initialisers, tags, "
         "globals over the const-expr forms incl. NaN payloads, 3-8 functions whose bodies mix a typed expression generator (i32 / i64 / f64, blocks, "
         "loops, ifs, br_if, br_table, select, loads, stores) with per-proposal instruction snippets, exports, start, active / passive / declared element "
         "segments in both encodings, active / passive data, every identifier named so that all twelve name maps are present) and assembled with wat; 30 % of "
         "the binaries are decorated (extra custom sections anywhere, producers sections with 0-3 fields or undecodable fields, second name sections with undecodable maps, the name section moved before the code / import "
         "section or to the front, early name sections without function names / with imported function names only); every input is validated with exactly "
         "the features of its profile set and redrawn otherwise (about 1.5 % redraws); 13 hand-written seeds corpus/roundtrip/*.wat (one or more per "
         "proposal) first; parsed with the multi-memory flag iff the profile has multi-memory; non-trivial = valid input with at least two functions",
)

PROPS["C02"] = dict(
    _RT_COMMON,
    proof_targets=["Props/C02.vo"],
    theorems=[("C02", "C02_valtype_faithful"), ("C02", "C02_valtype_class_exact"), ("C02", "C02_storage_faithful"), ("C02", "C02_valtype_refuted"),
              ("C02", "C02_valtype_wp_faithful"), ("C02", "C02_checker_sound"), ("C02", "C02_failures_are_known"), ("C02", "C02_conv_table_validated")],
    quick=dict(n=1500), thorough=dict(n=40000),
    level_text="Coq proof over the conversion tables regenerated from src/ir/types.rs that ValType -> DataType -> wasm_encoder::ValType (and storage types) is "
               "the identity on every reader-producible type exactly outside the known class D10, with exnref / nullexnref / contref / shared witnesses; Coq "
               "proof that on an agreeing sampled case the decoded content of input and output is equal whenever the parse model predicts Ok and no converted "
               "type is in D10, and that every failure lies in a known class. The emission half of Module::encode is not modelled: it is tied to the "
               "property by differential evaluation inside Coq of decoded input vs decoded output (item texts per kind, twelve name maps, custom-section "
               "list) on generated valid modules of every profile.",
    level_note="Partial: false today (D10a; D09i-j: a valid module whose name section has an undecodable entry is rejected with Err). D23 does not exist. Not proved: faithfulness of "
               "encode_internal's section emission (sampled). Trusted: Coq kernel + vm_compute; the harness (WAT generator, decorations, summaries by "
               "wasmprinter text with custom sections stripped, name-map decoding); wasmparser / wasmprinter / wat; that sampled agreement extends to unsampled inputs.",
    design_ref="5/C02",
    assumptions=["equality is checked on the decoded form: wasmprinter text of every item of the non-custom sections (custom sections stripped before printing), "
                 "decoded name maps of all twelve kinds compared as sorted entry lists, ordered list of non-name custom sections",
                 "empty name maps and the presence / absence of a name section are 'name-section layout' and not compared",
                 "inputs are valid under exactly the features of their profile set; extended-const is excluded by the quantifier"],
)
PROPS["C01"] = dict(
    _RT_COMMON,
    proof_targets=["Props/C01.vo"],
    theorems=[("C01", "C01_checker_sound"), ("C01", "C01_valid_roundtrip"), ("C01", "C01_parse_never_panics"), ("C01", "C01_valtype_faithful")],
    quick=dict(n=1500), thorough=dict(n=40000),
    level_text="Validity after the round trip is reduced to C02's content equality: Coq proof that on an agreeing sampled case with a valid input, parse "
               "model Ok and equal decoded content the output was observed valid, hence (with C02) every agreeing case outside D09 / D10 satisfies C01; Coq "
               "proof (C03) that the parse model panics only at known sites; value-type conversion theorem over generated tables. The oracle is "
               "wasmparser's Validator with exactly the features of the module's profile set, on input and output, for generated valid modules of every profile.",
    level_note="Partial: false today (D09i-j: a valid module whose name section has an undecodable entry is rejected with Err; D10a: exnref comes back non-nullable and the output is invalid). The "
               "reduction 'validity depends only on decoded content and section order' is an assumption sampled on every case, not a theorem; no Gallina "
               "model of the validator or of encode_internal. Trusted as for C02.",
    design_ref="5/C01",
    assumptions=["'valid' = accepted by wasmparser 0.235's Validator with exactly the features of the profile set the module was generated for",
                 "multi-memory modules are parsed with enable_multi_memory = true, all others with false",
                 "extended constant expressions are excluded by the quantifier (Module::parse rejects them with Err)"],
)
