"""parse / round-trip engine: C03 (parsing never panics), C02 / C01 (unmodified round trip) -- see coq/Props/C03.v"""
PARSE_TB = ["coq/Model/ParseGlue.v: hand-written model of the glue code of Module::parse_internal / Component::parse_comp over the payload "
            "abstraction (tied to /repo by the in-Coq differential run and by the generated inventory)",
            "coq/Model/PanicSites.v: hand-written status (Reachable k / Guarded <reason>) of every generated panic site; the Guarded reasons are "
            "arguments by reading, not proofs",
            "translator/src/inventory.rs: the syntactic call-graph over-approximation that decides which functions are 'on the parse path'",
            "wasmparser 0.235 (framing, LEB / operator decoding, its own limits) -- the abstraction of an input is computed with it"]

PROPS = {
    "C03": dict(
        engine="parsefuzz",
        gen=["GenInventory"],
        check_targets=["Check/CheckParse.vo"],
        proof_targets=["Props/C03.vo"],
        theorems=[("C03", "C03_partial"), ("C03", "C03_partial_component"), ("C03", "C03_known_sites_all_reached"),
                  ("C03", "C03_inventory_covered"), ("C03", "C03_inventory_no_unknown"), ("C03", "C03_inventory_reachable_eq_known"),
                  ("C03", "C03_checker_sound"), ("C03", "C03_no_unlisted_failures")],
        quick=dict(n=20000), thorough=dict(n=400000),
        per_shard=1250,
        rule="byte strings: 14 % generated valid core modules (wasm-encoder 0.235: func / GC rec-group / sub types, imports of all five kinds, tables "
             "with init expressions, memories incl. memory64 / shared / multi-memory, tags, globals over all 16 const-expr forms plus extended-const, "
             "exports, start, all eight element forms, data count, code with locals, active / passive data, custom sections, name section placed "
             "first / before imports / before code / last with all map kinds, producers with 0-3 fields), 60 % mutations of such modules (file / "
             "section-boundary / header / body truncation, byte flips, section-size and vector-count LEB tweaks, swap / duplicate / delete / move of "
             "sections, section-body splices from another generated module, crafted name / producers / tag / global / unknown sections, trailing "
             "bytes), 20 % small components (nested modules and components to depth 3, type / custom / component-name sections) unmutated or mutated "
             "(outer level and inner modules), 6 % random strings; 23 hand-written witnesses (corpus/C03.json) first; each input is parsed with "
             "Module::parse(b,false), Module::parse(b,true), Component::parse(b,false) under catch_unwind; non-trivial = the input gets past the "
             "8-byte header (about 94 %)",
        level_text="Coq proof (every abstract input, no size bound) that the hand-written model of the parser's glue code panics only at the twelve "
                   "committed known sites, one vm_compute witness per site (nine on inputs wasmparser's validator accepts), and a vm_compute "
                   "coverage theorem over the panic-site inventory regenerated from /repo/src on every run (every unwrap / expect / panic!-like "
                   "macro / index / slice / arithmetic site reachable from Module::parse / Component::parse has a status, the Reachable classes equal "
                   "the known table). The model is tied to /repo's working tree by differential evaluation inside Coq: predicted Ok / Err / Panic "
                   "site =? observed, on fuzzed near-valid binaries; any observed panic outside the known table is a violation.",
        level_note="Partial: the property itself is false (D09a-D09l). Not covered: panics inside wasmparser, allocation failure, stack exhaustion "
                   "on deep nesting; inputs on which the model answers 'unmodelled' (none sampled). Trusted: Coq kernel + vm_compute; the harness "
                   "(generator, mutators, its own wasmparser pass computing the payload abstraction, panic-site classification by file / function / "
                   "message); the one-line Guarded arguments of Model/PanicSites.v; that sampled agreement extends to unsampled inputs. The library is "
                   "built in release mode (no overflow checks); the only arithmetic on the parse path that could overflow in a debug build "
                   "(`num_locals += count`) is guarded by wasmparser's own checked total.",
        design_ref="5/C03",
        technique="Coq proof over a hand-written model + generated panic-site inventory (syn) + in-Coq differential correspondence on fuzzed inputs",
        trusted_base=PARSE_TB,
        modelled="Module::parse_internal (payload match, count checks, construction of the function list), InitExpr::eval, namemap_parser2encoder, "
                 "indirect_namemap_parser2encoder, add_to_namemap, Component::parse_comp (payload match, slicing of nested sections)",
        assumptions=["a panic is identified by (source file, enclosing function, message prefix); two panics of one function with the same message are one site",
                     "aborts other than panics (allocation failure, stack overflow) are outside the property as checked",
                     "the debug-assertion behaviour was examined by reading only (the harness builds the library in release mode)"],
    ),
}
