"""component engine: C27 (component round trip at any nesting depth)"""
COMP_TB = ["coq/Model/Comp.v: hand-written mirror of Component::parse_comp (inline payload stream of parse_all, per-level stack that "
           "follows the nesting while a nested body is skipped, run-length section log, consumed component-name section) and Component::encode_comp "
           "(replay of the log with per-kind cursors, start-section assert, rebuilt name section), tied to /repo by the correspondence "
           "run; coq/Check/CheckComp.v: the tree equivalence (normal forms)",
           "harness/src/bin/comp.rs: decoding of input and output into section trees (items = hash-consed raw bytes; imports/exports = "
           "hash-consed parsed form; modules = hash-consed wasmprinter text), the dump of the real parse_all payload sequence, and the "
           "re-encoding table (component-type item |-> the item as wrappers.rs re-encodes it), empty since the repair of D28 / D29: "
           "every item is expected to come back unchanged"]

PROPS = {
    "C27": dict(
        engine="comp",
        check_targets=["Check/CheckComp.vo"],
        proof_targets=["Props/C27.vo"],
        theorems=[("C27", "C27_roundtrip_exact"), ("C27", "C27_roundtrip"), ("C27", "C27_depth2"), ("C27", "C27_former_D14_witness_holds"),
                  ("C27", "C27_former_D14_panic_witness_holds"), ("C27", "C27_a_reencoded_item_breaks_the_round_trip"), ("C27", "C27_checker_sound"), ("C27", "C27_eqvb_reflects")],
        quick=dict(n=1200), thorough=dict(n=24000), per_shard=400,
        rule="components built with wasm-encoder's raw Component/section API (every section boundary chosen by the generator: random "
             "interleavings of all twelve section kinds, adjacent sections of one kind, empty sections, component-name section at a random "
             "position): core modules (generated, with optional name/custom/data sections), nested components down to component depth 3 "
             "with a module one level deeper (depth <= 4), core instances, instances, aliases (core export, instance export, outer "
             "type/module/component), component/instance/function/defined/resource types incl. nested declarations with payload-less "
             "stream/future and explicit core rec groups, core types, canonical functions (lift, lower, resource.drop, stream/future/async builtins), imports, exports, "
             "custom sections, start; only inputs accepted by wasmparser::Validator (all features) are kept; plus every component found "
             "under /repo/tests (*.wasm, *.wat and the top-level (component ...) forms of *.wast, assembled with wat 1.259) and 11 "
             "hand-written witnesses (among them the five shapes of the former defect D14: sections that follow a nested component which has nested "
             "bodies of its own); one third of the deep trees are 'chain' shaped (every level's only nested body is its last section), the others "
             "have sections behind deep children; non-trivial = depth >= 1 and >= 3 sections; distinct by hash of the case term",
        level_text="Proof (Coq, EVERY well-formed section tree: unbounded width, arbitrary interleavings, ANY nesting depth, no excluded input class) "
                   "that the model of parse_comp + encode_comp returns exactly the normal form of the input tree, hence a tree equivalent to the input "
                   "(D14 -- sections behind a body at depth >= 2 leaked into the parent -- is repaired: the skipping loop follows the nesting, lemma skip_node; "
                   "D28 and D29 -- component-type items that wrappers.rs re-encoded differently -- are repaired too, all by fix: commits); the depth <= 2 "
                   "form is a plain instance; the two former D14 refutation witnesses (content duplicated into an ancestor; encode panic) are now "
                   "vm_compute'd positive examples. The model is tied to "
                   "/repo's working tree by differential evaluation inside Coq on generated components and the repository's fixtures "
                   "(model's payload stream =? the payload sequence parse_all really produced; model round trip =? decoded real output), "
                   "and the independent checker (normal form of the decoded output =? normal form of the decoded input, validator verdict) "
                   "is evaluated on every observed output.",
        level_note="Trusted: Coq kernel + vm_compute; the harness (generator, wasmparser decoding of input/output into trees, tokenisation, "
                   "case printer); wasmparser::Validator for 'valid'; that the sampled correspondence extends to unsampled inputs. Modelled, "
                   "not verified: src/ir/component.rs parse_comp / encode_comp. Opaque (tokens): item contents through RoundtripReencoder / "
                   "wrappers.rs, core modules through Module::parse_internal / encode_internal (their content is compared by printed text).",
        technique="Coq proof (induction on the tree; run-length log vs. merging by snoc-induction with a frame) over a hand-written model "
                  "+ in-Coq differential correspondence against Component::parse / Component::encode under catch_unwind",
        design_ref="5/C27",
        trusted_base=COMP_TB,
        modelled="Component::parse_comp (stack: End pops, nested-section payloads push while skipping / add_to_sections / name section handling), Component::encode_comp (section replay, "
                 "start assert, name section); wrappers.rs::convert_component_type / convert_instance_type only through the per-case re-encoding table",
        assumptions=["'same sections / same contents' is read up to framing: how a run of items of one kind is split into sections, the position "
                     "of the component-name section and the order of its subsections, the always-added (possibly empty) component-name "
                     "section, an added empty name section inside core modules, and the two binary spellings (0x00 / legacy 0x01) of an "
                     "import/export name are NOT counted as differences; everything else is (every item token, module text, custom and "
                     "start sections, name entries, nesting)",
                     "domain = the input is accepted by wasmparser::Validator with all features and has at most one start section and one "
                     "component name per component (implied by validity / produced by all encoders)",
                     "the output must itself be accepted by the validator (part of the property), which the model does not predict; "
                     "C27_checker_sound takes it as a hypothesis"],
    ),
}
