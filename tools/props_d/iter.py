"""iterator engine: C25 (module iterator), C26 (component iterator)"""
ITER_TB = ["coq/Model/Iter.v: hand-written mirror of FuncSubIterator / ModuleSubIterator / ComponentSubIterator and of "
           "ModuleIterator / ComponentIterator::{new,next,curr_loc,curr_op,reset} (after the repair of D12/D13), with explicit Panic outcomes "
           "(tied to /repo by the correspondence run); coq/Check/CheckIter.v: the executable specification (no known-finding class)"]

_COMMON = dict(
    engine="iter",
    check_targets=["Check/CheckIter.vo"],
    per_shard=400,
    technique="Coq proof (induction over modules / functions / instructions) over a hand-written model + in-Coq differential "
              "correspondence against the real iterators driven through the public Iterator trait under catch_unwind",
    trusted_base=ITER_TB,
)

PROPS = {
    "C25": dict(
        _COMMON,
        proof_targets=["Props/C25.vo"],
        theorems=[("C25", "C25_visits_exact"), ("C25", "C25_checker_sound"), ("C25", "C25_spec_contents"), ("C25", "C25_spec_in_order_once")],
        quick=dict(n=2400), thorough=dict(n=48000),
        rule="wasm-encoder modules with 0-3 imported functions (plus an interleaved global import), 0-6 local functions of 1-8 "
             "instructions with unique constants; skip lists: empty, import/unknown ids, interior, random subsets with duplicates, "
             "all, all-but-one, trailing, first (also with an equal-length successor); script: construct, optionally k next() "
             "calls + reset(), full traversal recording curr_loc()/curr_op() at every step, optionally curr_loc() after the end; "
             "7 hand-written regression inputs, the former witnesses of D12 (corpus/C25.json); non-trivial = at least one local function and >= 2 instructions to visit",
        level_text="Proof (Coq, every module, skip list and script, no size bound) that the model of "
                   "ModuleIterator yields exactly the specified event list (every instruction of every unskipped local function "
                   "once, in order, correct location / end flag / operator, restart after reset, no panic), including modules "
                   "without local functions and skip lists covering the first, the last or every function; the model is tied to /repo's working tree by differential evaluation inside Coq "
                   "(model =? observed events, specification =? observed events) on generated cases.",
        level_note="Trusted: Coq kernel + vm_compute; the harness (generator, driver loop mirroring `walk`/`run` of Model/Iter.v, "
                   "case printer); that the sampled correspondence extends to unsampled inputs. Modelled, not verified: "
                   "src/subiterator/*.rs, src/iterator/module_iterator.rs (new/next/curr_loc/curr_op/reset), Module::get_func_metadata.",
        design_ref="5/C25",
        modelled="FuncSubIterator, ModuleSubIterator (new, next_unskipped, next, next_function, has_next_function, is_empty, get_curr_func, reset, curr_loc), "
                 "ModuleIterator::{new,next,curr_loc,curr_op,reset}",
        assumptions=["a traversal is the loop `record curr_loc(); if next() is None break` preceded by a curr_op() check (None = nothing to visit)",
                     "curr_loc() after the end of a traversal must not panic (counted as part of 'works on any parsed module'); only probed in about half of the cases",
                     "every function body has at least its final `end` (wf_meta), local function ids ascend"],
    ),
    "C26": dict(
        _COMMON,
        proof_targets=["Props/C26.vo"],
        gen=["GenIterInj"],
        theorems=[("C26", "C26_visits_exact"), ("C26", "C26_as_module_iterators"), ("C26", "C26_single_module"),
                  ("C26", "C26_injection_method_tables_agree"), ("C26", "C26_injections_as_module_iterators"),
                  ("C26", "C26_untouched_module_unchanged"), ("C26", "C26_checker_sound")],
        technique="Coq proof (induction over modules / functions / instructions) over a hand-written model of the traversal + "
                  "Coq proof, for every interpretation of the injection-side trait methods, over the two method tables a syn-based "
                  "translator regenerates from component_iterator.rs / module_iterator.rs on every check + in-Coq differential "
                  "correspondence against the real iterators driven through the public Iterator trait under catch_unwind",
        trusted_base=ITER_TB + ["translator/src/iterinj.rs (GenIterInj): reads every `impl <Trait> for ComponentIterator / ModuleIterator` "
                                "(Inject, InjectAt, Instrumenter, IteratingInstrumenter, AddLocal; Opcode / MacroOpcode must be empty impls; any other "
                                "trait or any method body outside the understood shapes is a 'shape changed' exit) and normalises each method to "
                                "(trait, method, location source, how the function is reached + arguments + location fields, statements); trusted: that "
                                "two methods with equal normalised entries do the same thing to the module they reach (same Rust statements over "
                                "the same bindings `l`, MODULE, func_idx, instr_idx and the same arguments), and that the shared default methods "
                                "(iterator_trait.rs, opcode.rs) reach the module only through these methods"],
        quick=dict(n=1600), thorough=dict(n=32000),
        rule="wasm-encoder components with 1-4 core modules generated as for C25 (optionally custom sections in between), a skip map "
             "(modules present with a list, present with an empty list, or absent), the same script against ComponentIterator; "
             "plus 0-4 `before: i32.const k; drop` injections at random expected locations made once through a ComponentIterator "
             "and once through per-module ModuleIterators, the two encoded components compared byte for byte; 6 hand-written "
             "regression inputs, the former witnesses of D13 (corpus/C26.json); non-trivial = >= 2 instructions to visit",
        level_text="Proof (Coq, every component, skip map and script, no size bound) that the model of "
                   "ComponentIterator yields exactly the concatenation over the modules of the module-level visit lists and equals the "
                   "concatenation of the ModuleIterator model runs; correspondence of the "
                   "model with /repo's working tree by differential evaluation inside Coq. Injection half: Coq proof that, for EVERY "
                   "interpretation of a trait-method table as the effect of the public injection calls on the module the iterator stands in, "
                   "every component, skip map, plan of calls per visited location and initial modules, the ComponentIterator run leaves exactly "
                   "the modules (hence the encoded modules) that one ModuleIterator per module leaves, given equal method tables; and a vm_compute "
                   "theorem that the two tables regenerated from /repo/src/iterator/{component,module}_iterator.rs on every check (16 "
                   "injection-side methods each, normalised) are equal. What the shared callee (LocalFunction::add_instr, ...) and Module::encode "
                   "do is not part of this theorem (C15-C22); the real encodings of both routes are additionally compared byte for byte on every "
                   "sampled case and Coq requires the comparison to succeed.",
        level_note="Trusted: Coq kernel + vm_compute; the harness (generator, driver loop, byte comparison of the two encodings, case "
                   "printer); that the sampled correspondence extends to unsampled inputs. Modelled, not verified: "
                   "src/subiterator/component_subiterator.rs, src/iterator/component_iterator.rs (new/next/curr_loc/curr_op/reset). "
                   "Injection methods: regenerated by the translator, not hand-written. Not modelled: what the shared callees "
                   "(LocalFunction::add_instr, clear_instr_at, ...) and Component::encode do -- the theorem is parametric in them, and the two "
                   "routes are compared on the real code.",
        design_ref="5/C26",
        modelled="ComponentSubIterator (new, enter_module, skip_empty_modules, next, next_module, reset, curr_loc, end), ComponentIterator::{new,next,curr_loc,curr_op,reset}",
        assumptions=["'as a module iterator visits each module' is read against the specified module-level behaviour (C25's specification), "
                     "which the ModuleIterator model is proved to have (C26_as_module_iterators)",
                     "only top-level core modules are iterated (as ComponentIterator does); generated components contain at least one core module",
                     "same script conventions as C25"],
    ),
}
