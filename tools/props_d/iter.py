"""iterator engine: C25 (module iterator), C26 (component iterator)"""
ITER_TB = ["coq/Model/Iter.v: hand-written mirror of FuncSubIterator / ModuleSubIterator / ComponentSubIterator and of "
           "ModuleIterator / ComponentIterator::{new,next,curr_loc,curr_op,reset} (after the repair of D12/D13), with explicit Panic outcomes "
           "(tied to /repo by the correspondence run); coq/Check/CheckIter.v: the executable specification (no known-finding class)"]

_COMMON = dict(
    engine="iter",
    check_targets=["Check/CheckIter.vo"],
    per_shard=400,
    technique="Coq proof (induction over modules / functions / instructions) over a hand-written model + in-Coq differential "
              "correspondence against the real iterators driven through the public Iterator trait under catch_unwind",
    trusted_base=ITER_TB,
)

PROPS = {
    "C25": dict(
        _COMMON,
        proof_targets=["Props/C25.vo"],
        theorems=[("C25", "C25_visits_exact"), ("C25", "C25_checker_sound"), ("C25", "C25_spec_contents"), ("C25", "C25_spec_in_order_once")],
        quick=dict(n=2400), thorough=dict(n=48000),
        rule="wasm-encoder modules with 0-3 imported functions (plus an interleaved global import), 0-6 local functions of 1-8 "
             "instructions with unique constants; skip lists: empty, import/unknown ids, interior, random subsets with duplicates, "
             "all, all-but-one, trailing, first (also with an equal-length successor); script: construct, optionally k next() "
             "calls + reset(), full traversal recording curr_loc()/curr_op() at every step, optionally curr_loc() after the end; "
             "7 hand-written regression inputs, the former witnesses of D12 (corpus/C25.json); non-trivial = at least one local function and >= 2 instructions to visit",
        level_text="Proof (Coq, every module, skip list and script, no size bound) that the model of "
                   "ModuleIterator yields exactly the specified event list (every instruction of every unskipped local function "
                   "once, in order, correct location / end flag / operator, restart after reset, no panic), including modules "
                   "without local functions and skip lists covering the first, the last or every function; the model is tied to /repo's working tree by differential evaluation inside Coq "
                   "(model =? observed events, specification =? observed events) on generated cases.",
        level_note="Trusted: Coq kernel + vm_compute; the harness (generator, driver loop mirroring `walk`/`run` of Model/Iter.v, "
                   "case printer); that the sampled correspondence extends to unsampled inputs. Modelled, not verified: "
                   "src/subiterator/*.rs, src/iterator/module_iterator.rs (new/next/curr_loc/curr_op/reset), Module::get_func_metadata.",
        design_ref="5/C25",
        modelled="FuncSubIterator, ModuleSubIterator (new, next_unskipped, next, next_function, has_next_function, is_empty, get_curr_func, reset, curr_loc), "
                 "ModuleIterator::{new,next,curr_loc,curr_op,reset}",
        assumptions=["a traversal is the loop `record curr_loc(); if next() is None break` preceded by a curr_op() check (None = nothing to visit)",
                     "curr_loc() after the end of a traversal must not panic (counted as part of 'works on any parsed module'); only probed in about half of the cases",
                     "every function body has at least its final `end` (wf_meta), local function ids ascend"],
    ),
    "C26": dict(
        _COMMON,
        proof_targets=["Props/C26.vo"],
        theorems=[("C26", "C26_visits_exact"), ("C26", "C26_as_module_iterators"), ("C26", "C26_single_module"),
                  ("C26", "C26_checker_sound")],
        quick=dict(n=1600), thorough=dict(n=32000),
        rule="wasm-encoder components with 1-4 core modules generated as for C25 (optionally custom sections in between), a skip map "
             "(modules present with a list, present with an empty list, or absent), the same script against ComponentIterator; "
             "plus 0-4 `before: i32.const k; drop` injections at random expected locations made once through a ComponentIterator "
             "and once through per-module ModuleIterators, the two encoded components compared byte for byte; 6 hand-written "
             "regression inputs, the former witnesses of D13 (corpus/C26.json); non-trivial = >= 2 instructions to visit",
        level_text="Proof (Coq, every component, skip map and script, no size bound) that the model of "
                   "ComponentIterator yields exactly the concatenation over the modules of the module-level visit lists and equals the "
                   "concatenation of the ModuleIterator model runs; correspondence of the "
                   "model with /repo's working tree by differential evaluation inside Coq. The injection half (same encoded modules) is "
                   "tested, not proved: the harness compares the encodings and Coq requires the comparison to succeed on every case.",
        level_note="Trusted: Coq kernel + vm_compute; the harness (generator, driver loop, byte comparison of the two encodings, case "
                   "printer); that the sampled correspondence extends to unsampled inputs. Modelled, not verified: "
                   "src/subiterator/component_subiterator.rs, src/iterator/component_iterator.rs (new/next/curr_loc/curr_op/reset). "
                   "Not modelled: the injection path (LocalFunction::add_instr) and Component::encode -- compared on the real code only.",
        design_ref="5/C26",
        modelled="ComponentSubIterator (new, enter_module, skip_empty_modules, next, next_module, reset, curr_loc, end), ComponentIterator::{new,next,curr_loc,curr_op,reset}",
        assumptions=["'as a module iterator visits each module' is read against the specified module-level behaviour (C25's specification), "
                     "which the ModuleIterator model is proved to have (C26_as_module_iterators)",
                     "only top-level core modules are iterated (as ComponentIterator does); generated components contain at least one core module",
                     "same script conventions as C25"],
    ),
}
