"""re-indexing engine: C06-C11"""
TB = ["coq/Model/Reindex.v + coq/Check/CheckReidx.v: hand-written mirror of the three index spaces, the edit API (returned ids, asserts, index panics), "
      "reorganise_generic / get_mapping_generic and of which reference kinds encode_internal rewrites (tied to /repo by the correspondence run; for reorganise_generic / "
      "get_mapping_generic / recalculate_ids additionally by translation: translator/src/reorg.rs turns their statements into Gallina -- Vec::remove / push / insert, += / -=, the if / else-if "
      "tree; u32 / usize as nat, an out-of-range Vec::remove as 'state unchanged' -- and Proofs/GenReorgProofs.v proves the result equal to the model)",
      "the abstract specification (stable handles id -> entity, Wasm's index-space rule `designates`) in CheckReidx.v"]
NOTE = ("Trusted: Coq kernel + vm_compute; the harness (module generator, fingerprint scheme: every entity carries a unique marker, every reference is a numbered site "
        "read back from the real output with wasmparser; wasmparser's validator for 'the output validates'). Modelled, not verified: mod.rs reorganise_generic, "
        "get_mapping_generic, recalculate_ids, add_import/add_*/delete_*/convert_* and the index rewriting of encode_internal.")
def mk(pid, thms, rule, text, n=1600, tn=30000):
    return dict(engine="reindex", gen=(["GenRefers", "GenReorg"] if pid == "C06" else ["GenRefers"] if pid in ("C07", "C08") else []), thorough_flags=["--exhaustive"], check_targets=["Check/CheckReidx.vo"], proof_targets=["Props/%s.vo" % pid],
                theorems=[(pid, t) for t in thms], quick=dict(n=n), thorough=dict(n=tn), per_shard=300,
                rule=rule, level_text=text, level_note=NOTE, trusted_base=TB,
                technique="Coq theorems about the index-space model + abstract handle specification evaluated in Coq on the real output + refutation witnesses",
                design_ref="5/" + pid, modelled="index spaces, edit API, id maps, rewritten reference kinds",
                assumptions=["histories that make an API call panic are outside the domain of C06-C11 (counted in the input distribution)",
                             "a failure inside a known class is excused only if the implementation's output equals the mirror model's prediction of that defect"])
GEN = ("generated base modules (0-5 imports of all five kinds interleaved, 1-4 local functions, globals incl. `global.get`/`ref.func` initialisers, 0-2 memories, exports, start, "
       "function-list and expression element segments, active data segments with constant and global.get offsets) and histories of 0-7 edits (add local/import, delete, local->import, "
       "import->local with built bodies that carry references, iterator-level add_global, add/delete export, add_data) using the ids the API really returned; references in original, built and injected code (injected at the start of a probe function and, in half of the cases, in front of its final `end`); ")
PROPS = {
 "C06": mk("C06", ["C06_reorganise_closed_form", "C06_index_space_closed_form", "C06_mapping_position", "C06_mapping_injective", "C06_mapping_absent", "C06_function_operator_tables_exact", "C06_wf_is_an_invariant_of_every_edit", "C06_wf_holds_of_every_base_module", "C06_binding_after_any_history", "C06_binding_on_the_emitted_module", "C06_returned_id_stays_bound",
                   "C06_translated_reorganise_is_the_model", "C06_translated_recalculate_ids_is_index_space"],
           GEN + "non-trivial = history non-empty and at least one reference site",
           "The loop bodies of reorganise_generic / get_mapping_generic are translated from /repo/src/ir/module/mod.rs into Gallina on every check (Gen/GenReorg.v) and proved equal, for all arguments, to the model's rstep / reorganise / mapping (C06_translated_reorganise_is_the_model), so the index-space theorems speak about the code as it is now. Proof on the model: a well-formedness invariant of the three index spaces is preserved by every edit, and after ANY history, with no premise left, every live id is mapped to the index at which Wasm's index rule finds that very entity in the emitted module (Proofs/ReidxInv.v), on top of the closed form of reorganise_generic and the id-map theorems. What the model cannot carry (which reference kinds the real encoder rewrites, validity of the bytes) is decided per history by evaluating, in Coq, "
           "the abstract handle specification against the decoded real output (every function reference kind, import-section order via Wasm's index rule, validity), with no known class left (D02 -- import section order vs index order --, D05 -- element expression items / offsets and table initialisers never re-indexed --, D06 / D26 -- deleted items that stayed in the index space -- and D07 -- ImportsID used as FunctionID -- are repaired: C06_former_D02_witness_holds, C06_former_D05_witness_holds, C06_former_D06_witness_holds, C09_former_D26_witness_holds, C10_former_D07_witness_holds)."),
 "C07": mk("C07", ["C07_index_space_closed_form", "C07_mapping_position", "C07_global_operator_tables_exact", "C07_wf_is_an_invariant_of_every_edit", "C07_wf_holds_of_every_base_module", "C07_binding_after_any_history", "C07_binding_on_the_emitted_module", "C07_returned_id_stays_bound"],
           GEN + "biased to globals (global.get in code / initialisers / data offsets, global exports)",
           "Proof on the model (wf invariant over every edit, binding after any history, no premise left: Proofs/ReidxInv.v; shared index-space theorems) + per-history evaluation of the handle specification for every global reference kind; no known class left (D03 -- global exports copied -- is repaired: C07_former_D03_witness_holds; so are D05, D06 / D26 and D24 -- id collision after an iterator-level add_global: C07_former_D24_witness_holds)."),
 "C08": mk("C08", ["C08_index_space_closed_form", "C08_mapping_position", "C08_every_memory_operator_is_reindexed", "C08_memory_tables_exact", "C08_wf_is_an_invariant_of_every_edit", "C08_wf_holds_of_every_base_module", "C08_binding_after_any_history", "C08_binding_on_the_emitted_module", "C08_returned_id_stays_bound"],
           GEN + "biased to memories (i32.load/i64.store/memory.size/grow/fill/copy/v128.load/i32.atomic.load on every memory, memory exports, active data segments)",
           "Proof on the model (wf invariant over every edit, binding after any history, no premise left: Proofs/ReidxInv.v; shared index-space theorems) + per-history evaluation for every memory reference kind. The operator-table theorem (every one of the 619 operators of the pinned wasmparser that carries a memory index is classified and rewritten) is proved over tables the translator regenerates from /repo/src/ir/wrappers.rs on every check (it was false before the repair of D04)."),
 "C09": mk("C09", ["C09_deleted_survivors", "C09_live_items_kept", "C09_dangling_reference_is_loud", "C09_index_space_is_exactly_the_live_items", "C09_deleted_ids_are_unmapped", "C09_wf_reached_by_every_history", "C09_index_space_total"],
           GEN + "at least one deletion (function / global / memory / import / export), with and without remaining references",
           "Proof: no deleted item survives recalculate_ids (it was false for the D06 / D26 shapes before their repair: C09_former_D26_witness_holds, C09_former_D06_witness_holds), every live item is kept, the recomputed index space is exactly the live items, a dangling id has no map entry (loud failure); per-history evaluation of 'exactly the live "
           "entities present with their identity' and 'references to deleted entities make encode panic'."),
 "C10": mk("C10", ["C10_index_space_closed_form", "C10_mapping_position", "C10_replaced_import_id_designates_the_new_body", "C10_wf_is_an_invariant_of_every_edit"],
           GEN + "at least one replace_import_in_module on modules with mixed function / non-function imports",
           "Proof on the model (after a successful replacement the function id of the replaced import -- the id every former use carries -- is mapped to the index of the new body, for every reachable state; shared theorems) + per-history evaluation: the import is gone, every former use designates the new body, others unchanged; D07 (ImportsID used as FunctionID) is repaired: the function is resolved through the import (C10_former_D07_witness_holds)."),
 "C11": mk("C11", ["C11_index_space_closed_form", "C11_mapping_position", "C11_converted_function_id_designates_the_import", "C11_wf_is_an_invariant_of_every_edit"],
           GEN + "at least one convert_local_fn_to_import, any order, interleaved with import additions",
           "Proof on the model (after a successful conversion the id every former use carries is mapped to the index of the new import, for every reachable state; shared theorems) + per-history evaluation: body removed, import present, every former use designates it; D02 (import order vs index order) is repaired: the import section is emitted in index order (C11_former_D02_witness_holds, C11_former_D02_mixed_witness_holds)."),
 "C05": dict(
    parts=[dict(engine="reindex", harness_prop="C05", check_targets=["Check/CheckReidx2.vo"], per_shard=300, share=0.5),
           dict(engine="lowering", harness_prop="C05low", check_targets=["Check/CheckLow.vo"], per_shard=400, share=0.5)],
    check_targets=["Check/CheckReidx2.vo", "Check/CheckLow.vo"], proof_targets=["Props/C05.vo"],
    theorems=[("C05", "C05_second_resolution_is_identity"), ("C05", "C05_first_resolution_clears_every_special_list"), ("C05", "C05_second_resolution_is_identity_after_the_first"),
              ("C05", "C05_settled_second_encode_same"), ("C05", "C05_unflagged_history_second_encode_same"), ("C05", "C05_parsed_module_second_encode_same"),
              ("C05", "C05_checker_sound_index_side"), ("C05", "C05_known_D01_is_exact"), ("C05", "C05_second_encoding_is_the_models"), ("C05", "C05_partial_identity_maps_leave_references")],
    quick=dict(n=2400), thorough=dict(n=40000),
    rule="edit histories of the re-indexing engine and instrumentation plans of the lowering engine (all modes, function entry/exit, all API paths), each followed by two consecutive encode() calls "
         "whose bytes are compared; non-trivial = history or plan non-empty",
    level_text="Partial proof: the resolution pass of the first encode leaves no special-mode list behind, for every plan over all seven modes (also with special probes inside regions the same plan removes: "
               "the former defect D31 is repaired by a fix: commit, C05_former_D31_witness_holds), and the second resolution pass is the identity on such a body (all bodies). Index side: the second encode is "
               "now part of the model (Model/Reindex2.v: the item vectors reorganised in place and reorganised again, the flag never reset, references rewritten in place in bodies / probe lists / start / global "
               "initialisers / data offsets and mapped again); Coq proof that whenever no vector is reorganised and every id map is the identity the second encoding IS the first (every state, every reference set), "
               "that every state reached from any parsed module by any history that flags no index space is such a state (so the unmodified module and add_global / add_export / add_data histories encode twice to the "
               "same module), and that the known class D01 is exactly 'the model predicts a difference': on agreeing cases the two real encodings were equal outside the class and different inside it. The model's "
               "prediction for the second encode -- the decoded CONTENT of the second real encoding, not only 'same / different' -- is part of the correspondence on every sampled history. Known class D01 (id maps re-applied to already rewritten references): the property is false of the code there.",
    level_note=NOTE, trusted_base=TB,
    technique="Coq proofs (idempotence of the resolution pass; model of the second encode: settled states encode twice to the same module, unflagged histories are settled, the known class is exact) + "
              "in-Coq differential correspondence of the model's second-encode prediction with the byte comparison of two real encodings",
    design_ref="5/C05", modelled="resolve_special_instrumentation, id maps, the in-place effects of encode_internal on the IR (Model/Reindex2.v)", assumptions=[]),
}
