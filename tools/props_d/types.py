"""types engine: C13"""
PROPS = {
    "C13": dict(
        engine="types",
        check_targets=["Check/CheckTypes.vo"],
        proof_targets=["Props/C13.vo"],
        theorems=[("C13", "C13_dedup_map_consistent"), ("C13", "C13_add_type_sound"), ("C13", "C13_add_type_idempotent"),
                  ("C13", "C13_add_type_preserves"), ("C13", "C13_sequences"), ("C13", "C13_emission"),
                  ("C13", "C13_existing_type_not_added_again"), ("C13", "C13_ascending_order"), ("C13", "C13_last_visited_wins"),
                  ("C13", "C13_model_meets_spec"), ("C13", "C13_checker_sound")],
        quick=dict(n=3000), thorough=dict(n=60000), per_shard=400,
        rule="type section of 0-6 rec groups (implicit single types; explicit groups of 0-3 members), func / struct / array types over 18 "
             "value and storage types + references to other types, sub types with super type, open/final, shared; structurally equal types "
             "planted in 45% of the bases; 0-2 local functions; 1-8 additions through add_func_type, add_func_type_with_params, "
             "add_array_type, add_array_type_with_params, add_struct_type, add_struct_type_with_params and FunctionBuilder::finish_module, "
             "30% repeating an earlier request (also through the sibling call), 20% asking for a type the base already has, with and without "
             "tag; non-trivial = at least one addition; distinct by hash of the case term",
        level_text="Proof (Coq, all type sections, all addition sequences, no size bound, ANY order in which ModuleTypes::new inserts the parsed "
                   "types into the dedup map -- the code uses the ascending id order): add_type is sound (type at the returned id = request), idempotent, and only appends (ids and "
                   "contents of existing types and rec groups never change); lifted to sequences by fold_left (same request anywhere in the "
                   "sequence -> same id); emission writes the input's rec groups unchanged followed by each added type as its own entry at index = id; "
                   "a type the input already has is never added again. The model is tied to /repo's working tree by differential evaluation inside "
                   "Coq (model under the ascending insertion order =? observed, on bases with structurally equal types in 45% of the cases; independent specification "
                   "=? observed on the decoded type section).",
        level_note="Trusted: Coq kernel + vm_compute; the harness (generator, wasmparser decoding of SubTypes into structural terms, token table "
                   "for value/storage types, reading the HashMap iteration order through the public field); that the sampled correspondence extends "
                   "to unsampled inputs. Modelled, not verified: module_types.rs (Types equality/hash without tag, ModuleTypes::new, add_type and "
                   "the six add_* calls, PackedIndex::from_module_index), the type-section arm of Module::parse (mod.rs:174-253), type emission "
                   "(mod.rs:1202-1236, encode_type). HashMap<TypeID,Types> is represented as a dense vector (both insertion sites use key = len). "
                   "Structural equality is used for 'identical type' (a structurally equal member of an explicit rec group counts as the same type, "
                   "as the dedup map implements; iso-recursive type identity is not modelled).",
        technique="Coq proof over a hand-written model + in-Coq differential correspondence against the real encoder",
        design_ref="5/C13",
        trusted_base=["coq/Model/Types.v + coq/Check/CheckTypes.v: hand-written mirror of ModuleTypes, of the parse of the type section and of "
                      "its emission (tied to /repo by the correspondence run)"],
        modelled="Types (Eq/Hash without tag), ModuleTypes::new / add_type / add_*_type(_with_params), FunctionBuilder::finish_module's type addition, rec-group parse and emission",
        assumptions=["super type ids < 2^20 (PackedIndex::from_module_index silently drops larger ones; DESIGN.md section 2, last row): part of the domain predicate",
                     "of several structurally equal types of the input the one with the highest id answers a request (ascending insertion, last writer wins; D11 of C04 repaired); C13 holds for every order",
                     "value types exn/cont and shared reference types are not generated (D10, property C02); continuation types are not generated (encode_type is todo!())",
                     "struct requests carry as many mutability flags as fields (fewer flags panic in encode_type: API misuse, not generated)"],
    ),
}
