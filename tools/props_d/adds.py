"""additions engine: C30 (module-level additions), C12 (built functions)"""
TB = ["coq/Model/Additions.v + coq/Check/CheckAdds.v: hand-written mirror of add_global / add_imported_global / ModuleIterator::add_global / add_local_memory / add_import_memory / "
      "add_data / exports.add_export_* / exports.delete / mod_global_init_expr / delete_*, of InitInstr::fix_id_mapping + InitExpr::to_wasmencoder_type and of the emission of the import, "
      "global, memory, export and data sections; the three index spaces and recalculate_ids are those of coq/Model/Reindex.v (tied to /repo by the correspondence run)",
      "the independent specification in CheckAdds.v (stable handles id -> entity from CheckReidx.v, requested payload per entity, Wasm's index-space rule `designates`, multiset equality of "
      "the emitted entities, bit-exact constants: f32/f64 as bit patterns, v128 as its 128 bits)"]
NOTE = ("Trusted: Coq kernel + vm_compute; the harness (generator, the value-type / heap-type code tables that give a DataType its meaning, wasmparser decoding of every section of the real output, "
        "case printer); wasm-encoder / wasmparser for the byte level of constant expressions. Modelled, not verified: the functions listed in the trusted base.")
C30 = dict(
    engine="adds", check_targets=["Check/CheckAdds.vo"], proof_targets=["Props/C30.vo"],
    theorems=[("C30", t) for t in [
        "C30_init_decodes_to_request", "C30_init_encoding_injective", "C30_v128_bits_exact", "C30_constants_meet_spec",
        "C30_add_global_appends", "C30_requested_type_kept", "C30_add_memory_appends", "C30_add_data_appends", "C30_add_export_appends", "C30_histories_only_append",
        "C30_mod_init_changes_only_that_global", "C30_mod_init_emission",
        "C30_data_section_exact", "C30_export_section_exact", "C30_global_section_exact", "C30_memory_section_exact",
        "C30_add_global_end_to_end", "C30_add_globals_sequence", "C30_base_globals_clean",
        "C30_agree_is_equality", "C30_checker_sound_data", "C30_returned_ids_designate_the_added_items"]],
    quick=dict(n=1500), thorough=dict(n=30000), per_shard=300,
    rule="generated valid base modules (0-5 imports of all five kinds with random global / memory types, 1-3 local functions, 0-3 local globals of seven value types incl. global.get / ref.func / ref.null "
         "initialisers, 0-2 local memories (multi-memory, memory64, shared, custom page size), exports of four kinds, active (constant and global.get offsets) and passive data, optional data count) "
         "and histories of 1-7 operations: add_global with every InitInstr form (i32/i64 extremes, f32/f64 +-0, inf, quiet and signalling NaNs with payloads, subnormals, v128 incl. all-ones and the sign bit; "
         "global.get of an imported immutable global; ref.func; ref.null of 15 heap types; occasionally empty / two-instruction / mistyped expressions), 20 value types x mutability x shared, "
         "add_imported_global, ModuleIterator::add_global, add_local_memory / add_import_memory with random limits and flags, add_data (active on every memory incl. deleted ones, passive, empty payloads), "
         "exports.add_export_func / add_export_mem, exports.delete, mod_global_init_expr (also on imported, deleted and out-of-range ids), delete_func / delete_global / delete_memory, add_import_func; "
         "every returned id is referenced from injected code (global.get / memory.size / call); non-trivial = at least one addition or initialiser replacement; distinct by hash of the case term",
    level_text="Proof (Coq, all requests, no bound): the model of InitExpr::to_wasmencoder_type decodes back to the request bit for bit for every InitInstr form (u128-as-i128 wrap lemma in Base/Wrap.v) and is injective; "
               "add_global / add_local_memory / add_data / add_export append exactly one item and return its position, lifted over histories of any length by induction; mod_global_init_expr changes exactly one "
               "initialiser (state and emission level); every data segment / export / global / memory of the model's output is the stored request; on every freshly parsed module add_global (and any sequence of add_global with constant / ref.null initialisers) yields the old module plus exactly the requested globals, ids consecutive and mapped to themselves; agree is equality, hence an added data segment is in the "
               "*observed* output at the returned id with exactly the requested bytes for every history. Index-space part, proved on the model (C30_returned_ids_designate_the_added_items, over the wf invariant and the binding "
               "theorem of the re-indexing engine): from every parsed module and every earlier history, the id returned by add_global (module or iterator level) / add_local_memory designates the added item after ANY later history "
               "that does not delete that very item, and the encoder maps it to the index at which the index space holds that item; on the real output the same statement is decided per history in Coq "
               "by the handle specification; no known class is left (D03 -- global exports copied instead of re-indexed --, D06 -- a deleted added import stayed in the index space --, D24 -- an iterator-level add_global was not counted, so the id of a following add_imported_global collided -- and D30 / class 300 -- DataType::FuncRef / ExternRef were declared as the nullable funcref / externref -- are repaired; their former witnesses are the positive examples C30_former_D03_witness_holds / C30_former_D06_witness_holds / C30_former_D24_witness_holds / C30_former_D30_witness_holds).",
    level_note=NOTE, trusted_base=TB,
    technique="Coq theorems over a hand-written model + independent executable specification evaluated in Coq on the real decoded output + refutation witnesses",
    design_ref="5/C30",
    modelled="module-level addition API, InitExpr encoding, emission of import / global / memory / export / data sections, index spaces (shared with the re-indexing engine)",
    assumptions=["histories in which an API call panics (I8/I16 global types, mod_global_init_expr on an imported or unknown global, exports.delete out of range) are outside the domain (counted in the input distribution)",
                 "a reference to a deleted entity must make encode fail loudly; a failure inside a known class is excused only if the implementation's output equals the mirror model's prediction",
                 "`global.get` inside a constant expression names an imported global (Wasm's rule without the GC extension); requests that name a local global there are outside the domain",
                 "two entities with identical type and initial value are indistinguishable in the output: presence is compared as multisets of decoded descriptors",
                 "the meaning of a DataType is the value type Module::parse reports for it (From<ValType> for DataType): FuncRef = (ref func), FuncRefNull = funcref"])
TB12 = ["coq/Model/Builder.v + coq/Check/CheckBuild.v: hand-written mirror of FunctionBuilder::new / add_local / the Opcode helpers (one operator pushed per call) / set_name / finish_module "
        "(self.end(), Module::add_local_func_with_tag, the assert_eq! on functions.len()), of add_import_func / delete_func / convert_local_fn_to_import and of the emission of the function, code and "
        "function-name sections; locals = Model/Locals.v (C14), type dedup = Model/Types.v (C13), function index space = Model/Reindex.v (tied to /repo by the correspondence run)",
        "the independent specification in CheckBuild.v (stable handles from CheckReidx.v, the requested function per handle, Wasm's index-space rule, multiset equality of the emitted functions)"]
C12 = dict(
    engine="adds", check_targets=["Check/CheckBuild.vo"], proof_targets=["Props/C12.vo"],
    theorems=[("C12", t) for t in [
        "C12_finish_appends_one_end", "C12_declared_locals_exact", "C12_type_table_invariant", "C12_build_step_exact", "C12_function_section_exact",
        "C12_built_function_emitted", "C12_agree_is_equality", "C12_checker_sound_first_build",
        "C12_build_needs_balance", "C12_base_balanced", "C12_balance_kept_by_every_call", "C12_finish_module_never_fails",
        "C12_returned_id_refers_to_the_built_function"]],
    quick=dict(n=1000), thorough=dict(n=30000), per_shard=100,
    rule="generated valid base modules (1-3 pairwise distinct function types, 0-3 imports of four kinds, 1-3 local functions with declared local groups and optional names) and histories of 1-6 operations: "
         "FunctionBuilder::new with random signatures (0-3 params, 0-2 results over i32 i64 f32 f64 v128 funcref externref (ref func) (ref extern), a quarter of them a signature already in the type section), "
         "0-5 locals through add_local (declared before and in the middle of the body, repeated types), bodies of up to ~70 instructions from a typed generator through 100 different Opcode / MacroOpcode helpers "
         "(i32/i64/f32/f64/u32/u64 constants with random bits incl. NaN payloads, local.get/set/tee of the declared locals and parameters, block / loop / if / else / end properly bracketed with empty and value "
         "block types, br / br_if to enclosing labels, return, unreachable, nop, select, drop, ref.null, ref.is_null, 90 numeric operators), optional set_name, finish_module; interleaved with add_import_func, "
         "delete_func (also of built functions) and convert_local_fn_to_import of another function; every function id is referenced by a `call` injected into a probe function; "
         "non-trivial = at least one build; distinct by hash of the case term",
    level_text="Proof (Coq, all signatures / local lists / instruction sequences / histories, no bound): finish appends exactly one End and keeps the name; the local groups expand to the requested list with consecutive ids "
               "(from the C14 theorems); the type stored at the function's type id is the requested signature for every hash order of the parsed types (from the C13 dedup theorems); one build appends exactly one function "
               "item whose id is returned; the model's function/code sections are the stored payloads, so a built function is emitted with exactly the requested types, locals and body ++ [end] wherever the index space puts "
               "it, and -- agree being equality -- so is it in the observed output; finish_module succeeds iff functions.len() = num_local_functions + imports.num_funcs, every parsed module satisfies it and every API call keeps it (convert_local_fn_to_import takes one off num_local_functions since the repair of D08), so finish_module never fails after any history. Index-space part, proved on the model "
               "(C12_returned_id_refers_to_the_built_function, over the wf invariant and the binding theorem of the re-indexing engine): from every parsed module and every earlier history, the id a build returned designates the built "
               "function after ANY later history of builds, import additions, deletions and conversions of other functions, and the encoder maps it to the index at which the index space holds that function; on the real output "
               "(returned id and name refer to the function) the statement is decided per history in Coq on the decoded output; no known class left (D02 -- import section order vs index order --, D06 -- a deleted added import stayed in the index space -- and D08 -- finish_module panicked after a conversion -- are repaired; C12_former_D02_witness_holds, C12_former_D08_witness_holds).",
    level_note=NOTE, trusted_base=TB12,
    technique="Coq theorems over a hand-written model (reusing the C13 / C14 developments) + independent executable specification evaluated in Coq on the real decoded output + refutation witness",
    design_ref="5/C12", harness_prop="C12",
    modelled="FunctionBuilder, add_local_func_with_tag, function / code / name section emission, function index space (shared with the re-indexing engine)",
    assumptions=["operators are compared as (mnemonic, immediates) tokens; the request token comes from the helper's name, the observed token from the decoded wasmparser operator (two independent tables in the harness)",
                 "a finish_module that panics is inside the domain and counts as a failure; histories in which another API call panics are outside the domain",
                 "a `call` of a deleted function must make encode fail loudly; a failure inside a known class is excused only if the implementation's output equals the mirror model's prediction",
                 "the built bodies contain no references to functions / globals / memories (those are the subject of C06-C08)"])
PROPS = {"C30": C30, "C12": C12}
