"""lowering engine: C15 (C21, C22 to follow)"""
LOW_TB = ["coq/Model/Flat.v, Lowering.v + coq/Check/CheckLow.v: hand-written mirror of the injection API, "
          "resolve_special_instrumentation and the emission loop (tied to /repo by the correspondence run)"]

PROPS = {
    "C15": dict(
        engine="lowering",
        check_targets=["Check/CheckLow.vo"],
        proof_targets=["Props/C15.vo"], gen=["GenEmit", "GenAddInstr"],
        theorems=[("C15", "C15_lowering_exact"), ("C15", "C15_checker_sound"), ("C15", "C15_untouched_without_plan"), ("C15", "C15_translated_emission_is_the_model")],
        quick=dict(n=1600), thorough=dict(n=40000), per_shard=400,
        rule="random well-bracketed bodies (nesting <=5, all branch kinds, return/unreachable/throw/return_call) with 1-7 "
             "before/after/alternate/removal injections through ModuleIterator::inject, ModuleIterator::inject_at, "
             "FunctionModifier::inject and FunctionModifier::inject_at; non-trivial = plan non-empty; distinct by hash of the case term",
        level_text="Proof (Coq, all bodies and all plans, no size bound) that the model of add_instr/inject + resolve + emission "
                   "equals the specification spec15; the emission loop of encode_internal, has_instr and InstrumentationFlag::add_instr are translated from /repo/src on every check (Gen/GenEmit.v, Gen/GenAddInstr.v) and proved equal "
                   "to the model's emit / has_instr / add_instr (C15_translated_emission_is_the_model); the model is also tied to /repo's working tree by differential evaluation inside Coq "
                   "(model =? observed, and spec15 =? observed) on generated (body, plan) pairs through all four API paths.",
        level_note="Trusted: Coq kernel + vm_compute; the harness (generator, wasmparser decoding, case printer); that the sampled "
                   "correspondence extends to unsampled inputs. Modelled, not verified: src/ir/types.rs InstrumentationFlag::add_instr, "
                   "src/ir/function.rs / module_iterator.rs injection paths, mod.rs emission loop.",
        technique="Coq proof over a hand-written model + in-Coq differential correspondence against the real encoder",
        design_ref="5/C15",
        trusted_base=LOW_TB,
        modelled="InstrumentationFlag::add_instr, the four injection API paths, resolve_special_instrumentation (identity here), the code emission loop",
        assumptions=["bodies whose frames do not close after a user-requested removal of a structural instruction cannot be decoded back; for those only 'undecodable' is compared"],
    ),
    "C21": dict(
        engine="lowering", check_targets=["Check/CheckLow.vo"], proof_targets=["Props/C21.vo"],
        theorems=[("C21", "C21_block_alternate_replaces_exactly_the_construct"), ("C21", "C21_block_alternate_lowering_exact"), ("C21", "C21_depth_counter_is_region_replacement"), ("C21", "C21_checker_sound"), ("C21", "C21_accepted_on_constructs_only")],
        quick=dict(n=1600), thorough=dict(n=40000), per_shard=400,
        rule="random well-bracketed bodies with 1-3 block-alternate plans (replacement or removal, on block/loop/if/else, nested and on both an if and its else) combined with "
             "before/after/alternate injections outside the replaced regions, through all four API paths; non-trivial = plan non-empty",
        level_text="Proof (all bodies, all plans over before/after/alternate/block-alt, no size bound): the model of the injection API + resolve_special_instrumentation + emission equals dspec, "
                   "a one-pass depth-counter specification, and dspec equals the region-based reading spec21 of the property ('replace the construct from its opener through its matching end; for else the "
                   "else arm, end kept; everything else as in C15') for every consistently nested body and every plan without plain probes on removed positions (eqdom, evaluated to hold on every in-domain "
                   "sample). Hence `model = spec21`: full. Special probes inside a replaced region must vanish with it (checked per case, outside the theorem).",
        level_note="Trusted: Coq kernel + vm_compute; the harness. Modelled, not verified: resolve_special_instrumentation (block_alt / delete_block / retain_end handling), emission loop.",
        technique="in-Coq differential correspondence + executable specification; Coq lemmas on the API model",
        design_ref="5/C21", trusted_base=LOW_TB, modelled="resolve_special_instrumentation, plan_resolution_block_alt, emission loop",
        assumptions=["plans that put other injections inside a replaced region, or delete structural instructions with plain alternate, are outside the domain (still compared with the mirror model)"],
    ),
    "C22": dict(
        engine="lowering", check_targets=["Check/CheckLow.vo"], proof_targets=["Props/C22.vo"], gen=["GenAddInstr"],
        theorems=[("C22", "C22_rejected_at_the_call"), ("C22", "C22_accepted_otherwise"), ("C22", "C22_accepted_reports_special"),
                  ("C22", "C22_translated_add_instr_is_the_model"), ("C22", "C22_applicability_lists_are_the_model"), ("C22", "C22_no_special_probe_is_lost")],
        quick=dict(n=1600), thorough=dict(n=40000), per_shard=400,
        rule="random bodies with plans over all seven modes plus function entry/exit, through all four API paths, occasionally with an unused import deleted before encoding; every probe "
             "carries unique marker constants; non-trivial = at least one special-mode or function-level injection",
        level_text="Proof on the mirror: rejection at the call for inapplicable instructions, acceptance otherwise, the 'special' report of add_instr (all operators, modes, flags) -- the mirror of InstrumentationFlag::add_instr being "
                   "proved equal to the translation of its source (Gen/GenAddInstr.v, regenerated from /repo/src/ir/types.rs on every check; is_block_style_op / is_branching_op as operator lists) --, and "
                   "C22_no_special_probe_is_lost: for every body and every plan without replacements outside the D16-D18 shapes (semantic-after on branch instructions), the block-entry / block-exit / semantic-after code of every construct and the function entry / exit code occur "
                   "in the emitted body (Proofs/NoLoss.v over the flattening theorem). With replacements and on the real output the statement (every accepted special injection outside a removed region is reflected, every one inside a removed region or on the replaced opener disappears with it, no BUG log line) "
                   "is decided per case in Coq. Known class D16 (D19 and D20 were repaired by fix: commits).",
        level_note="Trusted: Coq kernel + vm_compute; the harness (markers, log capture). Modelled, not verified: the injection paths, resolve_special_instrumentation, emission.",
        technique="Coq lemmas on the API model + in-Coq marker check on the real output + refutation witnesses",
        design_ref="5/C22", trusted_base=LOW_TB + ["translator/src/addinstr.rs (GenAddInstr): one Gallina arm per arm of `match self.current_mode` in InstrumentationFlag::add_instr "
                                                      "(push on a list field, the None / Some match on an optional list, the applicability test with its panicking else branch, the boolean result) and the operator lists of the two "
                                                      "matches!() predicates; trusted: the mapping of field names to the record fields of Model/Flat.v and of operator names to the model's operator constructors (fop_names)"], modelled="add_instr, the four API paths, resolve_special_instrumentation, emission",
        assumptions=["'reflected' = every marker constant of the probe occurs in the encoded body; 'disappears' = none of them occurs (marker constants are unique per probe)"],
    ),
}
