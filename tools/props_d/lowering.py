"""lowering engine: C15 (C21, C22 to follow)"""
LOW_TB = ["coq/Model/Flat.v, Lowering.v + coq/Check/CheckLow.v: hand-written mirror of the injection API, "
          "resolve_special_instrumentation and the emission loop (tied to /repo by the correspondence run)"]

PROPS = {
    "C15": dict(
        engine="lowering",
        check_targets=["Check/CheckLow.vo"],
        proof_targets=["Props/C15.vo"],
        theorems=[("C15", "C15_lowering_exact"), ("C15", "C15_checker_sound"), ("C15", "C15_untouched_without_plan")],
        quick=dict(n=1600), thorough=dict(n=40000), per_shard=400,
        rule="random well-bracketed bodies (nesting <=5, all branch kinds, return/unreachable/throw/return_call) with 1-7 "
             "before/after/alternate/removal injections through ModuleIterator::inject, ModuleIterator::inject_at, "
             "FunctionModifier::inject and FunctionModifier::inject_at; non-trivial = plan non-empty; distinct by hash of the case term",
        level_text="Proof (Coq, all bodies and all plans, no size bound) that the model of add_instr/inject + resolve + emission "
                   "equals the specification spec15; the model is tied to /repo's working tree by differential evaluation inside Coq "
                   "(model =? observed, and spec15 =? observed) on generated (body, plan) pairs through all four API paths.",
        level_note="Trusted: Coq kernel + vm_compute; the harness (generator, wasmparser decoding, case printer); that the sampled "
                   "correspondence extends to unsampled inputs. Modelled, not verified: src/ir/types.rs InstrumentationFlag::add_instr, "
                   "src/ir/function.rs / module_iterator.rs injection paths, mod.rs emission loop.",
        technique="Coq proof over a hand-written model + in-Coq differential correspondence against the real encoder",
        design_ref="5/C15",
        trusted_base=LOW_TB,
        modelled="InstrumentationFlag::add_instr, the four injection API paths, resolve_special_instrumentation (identity here), the code emission loop",
        assumptions=["bodies whose frames do not close after a user-requested removal of a structural instruction cannot be decoded back; for those only 'undecodable' is compared"],
    ),
}
