"""name-section engine: C29"""
NAMES_TB = ["coq/Model/Names.v (+ Model/Reindex.v for the index spaces and the edit API): hand-written mirror of how parse_internal moves function names onto import / code entries and stores "
            "the other name maps, of Module::set_fn_name / functions.set_local_fn_name / imports.set_fn_name / imports.set_name / FunctionBuilder::set_name, and of the name section "
            "encode_internal builds (tied to /repo by the correspondence run)",
            "coq/Check/CheckNames.v: the specification (names attached to the stable handles of CheckReidx; an output index is resolved to an entity by Wasm's index-space rule on the "
            "decoded output and the entity's fingerprint)"]
PROPS = {
    "C29": dict(
        engine="names",
        check_targets=["Check/CheckNames.vo"],
        proof_targets=["Props/C29.vo"],
        theorems=[("C29", "C29_names_follow_functions"), ("C29", "C29_import_name_index"), ("C29", "C29_names_follow_import_items"), ("C29", "C29_partial"),
                  ("C29", "C29_partial_global_entity"), ("C29", "C29_import_global_names"), ("C29", "C29_checker_sound")],
        quick=dict(n=1500), thorough=dict(n=30000), per_shard=300,
        rule="generated modules (0-5 imports of all five kinds, 1-4 local functions with parameters and locals, 0-3 globals, a table, 0-1 memories, element / data segments) with a complete name section "
             "after the code section (module, function, local, label, type, table, memory, global, element, data, tag names; 1/4 sparse, 1/12 absent), histories of 0-8 calls: index-shifting edits "
             "(add_import_func, add_imported_global, add_import_memory, delete_func, delete_global, convert_local_fn_to_import, replace_import_in_module, add_global, iterator add_global, "
             "FunctionBuilder::finish_module) mixed with naming calls (Module::set_fn_name, functions.set_local_fn_name, imports.set_fn_name, imports.set_name, FunctionBuilder::set_name) on the ids "
             "the API really returned; 3/10 of the histories only append and name (no input index moves); non-trivial = name section present and history non-empty",
        level_text="Proof (all inputs, all histories): the rebuilt function-name map consists exactly of (position of a live local function after recalculate_ids = the index its stored id is mapped to, body name) "
                   "and (position of an emitted function import among the emitted function imports = its Wasm function index = the index the id map sends the import's function id to, custom name of its entry; the imports are emitted in index order since the repair of D02: C29_names_follow_import_items). Since the repair of D21 also a full proof for the local / global maps (C29_partial, C29_partial_global_entity - the names of the former partial results): "
                   "the emitted maps consist exactly of the custom names of the emitted global imports under their global indices (C29_import_global_names; imports.set_name, since the repair of D202) and of the parsed entries whose function (not converted) / global still has an index, each under the index the id map assigns, in ascending order, "
                   "and the item at that index is the very function / global of the input (stored id, fingerprint, kind). The whole property (soundness and retention of function, "
                   "local and global names against stable handles, naming calls, conversions) is decided per history in Coq on the decoded real output. Known class D25 (what is left of it: imports.set_fn_name on ids of imports added / converted after parsing); D21 (stale local / global maps, name lost on conversion; former witnesses: C29_repaired_D21_*), D202 (imports.set_name on a global import; C29_repaired_202), D201, the Module::set_fn_name / miscount parts of D25 and the index-space defects D06 / D26 (a deleted item stayed in the function / global vector; former witnesses: C29_former_D06_witness_holds, C29_former_D26_witness_holds) are repaired (fix: commits).",
        level_note="Trusted: Coq kernel + vm_compute; the harness (module generator with fingerprints, name tokens, wasmparser decoding of the output's name section and layout). Modelled, not verified: "
                   "parse_internal's name handling, the naming API, the name-section part of encode_internal. The specification's reading of 'attached by a naming call' for conversions is stated in "
                   "CheckNames.v (header) - a converted function keeps its name (the import field name the API assigns is accepted as well).",
        technique="Coq theorems over the mirror model (invariant of all histories, id-map position theorem) + executable handle specification evaluated in Coq on the real output + refutation witnesses",
        design_ref="5/C29", trusted_base=NAMES_TB,
        modelled="name handling of parse_internal, naming API, function-name rebuild, re-indexing of the local / label / memory / global maps and verbatim write-back of the other maps in encode_internal",
        assumptions=["a history in which an *edit* call panics, or that names a dead / unknown handle or uses a stale ImportsID, or whose decoded layout is not the live entity set of the handle specification "
                     "(a C06 / C09 / C10 defect), is outside the domain; a panic of a *naming* call on a live handle is a failure of the property",
                     "a failure is excused only if every failing requirement is explained by a known class present in the input and the output equals the mirror model's prediction; otherwise class 299 / a mismatch is reported"],
    ),
}
