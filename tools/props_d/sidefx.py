"""side-effect engine: C23"""
SFX_TB = ["coq/Model/SideFx.v (+ Model/Reindex.v for the index spaces / edit API, Model/Lowering.v + Check/CheckLow.v apply_plan for the flags left by the injection API and "
          "resolve_special_instrumentation): hand-written mirror of the `pull_side_effects` branches of encode_internal, of the tag handling of the addition API and of "
          "FuncInstrFlag / InstrumentationFlag::add_injections (tied to /repo by the correspondence run)",
          "coq/Check/CheckSideFx.v: the specification (added items by content key and tag; probes by marker; index space of a record body judged by Wasm's index-space rule on the decoded encoding)"]
PROPS = {
    "C23": dict(
        engine="sidefx",
        check_targets=["Check/CheckSideFx.vo"],
        proof_targets=["Props/C23.vo"],
        theorems=[("C23", "C23_additions"), ("C23", "C23_parsed_items_unreported"), ("C23", "C23_probe_ids"), ("C23", "C23_special_probes_reported_as_injected"), ("C23", "C23_checker_sound")],
        quick=dict(n=1500), thorough=dict(n=30000), per_shard=200,
        rule="generated modules (0-4 imports of all five kinds, 1-3 local functions, globals, memories, 1-3 types, parsed exports and data segments) and histories of 0-6 additions "
             "(add_func_type, add_import_func / add_imported_global / add_import_memory, FunctionBuilder::finish_module with index-bearing bodies, add_global, iterator add_global, "
             "add_local_memory, add_export_func / add_export_mem, add_data active / passive) each through the `_with_tag` variant / tag argument (non-empty tag), the plain variant "
             "(default empty tag) or with no tag at all where the API allows it, mixed with deletions of added globals / functions / exports; then 0-5 probes on one parsed function "
             "(before / after / alternate; in half of the cases also semantic-after / block-entry / block-exit / block-alt and function entry / exit), 2/3 of them tagged with "
             "append_tag_at, whose code carries call / global.get / memory.size / i32.load on ids that the history moved. The history is applied to two parsed copies: one is asked "
             "for pull_side_effects(), the other for encode(); non-trivial = history or plan non-empty",
        level_text="Proof (every state, hence every history): the records of every addition kind are exactly the image, in order, of the items of that kind that have a tag (C23_additions); "
                   "for every input and history no parsed item has a tag when the report is pulled (C23_parsed_items_unreported); every probe body that add_opcode_injections reports (functions without special instrumentation) occurs verbatim in the emitted code "
                   "(C23_probe_ids), and every record of a function with special instrumentation is exactly one (instruction, mode) list of the flags before the lowering, re-mapped, with its own tag "
                   "(C23_special_probes_reported_as_injected). The whole property (one record per tagged added item / probe with tag and content, none for "
                   "parsed or deleted items, probe records name function / instruction / mode and carry bodies in the index space of the encoding) is decided per history in Coq on the "
                   "real report and the real encoding. No known class is left: D22 (special-mode probes reported through the lists they were lowered to; C23_repaired_D22_*), D205, D204 and the index-space defect D06 are repaired (fix: commits). A tagged probe whose code the encoder drops need not be reported.",
        level_note="Trusted: Coq kernel + vm_compute; the harness (generator, conversion of Injection values to tokens, replay of the history on a second copy for the encoding, wasmparser decoding). "
                   "Modelled, not verified: the pull_side_effects branches, tag handling of the addition API, add_injections. Reading of the text (stated in CheckSideFx.v): an item 'carries a tag' "
                   "when a non-empty tag was given; a record for an added item / probe without one is tolerated only with the empty tag; index-valued fields of addition records "
                   "(Export.index, Func.id / Func.body, Global.id, Memory.id, ActiveData.memory_index - all in the API's id space) are compared with the mirror model but not judged.",
        technique="Coq theorems over the mirror model (list induction, history invariant, emission lemma) + executable specification evaluated in Coq on the real report and encoding + refutation witnesses",
        design_ref="5/C23", trusted_base=SFX_TB,
        modelled="pull_side_effects branches of encode_internal, tags of the addition API, probe records from the resolved instrumentation flags",
        assumptions=["histories in which an API call panics, or whose report / encoding panics (a reference to a deleted entity), or that use an unknown / dead handle are outside the domain",
                     "conversions (local<->import) and deletions of parsed entities or of added function imports are not part of the generated histories",
                     "a failure is excused only if every failing requirement is explained by a known class present in the input and the report equals the mirror model's prediction"],
    ),
}
