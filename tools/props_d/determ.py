"""determinism engine: C04 (encoding is deterministic) -- see coq/Props/C04.v"""
DET_TB = ["coq/Model/HashOrder.v (+ Model/Lowering.v, Model/Types.v, Model/Reindex.v it builds on): hand-written models of the hash maps of the "
          "encode path with the iteration order as an explicit parameter",
          "coq/Model/HashIterSites.v: hand-written status (OrderFree why / OrderDependent class / OffPath why; no OrderDependent site since the repair of D11) of every generated iteration site; "
          "the reasons that do not name a theorem are arguments by reading",
          "translator/src/hashiter.rs: the syntactic (taint) over-approximation of 'expression of a HashMap / HashSet type' and the list of files "
          "taken to be the encode path (src/ir/module/*.rs, src/ir/function.rs, src/ir/types.rs, src/ir/wrappers.rs, src/ir/helpers.rs)",
          "std's RandomState really gives every process independent hash seeds (the k child processes are the only source of order variation "
          "in the runs); two 64-bit hashes of the bytes stand for the bytes"]

PROPS = {
    "C04": dict(
        engine="determ",
        gen=["GenHashIter"],
        check_targets=["Check/CheckDeterm.vo"],
        proof_targets=["Props/C04.vo"],
        theorems=[("C04", "C04_ron_modes_commute"), ("C04", "C04_ron_entries_permutation"), ("C04", "C04_ron_any_order"),
                  ("C04", "C04_roe_single_key"), ("C04", "C04_mapping_lookup_order_free"), ("C04", "C04_sort_ids_canonical"),
                  ("C04", "C04_types_map_order"), ("C04", "C04_partial_types"), ("C04", "C04_types_map_order_refuted"),
                  ("C04", "C04_inventory"), ("C04", "C04_outside_D11_at_most_once"), ("C04", "C04_checker_sound")],
        quick=dict(n=300), thorough=dict(n=5000), per_shard=1250,
        # the same flags in both tiers (./check has no per-tier flags): the harness takes k = 16 when n >= 5000
        harness_flags=["--k", "4", "--k-thorough", "16", "--thorough-n", "5000", "--batch", "25"],
        rule="scenarios derived from (seed, idx) alone and re-executed in k separate child processes (k = 4 quick, 16 thorough; 25 scenarios per "
             "child; fresh RandomState seeds per process): base module with 1-5 function types (structurally equal copies planted in ~50%), imports "
             "of all five kinds, 1-4 local functions, globals with const / global.get / ref.func initialisers, memories, table, exports, start, "
             "element and data segments; then (30%) an instrumentation plan over all seven modes through all four API paths, biased so that "
             "block-exit and semantic-after probes meet on one block and several flagged branch probes resolve on one `end`, with function "
             "entry / exit probes; (25%) an edit history (add / delete / convert in the function, global and memory spaces, iterator add_global, "
             "export add / delete, add_data, then injected references); (30%) 1-4 type additions (add_func_type whose id is then used by "
             "add_import_func or as a block type, FunctionBuilder::finish_module) asking for fresh types, base types and planted duplicates; "
             "(15%) all three; one third of the scenarios encode twice and hash both outputs; non-trivial = at least one library call "
             "between parse and encode; distinct by hash of the case term",
        level_text="Coq proofs, for all inputs and ALL iteration orders: the inner map of resolve_on_end (keys Before / After) resolves to the same "
                   "flags in any order (permutation theorem over distinct modes; Lowering.resolve_pend2 is what every order computes); "
                   "the inner map of every resolve_on_else_or_end entry (keyed by block id like resolve_on_end) has the single key Before; the id maps answer lookups independently of their arrangement; ModuleTypes::new "
                   "collects the keys of the HashMap of parsed types, sorts them and fills the dedup map in ascending id order: every visiting "
                   "order sorts to the same list, so the dedup map, every returned id and every sequence of additions are the same under any two "
                   "orders -- unconditionally, also when the input has structurally equal types (D11, repaired; the old witness is kept with what "
                   "the repaired code does on it). A vm_compute inventory theorem over Gen/GenHashIter.v, regenerated from /repo/src on every "
                   "run: the classified iterations / hash-typed declarations are exactly the generated ones, none is order-dependent, and there "
                   "is no clock, thread, environment, RandomState or pointer-cast use. The prediction 'deterministic' is compared in Coq with "
                   "k-process runs of the real encoder; any nondeterministic case is a violation.",
        level_note="There is no byte-level model of the encoder: the theorems cover each hash-order dependent step separately and the inventory "
                   "theorem says there is no other one in the listed files; that the steps compose is checked by the k-process runs only. Not "
                   "covered: nondeterminism from outside those files (wasm-encoder, wasmparser, std), component encoding (src/ir/component.rs has "
                   "no HashMap), debug builds (the harness builds in release mode), the public accessor ModuleTypes::iter (hash order is handed "
                   "to the caller), and the flag field current_mode, whose final value depends on the visiting order but is not read by the "
                   "encoder. Trusted: Coq kernel + vm_compute; the harness (generator, process spawning, hashing); the translator's taint "
                   "over-approximation; the one-line OrderFree / OffPath reasons that are arguments by reading; that sampled agreement extends "
                   "to unsampled inputs.",
        design_ref="5/C04",
        technique="Coq proofs over hand-written order-parametrised models + generated HashMap-iteration inventory (syn) + k-process differential runs evaluated in Coq",
        trusted_base=DET_TB,
        modelled="resolve_bodies / the resolve_on_end and resolve_on_else_or_end loops of resolve_special_instrumentation, get_mapping_generic lookups, "
                 "ModuleTypes::new (keys, sort, ascending insertion) / add_type (through Model/Types.v)",
        assumptions=["a HashMap iteration visits every key exactly once; two iterations of maps with the same keys may visit them in any two orders",
                     "the keys of the HashMap of parsed types are 0 .. n-1 (both insertion sites use key = len); sort_unstable on distinct keys is modelled by insertion sort",
                     "structural equality of function types over i32/i64/f32/f64 is what the harness' type tokens compare (what Types' Hash / PartialEq compare, tag excluded)",
                     "two encodings are taken to be equal when their two 64-bit hashes and their status (encoded / panicked at which stage) are equal",
                     "a child process that dies without reporting puts the case outside the domain (none observed); a spawn failure fails the run"],
    ),
}
