"""locals engine: C14"""
PROPS = {
    "C14": dict(
        engine="locals",
        check_targets=["Check/CheckLocals.vo"],
        proof_targets=["Props/C14.vo"],
        theorems=[("C14", "C14_add_local_index"), ("C14", "C14_add_local_expand"), ("C14", "C14_num_locals_invariant"),
                  ("C14", "C14_sequences"), ("C14", "C14_model_meets_spec"), ("C14", "C14_checker_sound")],
        quick=dict(n=3000), thorough=dict(n=60000), per_shard=500,
        rule="random function (0-3 parameters and 0-4 declared local groups, counts 0-3, over 16 value types: i32 i64 f32 f64 v128 "
             "funcref externref + non-null/GC abstract reference types) in a random module (0-2 imported, 1-3 local functions), 30% "
             "inside a component of 1-2 modules, 30% a function under construction in a FunctionBuilder (finish_module / "
             "finish_component, then further additions on the finished function); 1-8 additions, each through a random one of "
             "FunctionBuilder::add_local, FunctionModifier::add_local, FunctionModifier::add_locals, ModuleIterator::add_local, "
             "ComponentIterator::add_local, LocalFunction::add_local; non-trivial = at least one addition; distinct by hash of the case term",
        level_text="Proof (Coq, all functions and all addition sequences, no size bound) that add_local returns nparams + declared locals, "
                   "that the expanded groups afterwards are the old ones ++ [requested type], that num_locals = number of declared locals is an "
                   "invariant of parse and every addition, lifted to arbitrary sequences by fold_left; the model is tied to /repo's working tree by "
                   "differential evaluation inside Coq (model =? observed, and an independent index-arithmetic specification =? observed) on "
                   "generated cases through every local-adding API path.",
        level_note="Trusted: Coq kernel + vm_compute; the harness (generator, wasmparser decoding of the locals and the function type, case printer); "
                   "that the sampled correspondence extends to unsampled inputs. Modelled, not verified: module_functions.rs add_local/add_locals, "
                   "function.rs FunctionBuilder/FunctionModifier::add_local, module_iterator.rs / component_iterator.rs add_local, parse of the "
                   "locals (mod.rs:321-331), emission of the groups (mod.rs:1575-1579). Value types are opaque tokens: the DataType <-> ValType "
                   "conversions are exercised by the run (16 types) but not modelled.",
        technique="Coq proof over a hand-written model + in-Coq differential correspondence against the real encoder",
        design_ref="5/C14",
        trusted_base=["coq/Model/Lowering.v (add_local, bump_last), coq/Model/Locals.v, coq/Check/CheckLocals.v: hand-written mirror of add_local, "
                      "the parse of declared locals and the API paths (tied to /repo by the correspondence run)"],
        modelled="add_local / add_locals, the six public paths that reach it, Body.locals / num_locals at parse and in a builder, emission of the local groups",
        assumptions=["nparams + declared locals + additions < 2^32 (the implementation's u32 counters do not wrap); part of the domain predicate",
                     "value types exn/cont and shared reference types are not generated (their lossy DataType round trip is finding D10 of C02)"],
    ),
}
