#!/bin/bash
# usage: tools/recheck_all_seeds.sh [name-prefix]   -- re-applies every stored seeded change to the CURRENT /repo HEAD and
# re-runs the check of the property it breaks (plus every check that detected it before); results go into each
# seeded/<name>/meta.json ("checks_run_against_it") and a summary to stdout.  A change that no longer applies is reported.
cd /verif
for d in seeded/${1:-}*/; do
  name=$(basename $d)
  [ "$name" = "_obsolete" ] && continue
  [ -f $d/patch.diff ] || continue
  props=$(python3 - "$d" <<'PY'
import json,sys
m=json.load(open(sys.argv[1]+"/meta.json"))
ps=[m.get("breaks_property")]
for p,l in m.get("checks_run_against_it",{}).items():
    if "VIOLATION" in l and p not in ps: ps.append(p)
print(" ".join(p for p in ps if p))
PY
)
  wt=/tmp/mut/chk_$name
  git -C /repo worktree add -q --detach $wt HEAD || continue
  if git -C $wt apply --check /verif/$d/patch.diff 2>/dev/null; then
    git -C /repo worktree remove --force $wt
    out=$(tools/recheck_seed.sh $name $props 2>&1 | grep "^check" | sed 's/replay=[^ ]*//' | cut -c1-160 | tr '\n' ';')
    echo "$name [$props]: $out"
  else
    git -C /repo worktree remove --force $wt
    echo "$name: DOES NOT APPLY to $(git -C /repo log --format=%h -1)"
  fi
done
