"""Per-property configuration of ./check.  Each file tools/props_d/*.py defines a dict PROPS
(property id -> spec); this module merges them.  MANIFEST.json is generated from the merged table by
tools/mkmanifest.py.  See docs/ENGINE_GUIDE.md for the meaning of the keys."""
import glob, importlib.util, os

PROPS = {}
for _f in sorted(glob.glob(os.path.join(os.path.dirname(os.path.abspath(__file__)), "props_d", "*.py"))):
    _spec = importlib.util.spec_from_file_location("props_d_" + os.path.basename(_f)[:-3], _f)
    _m = importlib.util.module_from_spec(_spec)
    _spec.loader.exec_module(_m)
    for _k, _v in _m.PROPS.items():
        assert _k not in PROPS, "duplicate property " + _k
        PROPS[_k] = _v
