// GenRefers: wasmparser operator table + wirm's refers_to_* / update_*_instr tables -> Coq.
use proc_macro2::{TokenStream, TokenTree};
use std::collections::BTreeMap;
use std::fmt::Write as _;
use syn::visit::Visit;

#[derive(Debug, Clone)]
struct OpInfo { name: String, fields: Vec<(String, String)>, visit: String, group: String }

fn parse_optable(src: &str) -> Vec<OpInfo> {
    // the macro body is regular: `Name { f: T, ... } => visit_name (annotation)` inside `@group { ... }`
    let start = src.find("macro_rules! _for_each_operator_group").expect("macro");
    let end = src[start..].find("macro_rules! _for_each_operator_delegate").map(|e| start + e).unwrap_or(src.len());
    let body = &src[start..end];
    let mut out = vec![]; let mut group = String::new();
    for line in body.lines() {
        let l = line.trim();
        if l.starts_with('@') && l.ends_with('{') { group = l[1..l.len() - 1].trim().to_string(); continue; }
        if let Some(pos) = l.find("=> visit_") {
            let lhs = l[..pos].trim(); let rhs = &l[pos + 3..];
            let visit = rhs.split_whitespace().next().unwrap().to_string();
            let (name, fields) = if let Some(b) = lhs.find('{') {
                let name = lhs[..b].trim().to_string();
                let inner = &lhs[b + 1..lhs.rfind('}').unwrap()];
                let fields = inner.split(',').filter(|s| !s.trim().is_empty()).map(|f| { let mut it = f.splitn(2, ':'); (it.next().unwrap().trim().to_string(), it.next().unwrap().trim().to_string()) }).collect();
                (name, fields)
            } else { (lhs.to_string(), vec![]) };
            if name.chars().next().map(|c| c.is_uppercase()).unwrap_or(false) { out.push(OpInfo { name, fields, visit, group: group.clone() }); }
        }
    }
    out
}

// collect `Operator::X` names (and, per arm, the bound fields) from a function body
struct FnFinder<'a> { want: &'a str, found: Option<syn::ItemFn> }
impl<'ast, 'a> Visit<'ast> for FnFinder<'a> {
    fn visit_item_fn(&mut self, f: &'ast syn::ItemFn) { if f.sig.ident == self.want { self.found = Some(f.clone()); } syn::visit::visit_item_fn(self, f); }
}
fn operator_names(ts: TokenStream, out: &mut Vec<String>) {
    let toks: Vec<TokenTree> = ts.into_iter().collect();
    let mut i = 0;
    while i < toks.len() {
        match &toks[i] {
            TokenTree::Ident(id) if id == "Operator" => {
                if let (Some(TokenTree::Punct(a)), Some(TokenTree::Punct(b)), Some(TokenTree::Ident(n))) = (toks.get(i + 1), toks.get(i + 2), toks.get(i + 3)) {
                    if a.as_char() == ':' && b.as_char() == ':' { out.push(n.to_string()); i += 3; }
                }
            }
            TokenTree::Group(g) => operator_names(g.stream(), out),
            _ => {}
        }
        i += 1;
    }
}
fn matches_list(file: &syn::File, fname: &str) -> Vec<String> {
    let mut ff = FnFinder { want: fname, found: None }; ff.visit_file(file);
    let f = ff.found.unwrap_or_else(|| crate::shape_changed!("fn {fname} not found"));
    // expected shape: a single `matches!(op, ...)` expression
    let mut names = vec![];
    match f.block.stmts.as_slice() {
        [syn::Stmt::Macro(m)] if m.mac.path.is_ident("matches") => operator_names(m.mac.tokens.clone(), &mut names),
        [syn::Stmt::Expr(syn::Expr::Macro(m), None)] if m.mac.path.is_ident("matches") => operator_names(m.mac.tokens.clone(), &mut names),
        _ => crate::shape_changed!("{fname} is not a single matches!()"),
    }
    names
}
// update_*_instr: for every match arm, the operator names of its pattern (arms that panic are skipped)
fn update_arms(file: &syn::File, fname: &str) -> Vec<(Vec<String>, String)> {
    let mut ff = FnFinder { want: fname, found: None }; ff.visit_file(file);
    let f = ff.found.unwrap_or_else(|| crate::shape_changed!("fn {fname} not found"));
    let m = match f.block.stmts.as_slice() { [syn::Stmt::Expr(syn::Expr::Match(m), _)] => m.clone(), _ => crate::shape_changed!("{fname} is not a single match") };
    let mut out = vec![];
    for arm in &m.arms {
        let mut names = vec![]; operator_names(quote::ToTokens::to_token_stream(&arm.pat), &mut names);
        if names.is_empty() { continue; } // the `_ => panic!` arm
        let mut fields = vec![];
        // which fields are bound in the pattern (memarg / mem / src_mem / dst_mem / function_index / global_index)
        let pat_s = quote::ToTokens::to_token_stream(&arm.pat).to_string();
        for fl in ["memarg", "mem", "src_mem", "dst_mem", "function_index", "global_index"] { if pat_s.split(|c: char| !c.is_alphanumeric() && c != '_').any(|w| w == fl) { fields.push(fl); } }
        out.push((names, fields.join("+")));
    }
    out
}

pub fn generate(repo: &str, out: &str) {
    let wp = std::fs::read_to_string(crate::wasmparser_lib_rs(repo)).expect("wasmparser lib.rs");
    let wrappers = std::fs::read_to_string(format!("{repo}/src/ir/wrappers.rs")).expect("wrappers.rs");
    let ops = parse_optable(&wp);
    let code: BTreeMap<String, usize> = ops.iter().enumerate().map(|(i, o)| (o.name.clone(), i)).collect();
    let file = syn::parse_file(&wrappers).expect("parse wrappers.rs");
    let mut s = String::new();
    writeln!(s, "(* GENERATED by xlate from wasmparser/src/lib.rs and src/ir/wrappers.rs -- do not edit *)\nFrom Coq Require Import List NArith Bool.\nImport ListNotations.\nOpen Scope N_scope.").unwrap();
    writeln!(s, "Definition n_ops : N := {}.", ops.len()).unwrap();
    // index spaces by field-name convention
    let has = |o: &OpInfo, f: &str| o.fields.iter().any(|(n, t)| n == f && (f != "memarg" || t.contains("MemArg")));
    let list = |pred: &dyn Fn(&OpInfo) -> bool| ops.iter().enumerate().filter(|(_, o)| pred(o)).map(|(i, _)| i.to_string()).collect::<Vec<_>>().join("; ");
    writeln!(s, "Definition ops_with_func_index : list N := [{}].", list(&|o| has(o, "function_index"))).unwrap();
    writeln!(s, "Definition ops_with_global_index : list N := [{}].", list(&|o| has(o, "global_index"))).unwrap();
    writeln!(s, "Definition ops_with_memory_index : list N := [{}].", list(&|o| has(o, "memarg") || has(o, "mem") || has(o, "src_mem") || has(o, "dst_mem"))).unwrap();
    for (coqname, fname) in [("refers_to_func", "refers_to_func"), ("refers_to_global", "refers_to_global"), ("refers_to_memory", "refers_to_memory")] {
        let names = matches_list(&file, fname);
        let codes: Vec<String> = names.iter().map(|n| code.get(n).unwrap_or_else(|| crate::shape_changed!("unknown operator {n}")).to_string()).collect();
        writeln!(s, "Definition {coqname}_list : list N := [{}].", codes.join("; ")).unwrap();
    }
    for (coqname, fname) in [("update_fn", "update_fn_instr"), ("update_global", "update_global_instr"), ("update_memory", "update_memory_instr")] {
        let arms = update_arms(&file, fname);
        let mut all = vec![];
        for (names, fields) in &arms { for n in names { all.push(format!("({}, \"{}\")", code[n], fields)); } }
        let codes: Vec<String> = arms.iter().flat_map(|(names, _)| names.iter().map(|n| code[n].to_string())).collect();
        writeln!(s, "Definition {coqname}_list : list N := [{}].", codes.join("; ")).unwrap();
        writeln!(s, "(* fields rewritten per arm: {} *)", arms.iter().map(|(n, f)| format!("{}x{}", n.len(), f)).collect::<Vec<_>>().join(", ")).unwrap();
        let _ = all;
    }
    // names for reporting (as a comment table)
    writeln!(s, "(* code -> operator name / mnemonic / group").unwrap();
    for (i, o) in ops.iter().enumerate() { writeln!(s, "{} {} {} {}", i, o.name, o.visit, o.group).unwrap(); }
    writeln!(s, "*)").unwrap();
    std::fs::write(out, s).unwrap();
    eprintln!("ops={} ", ops.len());
}
