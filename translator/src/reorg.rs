// GenReorg: translates the bodies of `Module::reorganise_generic` and `Module::get_mapping_generic`
// (src/ir/module/mod.rs) -- the heart of the re-indexing of C05-C12 -- into Gallina, statement by statement.
//
//   reorganise_generic:   let mut num_imported = orig_num_imported; let mut num_deleted = 0;
//                         for (idx, val) in items_read_only.enumerate() { <if / else-if tree> }
//     becomes  gen_rstep (orig idx : nat) (val : item) (st : list item * nat * nat) : list item * nat * nat
//     (state = (items, num_imported, num_deleted)) in state-passing style; the statement language is
//       items.remove(e);            -> items := remove_at e items
//       let x = items.remove(e);    -> match nth_error items e with Some x => items := remove_at e items; .. | None => st end
//                                       (Vec::remove out of range panics; the hand-written model returns the state
//                                        unchanged there and Proofs/Reorg.v shows the index is always in range)
//       items.push(x);              -> items := items ++ [x]
//       items.insert(e, x);         -> items := insert_at e x items
//       v += 1; / v -= 1;           -> v := v + 1 / v - 1          (u32 / usize as nat: no underflow, see Reorg.v)
//     conditions: idx < orig_num_imported as usize, val.is_deleted(), val.is_local(), val.is_import()
//     expressions: variables, integer literals, a - b, a + b, casts dropped, parentheses.
//   get_mapping_generic:  for (new_id, item) in slice.enumerate() { let old_id = item.get_id(); mapping.insert(old_id, new_id as u32); }
//     becomes  gen_mapping_step (new_id : N) (item : item) (mapping : list (N * N)) := hm_insert (it_id item) new_id mapping.
//
// Anything else is a "shape changed" exit.  Proofs/GenReorgProofs.v proves gen_rstep = Reindex.rstep and
// gen_mapping_step = the step of Reindex.mapping_from for ALL arguments, so every theorem about the hand-written
// model is a theorem about the translated code.
use quote::ToTokens;
use std::fmt::Write as _;

fn toks<T: ToTokens>(t: &T) -> String { t.to_token_stream().to_string() }

fn find_fn<'a>(file: &'a syn::File, name: &str) -> &'a syn::ImplItemFn {
    for it in &file.items {
        if let syn::Item::Impl(im) = it {
            for ii in &im.items { if let syn::ImplItem::Fn(f) = ii { if f.sig.ident == name { return f; } } }
        }
    }
    crate::shape_changed!("fn {name} not found in src/ir/module/mod.rs")
}

// nat-valued expression over idx / num_imported / num_deleted / orig_num_imported
fn expr(e: &syn::Expr) -> String {
    match e {
        syn::Expr::Paren(p) => expr(&p.expr),
        syn::Expr::Cast(c) => { let t = toks(&c.ty); if t == "u32" || t == "usize" { expr(&c.expr) } else { crate::shape_changed!("cast to {t}") } }
        syn::Expr::Path(p) => {
            let n = toks(p);
            match n.as_str() { "idx" | "num_imported" | "num_deleted" => n, "orig_num_imported" => "orig".into(), _ => crate::shape_changed!("variable {n} in an index expression") }
        }
        syn::Expr::Lit(l) => match &l.lit { syn::Lit::Int(i) => i.base10_digits().to_string(), _ => crate::shape_changed!("literal {}", toks(l)) },
        syn::Expr::Binary(b) => {
            let op = match b.op { syn::BinOp::Sub(_) => "-", syn::BinOp::Add(_) => "+", _ => crate::shape_changed!("operator in {}", toks(b)) };
            format!("({} {} {})", expr(&b.left), op, expr(&b.right))
        }
        other => crate::shape_changed!("index expression {}", toks(other)),
    }
}

fn cond(e: &syn::Expr) -> String {
    match e {
        syn::Expr::Paren(p) => cond(&p.expr),
        syn::Expr::Binary(b) if matches!(b.op, syn::BinOp::Lt(_)) => format!("({} <? {})", expr(&b.left), expr(&b.right)),
        syn::Expr::MethodCall(m) if toks(&m.receiver) == "val" && m.args.is_empty() => match m.method.to_string().as_str() {
            "is_deleted" => "it_del val".into(), "is_local" => "is_local val".into(), "is_import" => "is_import val".into(),
            other => crate::shape_changed!("condition val.{other}()"),
        },
        other => crate::shape_changed!("condition {}", toks(other)),
    }
}

const RET: &str = "(items, num_imported, num_deleted)";

// translate a statement list; `k` is what follows (already translated)
fn stmts(ss: &[syn::Stmt], ind: usize) -> String {
    let pad = " ".repeat(ind);
    let Some((first, rest)) = ss.split_first() else { return format!("{pad}{RET}") };
    match first {
        syn::Stmt::Local(l) => {
            // let x = items.remove(e);
            let name = match &l.pat { syn::Pat::Ident(i) if i.by_ref.is_none() && i.mutability.is_none() => i.ident.to_string(), _ => crate::shape_changed!("let pattern {}", toks(&l.pat)) };
            let init = match &l.init { Some(i) if i.diverge.is_none() => &*i.expr, _ => crate::shape_changed!("let without initialiser") };
            match init {
                syn::Expr::MethodCall(m) if toks(&m.receiver) == "items" && m.method == "remove" && m.args.len() == 1 => {
                    let e = expr(&m.args[0]);
                    format!("{pad}match nth_error items {e} with\n{pad}| Some {name} =>\n{pad}    let items := remove_at {e} items in\n{}\n{pad}| None => st\n{pad}end", stmts(rest, ind + 4))
                }
                _ => crate::shape_changed!("let {name} = {}", toks(init)),
            }
        }
        syn::Stmt::Expr(e, _) => match e {
            syn::Expr::MethodCall(m) if toks(&m.receiver) == "items" => {
                let args: Vec<&syn::Expr> = m.args.iter().collect();
                let upd = match (m.method.to_string().as_str(), args.as_slice()) {
                    ("remove", [a]) => format!("remove_at {} items", expr(a)),
                    ("push", [a]) => format!("items ++ [{}]", toks(a)),
                    ("insert", [a, b]) => format!("insert_at {} {} items", expr(a), toks(b)),
                    _ => crate::shape_changed!("call {}", toks(m)),
                };
                format!("{pad}let items := {upd} in\n{}", stmts(rest, ind))
            }
            syn::Expr::Binary(b) if matches!(b.op, syn::BinOp::AddAssign(_) | syn::BinOp::SubAssign(_)) => {
                let v = toks(&b.left);
                if v != "num_imported" && v != "num_deleted" { crate::shape_changed!("assignment to {v}"); }
                let op = if matches!(b.op, syn::BinOp::AddAssign(_)) { "+" } else { "-" };
                format!("{pad}let {v} := {v} {op} {} in\n{}", expr(&b.right), stmts(rest, ind))
            }
            syn::Expr::If(i) => {
                if !rest.is_empty() { crate::shape_changed!("statements after an if / else chain"); }
                if_chain(i, ind)
            }
            other => crate::shape_changed!("statement {}", toks(other)),
        },
        other => crate::shape_changed!("statement {}", toks(other)),
    }
}

fn if_chain(i: &syn::ExprIf, ind: usize) -> String {
    let pad = " ".repeat(ind);
    let then = stmts(&i.then_branch.stmts, ind + 2);
    let els = match &i.else_branch {
        None => format!("{pad}  {RET}"),
        Some((_, e)) => match &**e {
            syn::Expr::If(j) => if_chain(j, ind + 2),
            syn::Expr::Block(b) => stmts(&b.block.stmts, ind + 2),
            other => crate::shape_changed!("else branch {}", toks(other)),
        },
    };
    format!("{pad}if {} then\n{then}\n{pad}else\n{els}", cond(&i.cond))
}

pub fn generate(repo: &str, out: &str) {
    let path = format!("{repo}/src/ir/module/mod.rs");
    let src = std::fs::read_to_string(&path).unwrap_or_else(|_| crate::shape_changed!("{path} not readable"));
    let file = syn::parse_file(&src).unwrap_or_else(|e| crate::shape_changed!("{path} does not parse: {e}"));

    // ---- reorganise_generic
    let f = find_fn(&file, "reorganise_generic");
    let args: Vec<String> = f.sig.inputs.iter().map(|a| match a { syn::FnArg::Typed(t) => toks(&t.pat), other => toks(other) }).collect();
    if args != ["orig_num_imported", "items", "items_read_only"] { crate::shape_changed!("reorganise_generic arguments {:?}", args); }
    let body = &f.block.stmts;
    if body.len() != 3 { crate::shape_changed!("reorganise_generic has {} top-level statements", body.len()); }
    let is_let = |s: &syn::Stmt, want: &str| -> bool { matches!(s, syn::Stmt::Local(l) if { let mut t = toks(l); if t.ends_with(';') { t.pop(); } t.trim() == want }) };
    if !is_let(&body[0], "let mut num_imported = orig_num_imported") { crate::shape_changed!("first statement: {}", toks(&body[0])); }
    if !is_let(&body[1], "let mut num_deleted = 0") { crate::shape_changed!("second statement: {}", toks(&body[1])); }
    let fl = match &body[2] { syn::Stmt::Expr(syn::Expr::ForLoop(fl), _) => fl, other => crate::shape_changed!("third statement is not a for loop: {}", toks(other)) };
    if toks(&fl.pat) != "(idx , val)" || toks(&fl.expr) != "items_read_only . enumerate ()" { crate::shape_changed!("loop header: for {} in {}", toks(&fl.pat), toks(&fl.expr)); }
    let rstep = stmts(&fl.body.stmts, 2);

    // ---- get_mapping_generic
    let g = find_fn(&file, "get_mapping_generic");
    let gb: Vec<String> = g.block.stmts.iter().map(|s| { let mut t = toks(s); if t.ends_with(';') { t.pop(); } t.trim().to_string() }).collect();
    if gb.len() != 3 || gb[0] != "let mut mapping = HashMap :: new ()" || gb[2] != "mapping" { crate::shape_changed!("get_mapping_generic: {:?}", gb); }
    let gl = match &g.block.stmts[1] { syn::Stmt::Expr(syn::Expr::ForLoop(fl), _) => fl, other => crate::shape_changed!("get_mapping_generic: not a for loop: {}", toks(other)) };
    if toks(&gl.pat) != "(new_id , item)" || toks(&gl.expr) != "slice . enumerate ()" { crate::shape_changed!("get_mapping_generic loop header"); }
    let lb: Vec<String> = gl.body.stmts.iter().map(|s| { let mut t = toks(s); if t.ends_with(';') { t.pop(); } t.trim().to_string() }).collect();
    if lb != ["let old_id = item . get_id ()", "mapping . insert (old_id , new_id as u32)"] { crate::shape_changed!("get_mapping_generic loop body: {:?}", lb); }

    // ---- recalculate_ids: reorganise, then map, then assert the lengths agree
    let r = find_fn(&file, "recalculate_ids");
    let rb: Vec<String> = r.block.stmts.iter().map(|s| { let mut t = toks(s); if t.ends_with(';') { t.pop(); } t.trim().to_string() }).collect();
    let want = ["let items_read_only = items . get_into_iter ()",
                "Self :: reorganise_generic (orig_num_imported , items , items_read_only)",
                "let id_mapping = Self :: get_mapping_generic (items . iter ())",
                "assert_eq ! (items . len () , id_mapping . len ())",
                "id_mapping"];
    if rb != want { crate::shape_changed!("recalculate_ids: {:?}", rb); }

    let mut s = String::new();
    writeln!(s, "(* GENERATED by /verif/translator (GenReorg) from Module::reorganise_generic / get_mapping_generic / recalculate_ids").unwrap();
    writeln!(s, "   (src/ir/module/mod.rs).  Do not edit: regenerated on every check.  Proofs/GenReorgProofs.v proves these equal to the").unwrap();
    writeln!(s, "   hand-written Reindex.rstep / mapping_from for all arguments. *)").unwrap();
    writeln!(s, "From Coq Require Import List Arith NArith Bool.\nImport ListNotations.\nFrom Orca Require Import Reindex.\n").unwrap();
    writeln!(s, "Open Scope nat_scope.").unwrap();
    writeln!(s, "(* one iteration of `for (idx, val) in items_read_only.enumerate()`; st = (items, num_imported, num_deleted) *)").unwrap();
    writeln!(s, "Definition gen_rstep (orig idx : nat) (val : item) (st : list item * nat * nat) : list item * nat * nat :=").unwrap();
    writeln!(s, "  let '(items, num_imported, num_deleted) := st in\n{rstep}.\n").unwrap();
    writeln!(s, "(* let mut num_imported = orig_num_imported; let mut num_deleted = 0; *)").unwrap();
    writeln!(s, "Definition gen_rinit (orig : nat) (items : list item) : list item * nat * nat := (items, orig, 0).\nClose Scope nat_scope.\n").unwrap();
    writeln!(s, "(* HashMap::insert: the new entry replaces an entry with the same key *)").unwrap();
    writeln!(s, "Definition hm_insert (k v : N) (m : list (N * N)) : list (N * N) := (k, v) :: filter (fun kv => negb (N.eqb (fst kv) k)) m.").unwrap();
    writeln!(s, "(* one iteration of `for (new_id, item) in slice.enumerate()` *)").unwrap();
    writeln!(s, "Definition gen_mapping_step (new_id : N) (item : item) (mapping : list (N * N)) : list (N * N) :=").unwrap();
    writeln!(s, "  let old_id := it_id item in hm_insert old_id new_id mapping.\n").unwrap();
    writeln!(s, "(* recalculate_ids = reorganise_generic; get_mapping_generic; assert_eq!(items.len(), id_mapping.len()) *)").unwrap();
    writeln!(s, "Definition gen_recalculate_shape : bool := true.").unwrap();
    std::fs::write(out, s).expect("write");
}
