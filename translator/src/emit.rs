// GenEmit: the per-instruction emission of Module::encode_internal (src/ir/module/mod.rs, the loop
// `for (idx, Instruction { op, instr_flag: instrument }) in instructions.iter_mut().enumerate()` of the code section)
// and InstrumentationFlag::has_instr (src/ir/types.rs) -> Gallina.
//
// What one iteration appends to the function being encoded, as a list of operators:
//     encode(&op.clone(), ..)                          -> [op]
//     update_ids_and_encode(&mut before.instrs, ..)    -> f_before f          (after -> f_after f, alt -> the bound alternate)
//     if <cond> { A } else { B }                       -> if <cond> then A else B       (no else: [])
//     if let Some(alt) = alternate { A }               -> match f_alt f with Some alt => A | None => [] end
//     statements in sequence                           -> ++
// <cond> over at_end (= idx >= instr_len), alternate.is_none(), instrument.has_instr(), !, &&, ||.
// Statements without an effect on the emitted operators are skipped by name: fix_op_id_mapping (index rewriting is the
// subject of the re-indexing model), instrument.check_special_is_resolved() (logs only), the destructuring `let` of the
// flag, nested `fn` items.  Anything else is a "shape changed" exit.
// Proofs/GenEmitProofs.v proves the translation equal to Lowering.emit_from's step for all arguments.
use quote::ToTokens;
use std::fmt::Write as _;
use syn::visit::Visit;

fn toks<T: ToTokens>(t: &T) -> String { t.to_token_stream().to_string() }

struct LoopFinder { found: Vec<syn::ExprForLoop>, instr_len_ok: bool }
impl<'ast> Visit<'ast> for LoopFinder {
    fn visit_expr_for_loop(&mut self, f: &'ast syn::ExprForLoop) {
        if toks(&f.expr) == "instructions . iter_mut () . enumerate ()" { self.found.push(f.clone()); }
        syn::visit::visit_expr_for_loop(self, f);
    }
    fn visit_local(&mut self, l: &'ast syn::Local) {
        let mut t = toks(l); if t.ends_with(';') { t.pop(); }
        if t.trim() == "let instr_len = instructions . len () - 1" { self.instr_len_ok = true; }
        syn::visit::visit_local(self, l);
    }
}

fn cond(e: &syn::Expr) -> String {
    match e {
        syn::Expr::Paren(p) => cond(&p.expr),
        syn::Expr::Unary(u) if matches!(u.op, syn::UnOp::Not(_)) => format!("negb {}", cond(&u.expr)),
        syn::Expr::Binary(b) if matches!(b.op, syn::BinOp::And(_)) => format!("({} && {})", cond(&b.left), cond(&b.right)),
        syn::Expr::Binary(b) if matches!(b.op, syn::BinOp::Or(_)) => format!("({} || {})", cond(&b.left), cond(&b.right)),
        other => match toks(other).as_str() {
            "at_end" => "at_end".into(),
            "alternate . is_none ()" => "(is_none (f_alt f))".into(),
            "instrument . has_instr ()" => "(has_instr f)".into(),
            t => crate::shape_changed!("condition {t}"),
        },
    }
}

// a call that appends operators
fn call(e: &syn::Expr, alt_bound: Option<&str>) -> Option<String> {
    let c = match e { syn::Expr::Call(c) => c, _ => return None };
    let f = toks(&c.func);
    let a0 = c.args.first().map(toks).unwrap_or_default();
    match f.as_str() {
        "encode" => { if a0 != "& op . clone ()" { crate::shape_changed!("encode({a0}, ..)"); } Some("[op]".into()) }
        "update_ids_and_encode" => {
            let l = match a0.as_str() {
                "& mut before . instrs" => "f_before f".to_string(),
                "& mut after . instrs" => "f_after f".to_string(),
                other => match alt_bound { Some(v) if other == format!("& mut {v} . instrs") => v.to_string(), _ => crate::shape_changed!("update_ids_and_encode({other}, ..)") },
            };
            Some(l)
        }
        _ => None,
    }
}

fn block(stmts: &[syn::Stmt], alt_bound: Option<&str>, at_end_seen: &mut bool) -> String {
    let mut parts: Vec<String> = vec![];
    for s in stmts {
        match s {
            syn::Stmt::Item(syn::Item::Fn(_)) => {}                                  // nested helper fns
            syn::Stmt::Local(l) => {
                let mut t = toks(l); if t.ends_with(';') { t.pop(); }
                let t = t.trim().to_string();
                if t == "let at_end = idx >= instr_len" { *at_end_seen = true; }
                else if t.starts_with("let InstrumentationFlag {") && t.ends_with("= instrument") { /* destructuring of the flag */ }
                else { crate::shape_changed!("statement `{t}` in the emission loop"); }
            }
            syn::Stmt::Expr(e, _) => {
                let t = toks(e);
                if t.starts_with("fix_op_id_mapping (op ,") || t == "instrument . check_special_is_resolved ()" { continue; }
                if let Some(p) = call(e, alt_bound) { parts.push(p); continue; }
                match e {
                    syn::Expr::If(i) => parts.push(if_expr(i, alt_bound, at_end_seen)),
                    _ => crate::shape_changed!("statement `{t}` in the emission loop"),
                }
            }
            other => crate::shape_changed!("statement `{}` in the emission loop", toks(other)),
        }
    }
    if parts.is_empty() { "[]".into() } else { parts.iter().map(|p| format!("({p})")).collect::<Vec<_>>().join(" ++ ") }
}

fn if_expr(i: &syn::ExprIf, alt_bound: Option<&str>, at_end_seen: &mut bool) -> String {
    let els = match &i.else_branch {
        None => "[]".to_string(),
        Some((_, e)) => match &**e {
            syn::Expr::Block(b) => block(&b.block.stmts, alt_bound, at_end_seen),
            syn::Expr::If(j) => if_expr(j, alt_bound, at_end_seen),
            other => crate::shape_changed!("else branch {}", toks(other)),
        },
    };
    if let syn::Expr::Let(l) = &*i.cond {
        // if let Some(alt) = alternate { .. }
        let p = toks(&l.pat);
        let v = p.strip_prefix("Some (").and_then(|x| x.strip_suffix(")")).unwrap_or_else(|| crate::shape_changed!("if let {p}")).trim().to_string();
        if toks(&l.expr) != "alternate" { crate::shape_changed!("if let {p} = {}", toks(&l.expr)); }
        let then = block(&i.then_branch.stmts, Some(&v), at_end_seen);
        return format!("match f_alt f with Some {v} => {then} | None => {els} end");
    }
    let then = block(&i.then_branch.stmts, alt_bound, at_end_seen);
    format!("if {} then {then} else {els}", cond(&i.cond))
}

fn has_instr(repo: &str) -> String {
    let path = format!("{repo}/src/ir/types.rs");
    let src = std::fs::read_to_string(&path).unwrap_or_else(|_| crate::shape_changed!("{path} not readable"));
    let file = syn::parse_file(&src).unwrap_or_else(|e| crate::shape_changed!("{path} does not parse: {e}"));
    for it in &file.items {
        if let syn::Item::Impl(im) = it {
            let ty = match &*im.self_ty { syn::Type::Path(p) => p.path.segments.last().map(|s| s.ident.to_string()).unwrap_or_default(), _ => String::new() };
            if ty != "InstrumentationFlag" || im.trait_.is_some() { continue; }
            for ii in &im.items {
                if let syn::ImplItem::Fn(f) = ii {
                    if f.sig.ident != "has_instr" { continue; }
                    // let Self { .. } = self; <disjunction>
                    let e = match f.block.stmts.as_slice() {
                        [syn::Stmt::Local(l), syn::Stmt::Expr(e, None)] if toks(&l.pat).starts_with("Self {") => e,
                        _ => crate::shape_changed!("InstrumentationFlag::has_instr body"),
                    };
                    fn disj(e: &syn::Expr, out: &mut Vec<String>) {
                        match e {
                            syn::Expr::Binary(b) if matches!(b.op, syn::BinOp::Or(_)) => { disj(&b.left, out); disj(&b.right, out); }
                            syn::Expr::Paren(p) => disj(&p.expr, out),
                            other => {
                                let t = toks(other);
                                let fld = |n: &str| -> &'static str { match n { "before" => "f_before", "after" => "f_after", "alternate" => "f_alt", "semantic_after" => "f_sa", "block_entry" => "f_be", "block_exit" => "f_bx", "block_alt" => "f_balt", o => crate::shape_changed!("has_instr: field {o}") } };
                                if let Some(n) = t.strip_prefix("! ").and_then(|x| x.strip_suffix(" . instrs . is_empty ()")) { out.push(format!("negb (is_nil ({} f))", fld(n))); }
                                else if let Some(n) = t.strip_prefix("! ").and_then(|x| x.strip_suffix(" . is_none ()")) { out.push(format!("negb (is_none ({} f))", fld(n))); }
                                else { crate::shape_changed!("has_instr: disjunct {t}"); }
                            }
                        }
                    }
                    let mut ds = vec![]; disj(e, &mut ds);
                    return ds.join(" || ");
                }
            }
        }
    }
    crate::shape_changed!("InstrumentationFlag::has_instr not found")
}

pub fn generate(repo: &str, out: &str) {
    let path = format!("{repo}/src/ir/module/mod.rs");
    let src = std::fs::read_to_string(&path).unwrap_or_else(|_| crate::shape_changed!("{path} not readable"));
    let file = syn::parse_file(&src).unwrap_or_else(|e| crate::shape_changed!("{path} does not parse: {e}"));
    let mut lf = LoopFinder { found: vec![], instr_len_ok: false };
    lf.visit_file(&file);
    if lf.found.len() != 1 { crate::shape_changed!("{} loops over instructions.iter_mut().enumerate() in mod.rs", lf.found.len()); }
    if !lf.instr_len_ok { crate::shape_changed!("`let instr_len = instructions.len() - 1` not found"); }
    let fl = &lf.found[0];
    let pat = toks(&fl.pat);
    if pat != "(idx , Instruction { op , instr_flag : instrument , } ,)" && pat != "(idx , Instruction { op , instr_flag : instrument })" && pat != "(idx , Instruction { op , instr_flag : instrument , })" {
        crate::shape_changed!("loop pattern {pat}");
    }
    let mut at_end_seen = false;
    let body = block(&fl.body.stmts, None, &mut at_end_seen);
    if !at_end_seen { crate::shape_changed!("`let at_end = idx >= instr_len` not found in the loop"); }
    let hi = has_instr(repo);

    let mut s = String::new();
    writeln!(s, "(* GENERATED by /verif/translator (GenEmit) from the code-section loop of Module::encode_internal (src/ir/module/mod.rs)").unwrap();
    writeln!(s, "   and InstrumentationFlag::has_instr (src/ir/types.rs).  Do not edit: regenerated on every check. *)").unwrap();
    writeln!(s, "From Coq Require Import List Arith NArith ZArith Bool.\nImport ListNotations.\nFrom Orca Require Import Flat.\n").unwrap();
    writeln!(s, "Definition gen_has_instr (f : flags) : bool :=\n  {hi}.\n").unwrap();
    writeln!(s, "(* what one iteration appends; instr_len = instructions.len() - 1, at_end = idx >= instr_len *)").unwrap();
    writeln!(s, "Definition gen_emit_instr (instr_len idx : nat) (op : fop) (f : flags) : list fop :=\n  let at_end := (instr_len <=? idx)%nat in\n  {body}.").unwrap();
    std::fs::write(out, s).expect("write");
}
