// GenInventory: the syntactic inventory of potential panic sites on the parse path of /repo.
//
// Roots: `Module::parse` (src/ir/module/mod.rs) and `Component::parse` (src/ir/component.rs).  The set of
// functions considered is the closure of the roots under a *syntactic over-approximation* of the call relation
// inside <repo>/src (test modules excluded):
//   * `T::f(..)` / `Self::f(..)` / a path `T::f` used as a value  -> every fn `f` of every `impl .. T` (inherent
//     and trait impls alike, so `DataType::from` reaches all `From<_> for DataType`);
//   * `f(..)` / a one-segment path used as a call argument         -> every free fn `f`;
//   * `x.f(..)`                                                    -> every method `f` (with a receiver) of any impl
//     or trait in <repo>/src/ir/** (except function.rs, the builder API) and src/error.rs -- the receivers on the
//     parse path are IR types or wasmparser / std types, never iterators, builders or opcode traits;
//   * the arguments of function-like macros are parsed as comma-separated expressions when that is possible.
// Calls through operators and derived / implicit trait machinery (`?` conversions, Deref, Drop, Clone) are not followed.
//
// Inside every reachable function each of these is one *site*:
//   unwrap  : `.unwrap()`                      expect : `.expect(..)`
//   macro   : panic! todo! unreachable! unimplemented! assert! assert_eq! assert_ne! debug_assert*!
//   index   : `a[i]`                           slice  : `a[i..j]` (any range index)
//   arith   : binary + - * / % << and their compound assignments (unless both operands are literals)
// keyed by (file, function, kind, ordinal of that kind within the function, normalised token text) -- never by line.
// The hand-written coq/Model/PanicSites.v must list exactly these keys, each with a status.
use quote::ToTokens;
use std::collections::{BTreeMap, BTreeSet};
use std::fmt::Write as _;
use syn::visit::Visit;

#[derive(Clone)]
struct FnInfo {
    file: String,
    self_ty: Option<String>,
    trait_: Option<String>,
    name: String,
    has_receiver: bool,
    block: syn::Block,
}
impl FnInfo {
    fn display(&self) -> String {
        let base = match &self.self_ty { Some(t) => format!("{}::{}", t, self.name), None => self.name.clone() };
        match &self.trait_ { Some(t) => format!("{} [{}]", base, t), None => base }
    }
}

fn norm(ts: impl ToTokens) -> String {
    let s = ts.to_token_stream().to_string();
    let mut o = String::new();
    let mut prev_space = false;
    for c in s.chars() {
        if c.is_whitespace() { prev_space = true; continue; }
        // keep one blank only between two identifier characters
        if prev_space && o.chars().last().map_or(false, |p| (p.is_alphanumeric() || p == '_') && (c.is_alphanumeric() || c == '_')) { o.push(' '); }
        prev_space = false;
        o.push(c);
    }
    let o: String = o.chars().map(|c| if c == '"' { '\'' } else { c }).collect();
    let o = o.replace("(*", "( *").replace("*)", "* )"); // never look like a Coq comment delimiter
    if o.chars().count() > 90 { let t: String = o.chars().take(87).collect(); format!("{}...", t) } else { o }
}

fn type_name(t: &syn::Type) -> Option<String> {
    match t {
        syn::Type::Path(p) => p.path.segments.last().map(|s| s.ident.to_string()),
        syn::Type::Reference(r) => type_name(&r.elem),
        _ => None,
    }
}

fn is_test_attr(attrs: &[syn::Attribute]) -> bool {
    attrs.iter().any(|a| {
        let s = a.to_token_stream().to_string().replace(' ', "");
        s.contains("cfg(test)") || s == "#[test]"
    })
}

fn collect_items(items: &[syn::Item], file: &str, out: &mut Vec<FnInfo>) {
    for it in items {
        match it {
            syn::Item::Fn(f) => {
                if is_test_attr(&f.attrs) { continue; }
                out.push(FnInfo { file: file.into(), self_ty: None, trait_: None, name: f.sig.ident.to_string(), has_receiver: false, block: (*f.block).clone() });
            }
            syn::Item::Impl(im) => {
                if is_test_attr(&im.attrs) { continue; }
                let st = type_name(&im.self_ty);
                let tr = im.trait_.as_ref().map(|(_, p, _)| norm(p));
                for ii in &im.items {
                    if let syn::ImplItem::Fn(f) = ii {
                        if is_test_attr(&f.attrs) { continue; }
                        out.push(FnInfo { file: file.into(), self_ty: st.clone(), trait_: tr.clone(), name: f.sig.ident.to_string(), has_receiver: f.sig.receiver().is_some(), block: f.block.clone() });
                    }
                }
            }
            syn::Item::Trait(t) => {
                for ti in &t.items {
                    if let syn::TraitItem::Fn(f) = ti {
                        if let Some(b) = &f.default {
                            out.push(FnInfo { file: file.into(), self_ty: Some(t.ident.to_string()), trait_: None, name: f.sig.ident.to_string(), has_receiver: f.sig.receiver().is_some(), block: b.clone() });
                        }
                    }
                }
            }
            syn::Item::Mod(m) => {
                if is_test_attr(&m.attrs) { continue; }
                if let Some((_, items)) = &m.content { collect_items(items, file, out); }
            }
            _ => {}
        }
    }
}

fn walk_dir(dir: &std::path::Path, root: &std::path::Path, out: &mut Vec<FnInfo>) {
    let mut entries: Vec<_> = std::fs::read_dir(dir).unwrap_or_else(|_| crate::shape_changed!("cannot read {}", dir.display())).map(|e| e.unwrap().path()).collect();
    entries.sort();
    for p in entries {
        if p.is_dir() { walk_dir(&p, root, out); continue; }
        if p.extension().map_or(true, |e| e != "rs") { continue; }
        let rel = p.strip_prefix(root).unwrap().to_string_lossy().to_string();
        let base = p.file_name().unwrap().to_string_lossy().to_string();
        if base == "test.rs" || base == "tests.rs" || rel.contains("/tests/") { continue; }
        let src = std::fs::read_to_string(&p).unwrap();
        let file = syn::parse_file(&src).unwrap_or_else(|e| crate::shape_changed!("{} does not parse: {}", rel, e));
        collect_items(&file.items, &rel, out);
    }
}

// ---------------------------------------------------------------------------------------------
struct BodyScan {
    cur_self: Option<String>,
    calls_path: Vec<(Option<String>, String)>, // (type, fn) ; type None = free function
    calls_method: Vec<String>,
    sites: Vec<(String, String)>,              // (kind, text)
}
const PANIC_MACROS: [&str; 10] = ["panic", "todo", "unreachable", "unimplemented", "assert", "assert_eq", "assert_ne", "debug_assert", "debug_assert_eq", "debug_assert_ne"];

impl BodyScan {
    fn path_target(&mut self, p: &syn::Path, as_call: bool) {
        let segs: Vec<String> = p.segments.iter().map(|s| s.ident.to_string()).collect();
        if segs.len() >= 2 {
            let mut t = segs[segs.len() - 2].clone();
            if t == "Self" { if let Some(s) = &self.cur_self { t = s.clone(); } }
            self.calls_path.push((Some(t), segs[segs.len() - 1].clone()));
        } else if segs.len() == 1 && as_call {
            self.calls_path.push((None, segs[0].clone()));
        }
    }
    fn macro_tokens(&mut self, m: &syn::Macro) {
        let name = m.path.segments.last().map(|s| s.ident.to_string()).unwrap_or_default();
        if PANIC_MACROS.contains(&name.as_str()) {
            self.sites.push(("macro".into(), norm(m)));
        }
        use syn::parse::Parser;
        let parser = syn::punctuated::Punctuated::<syn::Expr, syn::Token![,]>::parse_terminated;
        if let Ok(exprs) = parser.parse2(m.tokens.clone()) {
            for e in exprs.iter() { self.visit_expr(e); }
        }
    }
}
fn is_lit(e: &syn::Expr) -> bool { matches!(e, syn::Expr::Lit(_)) }

impl<'ast> Visit<'ast> for BodyScan {
    fn visit_expr_call(&mut self, c: &'ast syn::ExprCall) {
        if let syn::Expr::Path(p) = &*c.func { self.path_target(&p.path, true); }
        syn::visit::visit_expr_call(self, c);
    }
    fn visit_expr_path(&mut self, p: &'ast syn::ExprPath) {
        // a path used as a value (e.g. `.map(Instruction::new)`): only qualified paths are followed here
        self.path_target(&p.path, false);
        syn::visit::visit_expr_path(self, p);
    }
    fn visit_expr_method_call(&mut self, m: &'ast syn::ExprMethodCall) {
        let name = m.method.to_string();
        if name == "unwrap" && m.args.is_empty() {
            self.sites.push(("unwrap".into(), norm(m)));
        } else if name == "expect" {
            self.sites.push(("expect".into(), norm(m)));
        }
        // a one-segment path passed as an argument may be a free function used as a value
        for a in m.args.iter() {
            if let syn::Expr::Path(p) = a { if p.path.segments.len() == 1 { self.calls_path.push((None, p.path.segments[0].ident.to_string())); } }
        }
        self.calls_method.push(name);
        syn::visit::visit_expr_method_call(self, m);
    }
    fn visit_expr_index(&mut self, i: &'ast syn::ExprIndex) {
        let kind = if matches!(&*i.index, syn::Expr::Range(_)) { "slice" } else { "index" };
        self.sites.push((kind.into(), norm(i)));
        syn::visit::visit_expr_index(self, i);
    }
    fn visit_expr_binary(&mut self, b: &'ast syn::ExprBinary) {
        use syn::BinOp::*;
        let arith = matches!(b.op, Add(_) | Sub(_) | Mul(_) | Div(_) | Rem(_) | Shl(_) | AddAssign(_) | SubAssign(_) | MulAssign(_) | DivAssign(_) | RemAssign(_) | ShlAssign(_));
        if arith && !(is_lit(&b.left) && is_lit(&b.right)) {
            self.sites.push(("arith".into(), norm(b)));
        }
        syn::visit::visit_expr_binary(self, b);
    }
    fn visit_macro(&mut self, m: &'ast syn::Macro) {
        self.macro_tokens(m);
    }
}

fn coq_str(s: &str) -> String {
    let mut o = String::from("\"");
    for c in s.chars() {
        if c == '"' { o.push_str("\"\""); } else if c.is_ascii() && !c.is_ascii_control() { o.push(c); } else { o.push('?'); }
    }
    o.push('"');
    o
}

pub fn generate(repo: &str, out: &str) {
    let root = std::path::Path::new(repo);
    let mut fns: Vec<FnInfo> = vec![];
    walk_dir(&root.join("src"), root, &mut fns);
    // index
    let mut by_type: BTreeMap<(String, String), Vec<usize>> = BTreeMap::new();
    let mut free: BTreeMap<String, Vec<usize>> = BTreeMap::new();
    let mut methods: BTreeMap<String, Vec<usize>> = BTreeMap::new();
    for (i, f) in fns.iter().enumerate() {
        match &f.self_ty {
            Some(t) => {
                by_type.entry((t.clone(), f.name.clone())).or_default().push(i);
                // method calls are resolved by name only: restrict the candidates to the IR (src/ir/**, src/error.rs),
                // where every receiver type of the parse path is defined (the other receivers are wasmparser / std types)
                if f.has_receiver && (f.file.starts_with("src/ir/") || f.file == "src/error.rs") && f.file != "src/ir/function.rs" {
                    methods.entry(f.name.clone()).or_default().push(i);
                }
            }
            None => free.entry(f.name.clone()).or_default().push(i),
        }
    }
    let roots: Vec<usize> = fns.iter().enumerate().filter(|(_, f)| {
        f.name == "parse" && ((f.file == "src/ir/module/mod.rs" && f.self_ty.as_deref() == Some("Module")) || (f.file == "src/ir/component.rs" && f.self_ty.as_deref() == Some("Component")))
    }).map(|(i, _)| i).collect();
    if roots.len() != 2 { crate::shape_changed!("expected Module::parse and Component::parse, found {} roots", roots.len()); }
    // closure
    let mut scans: BTreeMap<usize, BodyScan> = BTreeMap::new();
    let mut todo = roots.clone();
    let mut seen: BTreeSet<usize> = roots.iter().cloned().collect();
    while let Some(i) = todo.pop() {
        let f = &fns[i];
        let mut sc = BodyScan { cur_self: f.self_ty.clone(), calls_path: vec![], calls_method: vec![], sites: vec![] };
        sc.visit_block(&f.block);
        let mut targets: Vec<usize> = vec![];
        for (t, n) in &sc.calls_path {
            match t {
                Some(t) => if let Some(v) = by_type.get(&(t.clone(), n.clone())) { targets.extend(v.iter().cloned()); },
                None => if let Some(v) = free.get(n) { targets.extend(v.iter().cloned()); },
            }
        }
        for n in &sc.calls_method { if let Some(v) = methods.get(n) { targets.extend(v.iter().cloned()); } }
        for t in targets { if seen.insert(t) { todo.push(t); } }
        scans.insert(i, sc);
    }
    // output, sorted by (file, function display, kind, ordinal)
    let mut reach: Vec<usize> = seen.iter().cloned().collect();
    reach.sort_by_key(|i| (fns[*i].file.clone(), fns[*i].display()));
    let mut o = String::new();
    o.push_str("(* GENERATED by `xlate GenInventory` from <repo>/src -- do not edit.\n   The potential panic sites (unwrap / expect / panicking macros / index / slice / arithmetic) of every function\n   syntactically reachable from Module::parse and Component::parse; see translator/src/inventory.rs. *)\n");
    o.push_str("From Coq Require Import List NArith String.\nImport ListNotations.\nOpen Scope string_scope.\n");
    o.push_str("Record site := mkSite { s_file : string; s_fn : string; s_kind : string; s_ord : N; s_text : string }.\n");
    let mut nsites = 0;
    let mut body = String::new();
    let mut fn_lines = String::new();
    // two functions may share (file, display) (e.g. several `impl From<..>` with the same rendered trait): disambiguate by position
    let mut disp_count: BTreeMap<(String, String), u32> = BTreeMap::new();
    for i in &reach {
        let f = &fns[*i];
        let key = (f.file.clone(), f.display());
        let c = disp_count.entry(key).or_default();
        *c += 1;
        let disp = if *c > 1 { format!("{} #{}", f.display(), c) } else { f.display() };
        let sc = &scans[i];
        let _ = writeln!(fn_lines, "  ; ({}, {}, {}%N)", coq_str(&f.file), coq_str(&disp), sc.sites.len());
        let mut ord: BTreeMap<String, u32> = BTreeMap::new();
        for (k, t) in &sc.sites {
            let n = ord.entry(k.clone()).or_default();
            let _ = writeln!(body, "  {} mkSite {} {} {} {}%N {}", if nsites == 0 { " " } else { ";" }, coq_str(&f.file), coq_str(&disp), coq_str(k), n, coq_str(t));
            *n += 1;
            nsites += 1;
        }
    }
    let _ = writeln!(o, "(* {} reachable functions, {} sites *)", reach.len(), nsites);
    o.push_str("Definition gen_sites : list site := [\n");
    o.push_str(&body);
    o.push_str("].\n");
    o.push_str("(* the reachable functions: (file, function, number of sites) *)\nDefinition gen_functions : list (string * string * N) := [\n");
    o.push_str(&fn_lines.replacen("  ;", "   ", 1));
    o.push_str("].\n");
    std::fs::write(out, o).expect("write output");
}
