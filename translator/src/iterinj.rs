// GenIterInj: the injection-side trait methods of ComponentIterator (src/iterator/component_iterator.rs) and of
// ModuleIterator (src/iterator/module_iterator.rs), each normalised to
//     (trait, method, where the location comes from, how the function is reached, [statements applied to it])
// with everything that is specific to "a module inside a component" vs "a module" abstracted away:
//     self.comp.modules[*mod_idx as usize] | self.module            -> MODULE
//     self.comp_iterator | self.mod_iterator                         -> SUBIT
//     Location::Component { mod_idx, f.. } | Location::Module { f.. } -> Location::L { f.. }
//     `x as FunctionID` -> x ;  panic!("..") -> panic!()
// The Coq side (Proofs/IterInjProofs.v) proves, for an ARBITRARY interpretation of such normalised bodies as
// module transformers, that equal tables make every injection plan issued through the component iterator produce
// the module states that the per-module iterators produce; Props/C26.v checks the two generated tables equal.
// Anything that does not have one of the understood shapes is a "shape changed" exit (a broken obligation).
use quote::ToTokens;
use std::fmt::Write as _;
use syn::visit_mut::VisitMut;

#[derive(Clone, Copy, PartialEq)]
enum Kind { Comp, Mod }

struct Entry { tr: String, name: String, loc: String, shape: String, actions: Vec<String> }

struct Norm { kind: Kind, curr_mod_alias: bool }

fn is_self(e: &syn::Expr) -> bool { matches!(e, syn::Expr::Path(p) if p.path.is_ident("self")) }
fn self_field(e: &syn::Expr, name: &str) -> bool {
    matches!(e, syn::Expr::Field(f) if is_self(&f.base) && matches!(&f.member, syn::Member::Named(i) if i == name))
}
fn ident_expr(s: &str) -> syn::Expr { syn::parse_str::<syn::Expr>(s).unwrap() }
fn toks<T: ToTokens>(t: &T) -> String { t.to_token_stream().to_string() }

impl VisitMut for Norm {
    fn visit_expr_mut(&mut self, e: &mut syn::Expr) {
        syn::visit_mut::visit_expr_mut(self, e);
        let repl: Option<syn::Expr> = match e {
            syn::Expr::Field(_) if self.kind == Kind::Comp && self_field(e, "comp_iterator") => Some(ident_expr("SUBIT")),
            syn::Expr::Field(_) if self.kind == Kind::Mod && self_field(e, "mod_iterator") => Some(ident_expr("SUBIT")),
            syn::Expr::Field(_) if self.kind == Kind::Mod && self_field(e, "module") => Some(ident_expr("MODULE")),
            syn::Expr::Index(ix) if self.kind == Kind::Comp => {
                let base_ok = matches!(&*ix.expr, syn::Expr::Field(f) if self_field(&f.base, "comp") && matches!(&f.member, syn::Member::Named(i) if i == "modules"));
                let idx = toks(&ix.index);
                if base_ok && (idx == "* mod_idx as usize" || (self.curr_mod_alias && idx == "curr_mod")) { Some(ident_expr("MODULE")) } else { None }
            }
            syn::Expr::Cast(c) if toks(&c.ty) == "FunctionID" => Some((*c.expr).clone()),
            syn::Expr::Struct(s) => {
                let segs: Vec<String> = s.path.segments.iter().map(|x| x.ident.to_string()).collect();
                let want = if self.kind == Kind::Comp { "Component" } else { "Module" };
                if segs.len() == 2 && segs[0] == "Location" && segs[1] == want {
                    let mut s2 = s.clone();
                    if self.kind == Kind::Comp {
                        let before = s2.fields.len();
                        s2.fields = s2.fields.into_iter().filter(|f| !(matches!(&f.member, syn::Member::Named(i) if i == "mod_idx") && toks(&f.expr) == "mod_idx")).collect();
                        if s2.fields.len() + 1 != before { crate::shape_changed!("Location::Component built without the current `mod_idx`: {}", toks(s)); }
                    }
                    s2.fields = s2.fields.into_iter().collect();   // drops a trailing comma
                    s2.path = syn::parse_str("Location::L").unwrap();
                    Some(syn::Expr::Struct(s2))
                } else { None }
            }
            syn::Expr::Macro(m) if m.mac.path.is_ident("panic") => { let mut m2 = m.clone(); m2.mac.tokens = proc_macro2::TokenStream::new(); Some(syn::Expr::Macro(m2)) }
            _ => None,
        };
        if let Some(r) = repl { *e = r; }
    }
    fn visit_stmt_mut(&mut self, s: &mut syn::Stmt) {
        syn::visit_mut::visit_stmt_mut(self, s);
        if let syn::Stmt::Macro(m) = s { if m.mac.path.is_ident("panic") { m.mac.tokens = proc_macro2::TokenStream::new(); } }
    }
}

fn strip_blocks(mut stmts: Vec<syn::Stmt>) -> Vec<syn::Stmt> {
    loop {
        if stmts.len() == 1 {
            if let syn::Stmt::Expr(syn::Expr::Block(b), _) = &stmts[0] { if b.label.is_none() && b.attrs.is_empty() { stmts = b.block.stmts.clone(); continue; } }
        }
        return stmts;
    }
}
fn stmt_text(s: &syn::Stmt) -> String {
    match s {
        syn::Stmt::Expr(e, _) => toks(e),
        syn::Stmt::Local(l) => { let mut t = toks(l); if t.ends_with(';') { t.pop(); } t.trim().to_string() }
        other => { let mut t = toks(other); if t.ends_with(';') { t.pop(); } t.trim().to_string() }
    }
}
fn action_texts(e: &syn::Expr) -> Vec<String> {
    let stmts = match e { syn::Expr::Block(b) => strip_blocks(b.block.stmts.clone()), other => vec![syn::Stmt::Expr(other.clone(), None)] };
    stmts.iter().map(stmt_text).collect()
}
fn only_panics(b: &syn::Block) -> bool {
    match b.stmts.as_slice() {
        [syn::Stmt::Macro(m)] => m.mac.path.is_ident("panic"),
        [syn::Stmt::Expr(syn::Expr::Macro(m), _)] => m.mac.path.is_ident("panic"),
        _ => false,
    }
}
fn is_panic_expr(e: &syn::Expr) -> bool {
    match e { syn::Expr::Macro(m) => m.mac.path.is_ident("panic"), syn::Expr::Block(b) => only_panics(&b.block), _ => false }
}

// the Location struct pattern: which fields it binds (shorthand only)
fn loc_pat_fields(p: &syn::Pat, kind: Kind, ctx: &str) -> Vec<String> {
    let s = match p { syn::Pat::Struct(s) => s, _ => crate::shape_changed!("{ctx}: location pattern is not a struct pattern: {}", toks(p)) };
    let segs: Vec<String> = s.path.segments.iter().map(|x| x.ident.to_string()).collect();
    let want = if kind == Kind::Comp { "Component" } else { "Module" };
    if !(segs.len() == 2 && segs[0] == "Location" && segs[1] == want) { crate::shape_changed!("{ctx}: pattern {} is not Location::{want}", toks(&s.path)); }
    let mut out = vec![];
    for f in &s.fields {
        let m = match &f.member { syn::Member::Named(i) => i.to_string(), _ => crate::shape_changed!("{ctx}: unnamed location field") };
        let bound = toks(&f.pat);
        if bound == m { out.push(m); }
        else if bound.starts_with('_') { /* ignored binding, e.g. func_idx: _func_idx */ }
        else { crate::shape_changed!("{ctx}: location field {m} bound under another name ({bound})"); }
    }
    if kind == Kind::Comp && !out.iter().any(|x| x == "mod_idx") { crate::shape_changed!("{ctx}: component location pattern does not bind mod_idx"); }
    out.retain(|x| x != "mod_idx");
    out.sort();
    out
}

fn method_entry(kind: Kind, tr: &str, f: &syn::ImplItemFn) -> Entry {
    let name = f.sig.ident.to_string();
    let ctx = format!("{}::{}", if kind == Kind::Comp { "ComponentIterator" } else { "ModuleIterator" }, name);
    let mut stmts: Vec<syn::Stmt> = f.block.stmts.clone();
    // trailing `self`
    if let Some(syn::Stmt::Expr(e, None)) = stmts.last() { if is_self(e) { stmts.pop(); } }
    let mut curr_loc_alias: Option<bool> = None; // Some(true) = `.0` already taken
    let mut norm = Norm { kind, curr_mod_alias: false };
    // leading aliases
    loop {
        let first = match stmts.first() { Some(syn::Stmt::Local(l)) => l.clone(), _ => break };
        let pat = toks(&first.pat);
        let init = match &first.init { Some(i) if i.diverge.is_none() => toks(&i.expr), _ => break };
        if pat == "curr_loc" && init == "self . curr_loc ()" { curr_loc_alias = Some(false); stmts.remove(0); }
        else if pat == "curr_loc" && init == "self . curr_loc () . 0" { curr_loc_alias = Some(true); stmts.remove(0); }
        else if kind == Kind::Comp && pat == "curr_mod" && init == "* self . curr_module () as usize" { norm.curr_mod_alias = true; stmts.remove(0); }
        else { break; }
    }
    for s in stmts.iter_mut() { norm.visit_stmt_mut(s); }
    let sig_args: Vec<String> = f.sig.inputs.iter().filter_map(|a| match a { syn::FnArg::Typed(t) => Some(toks(&t.pat)), _ => None }).collect();
    let shape_sig = format!("({})", sig_args.join(","));
    // if let <loc pattern> = <scrutinee> { .. } else { panic!() }
    if let [syn::Stmt::Expr(syn::Expr::If(iff), _)] = stmts.as_slice() {
        if let syn::Expr::Let(l) = &*iff.cond {
            let scrut = toks(&l.expr);
            let (loc, fields) = {
                let tuple_inner = |p: &syn::Pat| -> Option<syn::Pat> {
                    if let syn::Pat::Tuple(t) = p { if t.elems.len() == 2 && matches!(t.elems[1], syn::Pat::Rest(_)) { return Some(t.elems[0].clone()); } } None };
                if scrut == "self . curr_loc ()" || scrut == "SUBIT . curr_loc ()" || (scrut == "curr_loc" && curr_loc_alias == Some(false)) {
                    let inner = tuple_inner(&l.pat).unwrap_or_else(|| crate::shape_changed!("{ctx}: curr_loc() matched against {}", toks(&l.pat)));
                    ("curr".to_string(), loc_pat_fields(&inner, kind, &ctx))
                } else if scrut == "curr_loc" && curr_loc_alias == Some(true) {
                    ("curr".to_string(), loc_pat_fields(&l.pat, kind, &ctx))
                } else if scrut == "loc" && sig_args.iter().any(|a| a == "loc") {
                    ("given".to_string(), loc_pat_fields(&l.pat, kind, &ctx))
                } else { crate::shape_changed!("{ctx}: location taken from `{scrut}`") }
            };
            match &iff.else_branch { Some((_, e)) => match &**e { syn::Expr::Block(b) if only_panics(&b.block) => {}, _ => crate::shape_changed!("{ctx}: else branch is not a lone panic!") }, None => crate::shape_changed!("{ctx}: no else branch") }
            let then = strip_blocks(iff.then_branch.stmts.clone());
            // match <MODULE.functions.get[_mut](func_idx)>.kind { Import(_) => panic!, Local(l) => ACTION }
            if let [syn::Stmt::Expr(syn::Expr::Match(m), _)] = then.as_slice() {
                let mut scr = &*m.expr;
                if let syn::Expr::Reference(r) = scr { scr = &*r.expr; }
                let s = toks(scr);
                let access = if s == "MODULE . functions . get_mut (func_idx) . kind" { "get_mut" } else if s == "MODULE . functions . get (func_idx) . kind" { "get" }
                             else { crate::shape_changed!("{ctx}: function reached through `{s}`") };
                if m.arms.len() != 2 { crate::shape_changed!("{ctx}: match on the function kind has {} arms", m.arms.len()); }
                let mut action = None;
                for arm in &m.arms {
                    let p = toks(&arm.pat);
                    if arm.guard.is_some() { crate::shape_changed!("{ctx}: guarded arm"); }
                    if p == "FuncKind :: Import (_)" { if !is_panic_expr(&arm.body) { crate::shape_changed!("{ctx}: the Import arm does not panic"); } }
                    else if p == "FuncKind :: Local (l)" || p == "FuncKind :: Local (ref mut l)" || p == "FuncKind :: Local (ref l)" { action = Some(action_texts(&arm.body)); }
                    else { crate::shape_changed!("{ctx}: arm `{p}`"); }
                }
                let actions = action.unwrap_or_else(|| crate::shape_changed!("{ctx}: no Local arm"));
                return Entry { tr: tr.into(), name, loc, shape: format!("fn.{access}{shape_sig}[{}]", fields.join(",")), actions };
            }
            return Entry { tr: tr.into(), name, loc, shape: format!("module{shape_sig}[{}]", fields.join(",")), actions: then.iter().map(stmt_text).collect() };
        }
    }
    Entry { tr: tr.into(), name, loc: "none".into(), shape: format!("direct{shape_sig}"), actions: strip_blocks(stmts).iter().map(stmt_text).collect() }
}

fn collect(path: &str, ty: &str, kind: Kind) -> (Vec<Entry>, Vec<String>) {
    let src = std::fs::read_to_string(path).unwrap_or_else(|_| crate::shape_changed!("{path} not readable"));
    let file = syn::parse_file(&src).unwrap_or_else(|e| crate::shape_changed!("{path} does not parse: {e}"));
    let mut out = vec![]; let mut empty = vec![];
    for it in &file.items {
        let im = match it { syn::Item::Impl(i) => i, _ => continue };
        let self_ty = match &*im.self_ty { syn::Type::Path(p) => p.path.segments.last().map(|s| s.ident.to_string()).unwrap_or_default(), _ => String::new() };
        if self_ty != ty { continue; }
        let tr = match &im.trait_ { Some((_, p, _)) => p.segments.last().unwrap().ident.to_string(), None => continue }; // inherent impl: constructors / accessors
        match tr.as_str() {
            "Iterator" => continue,   // navigation: hand-written model Model/Iter.v, tied by the correspondence run
            "Opcode" | "MacroOpcode" => { if !im.items.is_empty() { crate::shape_changed!("impl {tr} for {ty} overrides default methods"); } empty.push(tr); continue; }
            "Inject" | "InjectAt" | "Instrumenter" | "IteratingInstrumenter" | "AddLocal" => {}
            other => crate::shape_changed!("impl {other} for {ty}: trait not known to the translator"),
        }
        for ii in &im.items {
            match ii { syn::ImplItem::Fn(f) => out.push(method_entry(kind, &tr, f)), other => crate::shape_changed!("impl {tr} for {ty}: item {}", toks(other)) }
        }
    }
    out.sort_by(|a, b| (a.tr.clone(), a.name.clone()).cmp(&(b.tr.clone(), b.name.clone())));
    empty.sort();
    (out, empty)
}

fn coq_str(s: &str) -> String { format!("\"{}\"", s.replace('"', "\"\"")) }

pub fn generate(repo: &str, out: &str) {
    let (c, ce) = collect(&format!("{repo}/src/iterator/component_iterator.rs"), "ComponentIterator", Kind::Comp);
    let (m, me) = collect(&format!("{repo}/src/iterator/module_iterator.rs"), "ModuleIterator", Kind::Mod);
    if c.is_empty() || m.is_empty() { crate::shape_changed!("no injection methods found"); }
    let mut s = String::new();
    writeln!(s, "(* GENERATED by /verif/translator (GenIterInj) from src/iterator/component_iterator.rs and src/iterator/module_iterator.rs.").unwrap();
    writeln!(s, "   Do not edit: regenerated on every check.  One entry per trait method on the injection side:").unwrap();
    writeln!(s, "   (trait, method, where the location comes from, how the function is reached + arguments + location fields used,").unwrap();
    writeln!(s, "    the normalised statements applied). *)").unwrap();
    writeln!(s, "From Coq Require Import List String.\nImport ListNotations.\nLocal Open Scope string_scope.\n").unwrap();
    let emit = |s: &mut String, name: &str, v: &Vec<Entry>| {
        writeln!(s, "Definition {name} : list (string * string * string * string * list string) := [").unwrap();
        for (i, e) in v.iter().enumerate() {
            let acts: Vec<String> = e.actions.iter().map(|a| coq_str(a)).collect();
            writeln!(s, "  ({}, {}, {}, {},\n     [{}]){}", coq_str(&e.tr), coq_str(&e.name), coq_str(&e.loc), coq_str(&e.shape), acts.join(";\n      "), if i + 1 < v.len() { ";" } else { "" }).unwrap();
        }
        writeln!(s, "].\n").unwrap();
    };
    emit(&mut s, "gen_comp_methods", &c);
    emit(&mut s, "gen_mod_methods", &m);
    let lst = |v: &Vec<String>| v.iter().map(|x| coq_str(x)).collect::<Vec<_>>().join("; ");
    writeln!(s, "Definition gen_comp_default_impls : list string := [{}].", lst(&ce)).unwrap();
    writeln!(s, "Definition gen_mod_default_impls : list string := [{}].", lst(&me)).unwrap();
    std::fs::write(out, s).expect("write");
}
