// GenHelpers: every default method of the traits `Opcode` / `MacroOpcode` in <repo>/src/opcode.rs
// -> a Gallina record (trait, name, parameters, the `Operator` literals it injects in order, and for every
// operator field the expression it is given, in the expression language of coq/Model/HelperLang.v),
// plus the operator table of the wasmparser version pinned by <repo>/Cargo.lock.
//
// The accepted shape of a helper is deliberately narrow:
//     fn NAME(&mut self, p1: T1, .., pn: Tn) -> &mut Self {
//         let x = EXPR;                                  // zero or more, plain identifier patterns
//         self.inject(Operator::V { f: EXPR, g, .. });   // one or more (or `Operator::V` for a unit variant)
//         self
//     }
// EXPR ::= ident | *EXPR | (EXPR) | EXPR as i32|i64|u32|u64 | integer literal | EXPR.to_bits()
//        | [wasmparser::]Ieee32::from(EXPR) | ..Ieee64::from(EXPR) | ..BlockType::from(EXPR) | ..HeapType::from(EXPR)
//        | MemArg { align: EXPR, max_align: EXPR, offset: EXPR, memory: EXPR }
// Anything else is `shape changed` (exit 3): a broken obligation, never a silent default.
use std::collections::BTreeMap;
use std::fmt::Write as _;

#[derive(Debug, Clone)]
pub(crate) struct OpInfo { pub(crate) name: String, pub(crate) fields: Vec<(String, String)>, pub(crate) visit: String }

// The macro body is a sequence of `Name => visit_name (annotation)` / `Name { f: T, .. } => visit_name (annotation)`
// entries inside `@group { .. }` blocks; entries may span several lines (BrOnCast), so the text is scanned
// entry by entry, not line by line.
pub(crate) fn parse_optable(src: &str) -> Vec<OpInfo> {
    let start = src.find("macro_rules! _for_each_operator_group").unwrap_or_else(|| crate::shape_changed!("wasmparser: _for_each_operator_group not found"));
    let end = src[start..].find("macro_rules! _for_each_operator_delegate").map(|e| start + e).unwrap_or(src.len());
    // drop `//` comments, collapse whitespace
    let body: String = src[start..end].lines().map(|l| l.split("//").next().unwrap()).collect::<Vec<_>>().join(" ");
    let body: String = body.split_whitespace().collect::<Vec<_>>().join(" ");
    let mut out = vec![];
    let mut prev_end = 0usize;
    let mut from = 0usize;
    while let Some(rel) = body[from..].find("=> visit_") {
        let p = from + rel;
        let lhs = body[prev_end..p].trim();
        let (name, fields): (String, Vec<(String, String)>) = if lhs.ends_with('}') {
            let b = lhs.rfind('{').unwrap_or_else(|| crate::shape_changed!("wasmparser operator entry `{lhs}`"));
            let name = lhs[..b].trim().rsplit(|c: char| !(c.is_alphanumeric() || c == '_')).next().unwrap_or("").to_string();
            let inner = &lhs[b + 1..lhs.len() - 1];
            let fields = inner.split(',').filter(|s| !s.trim().is_empty()).map(|f| {
                let mut it = f.splitn(2, ':');
                let n = it.next().unwrap().trim().to_string();
                let t = it.next().unwrap_or_else(|| crate::shape_changed!("wasmparser operator entry `{lhs}`")).trim().to_string();
                (n, t)
            }).collect();
            (name, fields)
        } else {
            (lhs.rsplit(|c: char| !(c.is_alphanumeric() || c == '_')).next().unwrap_or("").to_string(), vec![])
        };
        let rhs = &body[p + 3..];
        let visit: String = rhs.chars().take_while(|c| c.is_alphanumeric() || *c == '_').collect();
        // the parenthesised annotation that follows closes the entry
        let after = p + 3 + visit.len();
        let open = body[after..].find('(').map(|o| after + o).unwrap_or_else(|| crate::shape_changed!("wasmparser operator entry `{name}`: no annotation"));
        if !body[after..open].trim().is_empty() { crate::shape_changed!("wasmparser operator entry `{name}`: unexpected text before the annotation"); }
        let mut depth = 0i32; let mut close = open;
        for (k, c) in body[open..].char_indices() { if c == '(' { depth += 1 } else if c == ')' { depth -= 1; if depth == 0 { close = open + k; break; } } }
        if close == open { crate::shape_changed!("wasmparser operator entry `{name}`: unbalanced annotation"); }
        prev_end = close + 1; from = close + 1;
        let is_variant = name.chars().next().map(|c| c.is_uppercase()).unwrap_or(false);
        if is_variant { out.push(OpInfo { name, fields, visit }); }
        else if !name.starts_with('$') { crate::shape_changed!("wasmparser operator entry with unexpected name `{name}`"); }   // `$op ... => $visit` never matches "=> visit_"
    }
    if out.len() < 100 { crate::shape_changed!("wasmparser operator table: only {} operators recognised", out.len()); }
    out
}

/// Coq constructor (type `ty` of HelperLang.v) of a wasmparser operator field type
fn field_ty(t: &str) -> String {
    let t = t.replace(' ', "");
    match t.as_str() {
        "u32" => "U32".into(), "i32" => "I32".into(), "i64" => "I64".into(), "u64" => "U64".into(), "u8" => "U8".into(),
        "$crate::Ieee32" => "Ieee32".into(), "$crate::Ieee64" => "Ieee64".into(), "$crate::MemArg" => "MemArg".into(),
        "$crate::BlockType" => "WpBlockTy".into(), "$crate::HeapType" => "WpHeapTy".into(),
        other => format!("(Other \"{}\")", other.replace('"', "'")),
    }
}

// ---- u32 newtypes of src/ir/id.rs: `pub struct X(pub u32);` with `impl Deref for X { type Target = u32; fn deref(&self) -> &Self::Target { &self.0 } }`
fn id_newtypes(repo: &str) -> Vec<String> {
    let path = format!("{repo}/src/ir/id.rs");
    let src = std::fs::read_to_string(&path).unwrap_or_else(|_| crate::shape_changed!("{path} not readable"));
    let file = syn::parse_file(&src).unwrap_or_else(|e| crate::shape_changed!("{path}: {e}"));
    let norm = |t: &dyn quote::ToTokens| t.to_token_stream().to_string().replace(' ', "");
    let mut structs = vec![];
    let mut derefs = vec![];
    for it in &file.items {
        match it {
            syn::Item::Struct(s) => {
                if let syn::Fields::Unnamed(f) = &s.fields {
                    if f.unnamed.len() == 1 && norm(&f.unnamed[0].ty) == "u32" { structs.push(s.ident.to_string()); }
                }
            }
            syn::Item::Impl(im) => {
                let tr = match &im.trait_ { Some((_, p, _)) => norm(p), None => continue };
                if tr != "std::ops::Deref" && tr != "Deref" && tr != "core::ops::Deref" { continue; }
                let who = norm(&*im.self_ty);
                let mut target_u32 = false;
                let mut body_ok = false;
                for ii in &im.items {
                    match ii {
                        syn::ImplItem::Type(t) if t.ident == "Target" => target_u32 = norm(&t.ty) == "u32",
                        syn::ImplItem::Fn(f) if f.sig.ident == "deref" => body_ok = norm(&f.block) == "{&self.0}",
                        _ => {}
                    }
                }
                if target_u32 && body_ok { derefs.push(who); }
            }
            _ => {}
        }
    }
    structs.into_iter().filter(|s| derefs.contains(s)).collect()
}

// ---- every `impl Opcode/MacroOpcode for T` in <repo>/src must be empty (no overridden helper)
fn rs_files(dir: &std::path::Path, out: &mut Vec<std::path::PathBuf>) {
    let mut es: Vec<_> = std::fs::read_dir(dir).unwrap_or_else(|_| crate::shape_changed!("{} not readable", dir.display())).map(|e| e.unwrap().path()).collect();
    es.sort();
    for p in es {
        if p.is_dir() { rs_files(&p, out); } else if p.extension().map(|x| x == "rs").unwrap_or(false) { out.push(p); }
    }
}
fn implementors(repo: &str) -> Vec<(String, String)> {
    let mut files = vec![];
    rs_files(std::path::Path::new(&format!("{repo}/src")), &mut files);
    let mut out = vec![];
    for f in files {
        let src = std::fs::read_to_string(&f).unwrap();
        if !src.contains("Opcode") { continue; }
        let file = syn::parse_file(&src).unwrap_or_else(|e| crate::shape_changed!("{}: {e}", f.display()));
        struct V<'a> { out: &'a mut Vec<(String, String)>, file: String }
        impl<'ast, 'a> syn::visit::Visit<'ast> for V<'a> {
            fn visit_item_impl(&mut self, im: &'ast syn::ItemImpl) {
                if let Some((_, p, _)) = &im.trait_ {
                    let last = p.segments.last().map(|s| s.ident.to_string()).unwrap_or_default();
                    if last == "Opcode" || last == "MacroOpcode" {
                        let who = match &*im.self_ty { syn::Type::Path(tp) => tp.path.segments.last().map(|s| s.ident.to_string()).unwrap_or_default(), _ => String::new() };
                        if who.is_empty() { crate::shape_changed!("{}: impl {last} for a non-path type", self.file); }
                        if !im.items.is_empty() { crate::shape_changed!("{}: impl {last} for {who} overrides {} item(s); helpers are no longer the trait defaults", self.file, im.items.len()); }
                        self.out.push((last, who));
                    }
                }
                syn::visit::visit_item_impl(self, im);
            }
        }
        syn::visit::Visit::visit_file(&mut V { out: &mut out, file: f.display().to_string() }, &file);
    }
    out
}

// ---- expressions
#[derive(Debug, Clone)]
enum E { Param(usize), Const(String), Deref(Box<E>), Cast(&'static str, Box<E>), Bits32(Box<E>), Bits64(Box<E>), ToBits(Box<E>), ConvBlock(Box<E>), ConvHeap(Box<E>), MemArg(Box<E>, Box<E>, Box<E>, Box<E>) }
impl E {
    fn coq(&self) -> String {
        match self {
            E::Param(i) => format!("EParam {i}"),
            E::Const(z) => format!("EConst ({z})"),
            E::Deref(e) => format!("EDeref ({})", e.coq()),
            E::Cast(t, e) => format!("ECast{t} ({})", e.coq()),
            E::Bits32(e) => format!("EBitsF32 ({})", e.coq()),
            E::Bits64(e) => format!("EBitsF64 ({})", e.coq()),
            E::ToBits(e) => format!("EToBits ({})", e.coq()),
            E::ConvBlock(e) => format!("EConvBlockType ({})", e.coq()),
            E::ConvHeap(e) => format!("EConvHeapType ({})", e.coq()),
            E::MemArg(a, b, c, d) => format!("EMemArg ({}) ({}) ({}) ({})", a.coq(), b.coq(), c.coq(), d.coq()),
        }
    }
}

struct Ctx<'a> { helper: &'a str, params: Vec<String>, lets: BTreeMap<String, E> }

fn path_str(p: &syn::Path) -> String { p.segments.iter().map(|s| { if !s.arguments.is_none() { crate::shape_changed!("generic arguments in path `{}`", quote::ToTokens::to_token_stream(p)); } s.ident.to_string() }).collect::<Vec<_>>().join("::") }

fn xexpr(cx: &Ctx, e: &syn::Expr) -> E {
    let bad = |what: &str| -> ! { crate::shape_changed!("opcode.rs: helper `{}`: {what}: `{}`", cx.helper, quote::ToTokens::to_token_stream(e)) };
    match e {
        syn::Expr::Paren(p) => xexpr(cx, &p.expr),
        syn::Expr::Path(p) if p.qself.is_none() && p.attrs.is_empty() => {
            let id = match p.path.get_ident() { Some(i) => i.to_string(), None => bad("unsupported path expression") };
            if let Some(b) = cx.lets.get(&id) { return b.clone(); }   // a `let` shadows a parameter
            match cx.params.iter().position(|n| *n == id) { Some(i) => E::Param(i), None => bad("unknown identifier") }
        }
        syn::Expr::Unary(u) => match u.op { syn::UnOp::Deref(_) => E::Deref(Box::new(xexpr(cx, &u.expr))),
            syn::UnOp::Neg(_) => match &*u.expr { syn::Expr::Lit(syn::ExprLit { lit: syn::Lit::Int(i), .. }) if i.suffix().is_empty() => E::Const(format!("-{}", i.base10_digits())), _ => bad("unsupported negation") },
            _ => bad("unsupported unary operator") },
        syn::Expr::Lit(syn::ExprLit { lit: syn::Lit::Int(i), .. }) if i.suffix().is_empty() => E::Const(i.base10_digits().to_string()),
        syn::Expr::Cast(c) => {
            let t = match &*c.ty { syn::Type::Path(tp) if tp.qself.is_none() => path_str(&tp.path), _ => bad("unsupported cast target") };
            let k = match t.as_str() { "i32" => "I32", "i64" => "I64", "u32" => "U32", "u64" => "U64", _ => bad("unsupported cast target") };
            E::Cast(k, Box::new(xexpr(cx, &c.expr)))
        }
        syn::Expr::MethodCall(m) if m.method == "to_bits" && m.args.is_empty() && m.turbofish.is_none() => E::ToBits(Box::new(xexpr(cx, &m.receiver))),
        syn::Expr::Call(c) if c.args.len() == 1 => {
            let f = match &*c.func { syn::Expr::Path(p) if p.qself.is_none() => path_str(&p.path), _ => bad("unsupported call") };
            let a = Box::new(xexpr(cx, &c.args[0]));
            match f.as_str() {
                "wasmparser::Ieee32::from" | "Ieee32::from" => E::Bits32(a),
                "wasmparser::Ieee64::from" | "Ieee64::from" => E::Bits64(a),
                "wasmparser::BlockType::from" => E::ConvBlock(a),
                "wasmparser::HeapType::from" => E::ConvHeap(a),
                "f32::to_bits" | "f64::to_bits" => E::ToBits(a),
                _ => bad("unsupported call"),
            }
        }
        syn::Expr::Struct(s) if s.qself.is_none() && s.rest.is_none() && s.dot2_token.is_none() => {
            let n = path_str(&s.path);
            if n != "MemArg" && n != "wasmparser::MemArg" { bad("unsupported struct literal"); }
            let mut m: BTreeMap<String, E> = BTreeMap::new();
            for f in &s.fields {
                let name = match &f.member { syn::Member::Named(i) => i.to_string(), _ => bad("unnamed field") };
                if m.insert(name, xexpr(cx, &f.expr)).is_some() { bad("duplicate field"); }
            }
            let mut take = |k: &str| Box::new(m.remove(k).unwrap_or_else(|| bad("MemArg literal lacks a field")));
            let r = E::MemArg(take("align"), take("max_align"), take("offset"), take("memory"));
            if !m.is_empty() { bad("MemArg literal has unknown fields"); }
            r
        }
        _ => bad("unsupported expression"),
    }
}

fn param_ty(helper: &str, t: &syn::Type, ids: &[String]) -> String {
    let s = match t { syn::Type::Path(tp) if tp.qself.is_none() => path_str(&tp.path), _ => crate::shape_changed!("opcode.rs: helper `{helper}`: unsupported parameter type `{}`", quote::ToTokens::to_token_stream(t)) };
    match s.as_str() {
        "i32" => "I32".into(), "i64" => "I64".into(), "u32" => "U32".into(), "u64" => "U64".into(), "u8" => "U8".into(),
        "f32" => "F32".into(), "f64" => "F64".into(), "MemArg" => "MemArg".into(), "BlockType" => "BlockTy".into(), "HeapType" => "HeapTy".into(),
        x if ids.iter().any(|i| i == x) => format!("(Id \"{x}\")"),
        x => crate::shape_changed!("opcode.rs: helper `{helper}`: unsupported parameter type `{x}`"),
    }
}

struct Helper { tr: String, name: String, params: Vec<(String, String)>, injs: Vec<(String, Vec<(String, E)>)> }

fn xhelper(tr: &str, f: &syn::TraitItemFn, ids: &[String], ops: &BTreeMap<String, usize>, table: &[OpInfo]) -> Helper {
    let name = f.sig.ident.to_string();
    let bad = |what: String| -> ! { crate::shape_changed!("opcode.rs: {tr}::{name}: {what}") };
    let block = match &f.default { Some(b) => b, None => bad("required method without a default body".into()) };
    if !f.sig.generics.params.is_empty() || f.sig.generics.where_clause.is_some() || f.sig.asyncness.is_some() || f.sig.unsafety.is_some() || f.sig.variadic.is_some() { bad("unexpected signature qualifiers".into()); }
    // receiver `&mut self`, return `&mut Self`
    let mut it = f.sig.inputs.iter();
    match it.next() { Some(syn::FnArg::Receiver(r)) if r.reference.is_some() && r.mutability.is_some() && r.colon_token.is_none() => {}, _ => bad("receiver is not `&mut self`".into()) }
    let ret = match &f.sig.output { syn::ReturnType::Type(_, t) => quote::ToTokens::to_token_stream(&**t).to_string().replace(' ', ""), _ => String::new() };
    if ret != "&mutSelf" { bad(format!("return type `{ret}` is not `&mut Self`")); }
    let mut params = vec![];
    for a in it {
        match a {
            syn::FnArg::Typed(pt) => {
                let pn = match &*pt.pat { syn::Pat::Ident(pi) if pi.by_ref.is_none() && pi.subpat.is_none() => pi.ident.to_string(), _ => bad("parameter pattern is not an identifier".into()) };
                params.push((pn, param_ty(&name, &pt.ty, ids)));
            }
            _ => bad("second receiver".into()),
        }
    }
    let mut cx = Ctx { helper: &name, params: params.iter().map(|p| p.0.clone()).collect(), lets: BTreeMap::new() };
    let mut injs = vec![];
    let n = block.stmts.len();
    if n < 2 { bad("body shorter than `self.inject(..); self`".into()); }
    for (k, st) in block.stmts.iter().enumerate() {
        let last = k + 1 == n;
        match st {
            syn::Stmt::Local(l) if !last => {
                if !injs.is_empty() { bad("`let` after an injection".into()); }
                let id = match &l.pat { syn::Pat::Ident(pi) if pi.by_ref.is_none() && pi.subpat.is_none() && pi.mutability.is_none() => pi.ident.to_string(), _ => bad("unsupported `let` pattern".into()) };
                let init = match &l.init { Some(i) if i.diverge.is_none() => &i.expr, _ => bad("`let` without a plain initialiser".into()) };
                let e = xexpr(&cx, init);
                cx.lets.insert(id, e);
            }
            syn::Stmt::Expr(syn::Expr::MethodCall(m), Some(_)) if !last => {
                let recv_self = matches!(&*m.receiver, syn::Expr::Path(p) if p.path.is_ident("self"));
                if !(recv_self && m.method == "inject" && m.args.len() == 1 && m.turbofish.is_none()) { bad(format!("statement is not `self.inject(<one operator>)`: `{}`", quote::ToTokens::to_token_stream(st))); }
                let (variant, fields): (String, Vec<(String, E)>) = match &m.args[0] {
                    syn::Expr::Path(p) if p.qself.is_none() => (path_str(&p.path), vec![]),
                    syn::Expr::Struct(s) if s.qself.is_none() && s.rest.is_none() && s.dot2_token.is_none() => {
                        let mut fs = vec![];
                        for fl in &s.fields {
                            let fname = match &fl.member { syn::Member::Named(i) => i.to_string(), _ => bad("unnamed operator field".into()) };
                            fs.push((fname, xexpr(&cx, &fl.expr)));
                        }
                        (path_str(&s.path), fs)
                    }
                    other => bad(format!("injected value is not an `Operator::..` literal: `{}`", quote::ToTokens::to_token_stream(other))),
                };
                let v = match variant.strip_prefix("Operator::").or_else(|| variant.strip_prefix("wasmparser::Operator::")) { Some(v) if !v.contains("::") => v.to_string(), _ => bad(format!("injected value `{variant}` is not an `Operator::..` literal")) };
                let code = *ops.get(&v).unwrap_or_else(|| bad(format!("`Operator::{v}` is not in the pinned wasmparser's operator table")));
                let mut want: Vec<&String> = table[code].fields.iter().map(|f| &f.0).collect(); want.sort();
                let mut have: Vec<&String> = fields.iter().map(|f| &f.0).collect(); have.sort();
                if want != have { bad(format!("`Operator::{v}` is built with fields {have:?}, the operator table has {want:?}")); }
                injs.push((v, fields));
            }
            syn::Stmt::Expr(syn::Expr::Path(p), None) if last && p.path.is_ident("self") => {}
            other => bad(format!("unexpected statement `{}`", quote::ToTokens::to_token_stream(other))),
        }
    }
    if injs.is_empty() { bad("no injection".into()); }
    Helper { tr: tr.to_string(), name, params, injs }
}

pub fn generate(repo: &str, out: &str) {
    let wp_path = crate::wasmparser_lib_rs(repo);
    let wp = std::fs::read_to_string(&wp_path).expect("wasmparser lib.rs");
    let table = parse_optable(&wp);
    let mut ops: BTreeMap<String, usize> = BTreeMap::new();
    for (i, o) in table.iter().enumerate() { if ops.insert(o.name.clone(), i).is_some() { crate::shape_changed!("wasmparser: operator {} listed twice", o.name); } }
    let ids = id_newtypes(repo);
    let impls = implementors(repo);
    let path = format!("{repo}/src/opcode.rs");
    let src = std::fs::read_to_string(&path).unwrap_or_else(|_| crate::shape_changed!("{path} not readable"));
    let file = syn::parse_file(&src).unwrap_or_else(|e| crate::shape_changed!("{path}: {e}"));
    let mut helpers = vec![];
    let mut seen_traits = vec![];
    for it in &file.items {
        if let syn::Item::Trait(t) = it {
            let tn = t.ident.to_string();
            if tn != "Opcode" && tn != "MacroOpcode" { continue; }
            seen_traits.push(tn.clone());
            for ti in &t.items {
                match ti {
                    syn::TraitItem::Fn(f) => helpers.push(xhelper(&tn, f, &ids, &ops, &table)),
                    other => crate::shape_changed!("opcode.rs: trait {tn} has a non-method item `{}`", quote::ToTokens::to_token_stream(other)),
                }
            }
        }
    }
    seen_traits.sort();
    if seen_traits != ["MacroOpcode", "Opcode"] { crate::shape_changed!("opcode.rs: expected exactly the traits Opcode and MacroOpcode, found {seen_traits:?}"); }
    for tr in ["Opcode", "MacroOpcode"] { if !impls.iter().any(|(t, _)| t == tr) { crate::shape_changed!("no implementor of {tr} found under {repo}/src"); } }

    let mut s = String::new();
    writeln!(s, "(* GENERATED by `xlate GenHelpers` from src/opcode.rs, src/ir/id.rs and the pinned wasmparser's src/lib.rs -- do not edit *)").unwrap();
    writeln!(s, "From Coq Require Import List NArith ZArith String.\nFrom Orca Require Import HelperLang.\nImport ListNotations.\nOpen Scope string_scope.\nOpen Scope Z_scope.").unwrap();
    writeln!(s, "(* operator table: code (position in for_each_operator), variant, mnemonic (name of the visit_ method), fields in declaration order *)").unwrap();
    writeln!(s, "Definition optable : list opinfo := [").unwrap();
    for (i, o) in table.iter().enumerate() {
        let fs: Vec<String> = o.fields.iter().map(|(n, t)| format!("(\"{n}\", {})", field_ty(t))).collect();
        let mn = o.visit.strip_prefix("visit_").unwrap_or_else(|| crate::shape_changed!("visitor name {}", o.visit));
        writeln!(s, "  {}mkOp {i}%N \"{}\" \"{mn}\" [{}]", if i == 0 { "" } else { "; " }, o.name, fs.join("; ")).unwrap();
    }
    writeln!(s, "].").unwrap();
    writeln!(s, "(* u32 newtypes with `Deref<Target = u32>` returning `&self.0` (src/ir/id.rs) *)").unwrap();
    writeln!(s, "Definition id_newtypes : list string := [{}].", ids.iter().map(|i| format!("\"{i}\"")).collect::<Vec<_>>().join("; ")).unwrap();
    writeln!(s, "(* implementors; every one of them is an empty `impl` block, so the helpers are the trait defaults below *)").unwrap();
    writeln!(s, "Definition opcode_impls : list (string * string) := [{}].", impls.iter().map(|(t, w)| format!("(\"{t}\", \"{w}\")")).collect::<Vec<_>>().join("; ")).unwrap();
    writeln!(s, "Definition helpers : list helper := [").unwrap();
    for (k, h) in helpers.iter().enumerate() {
        let ps: Vec<String> = h.params.iter().map(|(n, t)| format!("(\"{n}\", {t})")).collect();
        let injs: Vec<String> = h.injs.iter().map(|(v, fs)| format!("mkInj \"{v}\" [{}]", fs.iter().map(|(n, e)| format!("(\"{n}\", {})", e.coq())).collect::<Vec<_>>().join("; "))).collect();
        writeln!(s, "  {}mkHelper \"{}\" \"{}\" [{}] [{}]", if k == 0 { "" } else { "; " }, h.tr, h.name, ps.join("; "), injs.join("; ")).unwrap();
    }
    writeln!(s, "].").unwrap();
    std::fs::write(out, s).unwrap();
    eprintln!("ops={} helpers={} ids={} impls={}", table.len(), helpers.len(), ids.len(), impls.len());
}
