// Translator: regenerates coq/Gen/*.v from /repo's current sources (and from the wasmparser source that
// /repo/Cargo.lock pins).  Usage: xlate <GenName> <repo> <out.v>.  Exit 3 + "shape changed: ..." when an
// item no longer has the shape the translator understands (a broken obligation, never a silent fallback).
mod refers;
mod helpers;
mod inventory;
mod datatype;
mod hashiter;
mod iterinj;
mod reorg;
mod addinstr;
mod emit;

#[macro_export]
macro_rules! shape_changed {
    ($($t:tt)*) => {{ eprintln!("shape changed: {}", format!($($t)*)); std::process::exit(3) }};
}

/// path of wasmparser's src/lib.rs in the cargo registry, for the version pinned by <repo>/Cargo.lock
pub fn wasmparser_lib_rs(repo: &str) -> String {
    let lock = std::fs::read_to_string(format!("{repo}/Cargo.lock")).expect("Cargo.lock");
    let mut ver = None;
    let mut lines = lock.lines();
    while let Some(l) = lines.next() {
        if l.trim() == "name = \"wasmparser\"" {
            if let Some(v) = lines.next() { ver = v.trim().strip_prefix("version = \"").and_then(|x| x.strip_suffix('"')).map(|x| x.to_string()); }
            break;
        }
    }
    let ver = ver.expect("wasmparser version in Cargo.lock");
    let home = std::env::var("CARGO_HOME").unwrap_or_else(|_| format!("{}/.cargo", std::env::var("HOME").unwrap_or("/root".into())));
    for e in std::fs::read_dir(format!("{home}/registry/src")).expect("cargo registry") {
        let p = e.unwrap().path().join(format!("wasmparser-{ver}/src/lib.rs"));
        if p.exists() { return p.to_string_lossy().to_string(); }
    }
    panic!("wasmparser-{ver} not in the cargo registry");
}

fn main() {
    let a: Vec<String> = std::env::args().collect();
    if a.len() != 4 { eprintln!("usage: xlate <GenName> <repo> <out.v>"); std::process::exit(2); }
    match a[1].as_str() {
        "GenRefers" => refers::generate(&a[2], &a[3]),
        "GenHelpers" => helpers::generate(&a[2], &a[3]),
        "GenInventory" => inventory::generate(&a[2], &a[3]),
        "GenDataTypeConv" => datatype::generate(&a[2], &a[3]),
        "GenHashIter" => hashiter::generate(&a[2], &a[3]),
        "GenIterInj" => iterinj::generate(&a[2], &a[3]),
        "GenReorg" => reorg::generate(&a[2], &a[3]),
        "GenAddInstr" => addinstr::generate(&a[2], &a[3]),
        "GenEmit" => emit::generate(&a[2], &a[3]),
        other => { eprintln!("unknown generator {other}"); std::process::exit(2) }
    }
}
