// GenAddInstr: `InstrumentationFlag::add_instr`, `is_block_style_op`, `is_branching_op` (src/ir/types.rs) -> Gallina.
// add_instr is a `match self.current_mode` with one arm per InstrumentationMode; each arm is translated into an
// expression of type `option (flags * bool)` (None = the arm panics: the injection is rejected at the call):
//     self.<list>.instrs.push(val); <bool>                         -> the list field gets `++ [x]`
//     match &mut self.<opt> { None => { self.<opt> = Some(InjectedInstrs { instrs: vec![val], tag: None }) }
//                             Some(a) => a.instrs.push(val) } <bool> -> Some (match <opt> with None => [x] | Some a => a ++ [x] end)
//     if <cond> { .. } else { panic!(..) }                         -> if <cond> then .. else None
//     <cond> ::= Self::is_block_style_op(op) | Self::is_branching_op(op) | <cond> || <cond>
// The two predicates are `matches!(op, Operator::A { .. } | ...)`: emitted as lists of operator names.
// Proofs/GenAddInstrProofs.v proves the translated function equal to Flat.add_instr for all arguments and the name
// lists equal to the classification of the model's operators.  Other shapes: "shape changed" exit.
use quote::ToTokens;
use std::fmt::Write as _;

fn toks<T: ToTokens>(t: &T) -> String { t.to_token_stream().to_string() }

fn find_fn<'a>(file: &'a syn::File, self_ty: &str, name: &str, nargs: usize) -> &'a syn::ImplItemFn {
    for it in &file.items {
        if let syn::Item::Impl(im) = it {
            let ty = match &*im.self_ty { syn::Type::Path(p) => p.path.segments.last().map(|s| s.ident.to_string()).unwrap_or_default(), _ => String::new() };
            if ty != self_ty || im.trait_.is_some() { continue; }
            for ii in &im.items { if let syn::ImplItem::Fn(f) = ii { if f.sig.ident == name && f.sig.inputs.len() == nargs { return f; } } }
        }
    }
    crate::shape_changed!("fn {self_ty}::{name} not found in src/ir/types.rs")
}

fn field(name: &str) -> &'static str {
    match name {
        "before" => "f_before", "after" => "f_after", "alternate" => "f_alt", "semantic_after" => "f_sa",
        "block_entry" => "f_be", "block_exit" => "f_bx", "block_alt" => "f_balt",
        other => crate::shape_changed!("InstrumentationFlag field {other}"),
    }
}
const FIELDS: [&str; 7] = ["f_before", "f_after", "f_alt", "f_sa", "f_be", "f_bx", "f_balt"];
fn mk_flags(changed: &str, new: &str) -> String {
    let parts: Vec<String> = FIELDS.iter().map(|f| if *f == changed { format!("({new})") } else { format!("({f} f)") }).collect();
    format!("mkFlags {}", parts.join(" "))
}

fn cond(e: &syn::Expr) -> String {
    match e {
        syn::Expr::Paren(p) => cond(&p.expr),
        syn::Expr::Binary(b) if matches!(b.op, syn::BinOp::Or(_)) => format!("({} || {})", cond(&b.left), cond(&b.right)),
        syn::Expr::Call(c) if c.args.len() == 1 && toks(&c.args[0]) == "op" => match toks(&c.func).as_str() {
            "Self :: is_block_style_op" => "is_block_style op".into(),
            "Self :: is_branching_op" => "is_branching op".into(),
            other => crate::shape_changed!("condition {other}(op)"),
        },
        other => crate::shape_changed!("condition {}", toks(other)),
    }
}

// a block `{ <update>; <bool> }` -> Some (flags', bool)
fn update_block(b: &syn::Block) -> String {
    let (upd, res) = match b.stmts.as_slice() {
        [u, syn::Stmt::Expr(syn::Expr::Lit(l), None)] => (u, match &l.lit { syn::Lit::Bool(x) => x.value, _ => crate::shape_changed!("result {}", toks(l)) }),
        [syn::Stmt::Expr(syn::Expr::If(i), None)] => return if_arm(i),
        other => crate::shape_changed!("arm body {}", other.iter().map(toks).collect::<Vec<_>>().join(" ")),
    };
    let flags = match upd {
        // self.<f>.instrs.push(val);
        syn::Stmt::Expr(syn::Expr::MethodCall(m), Some(_)) if m.method == "push" && m.args.len() == 1 && toks(&m.args[0]) == "val" => {
            let r = toks(&m.receiver);
            let f = r.strip_prefix("self . ").and_then(|x| x.strip_suffix(" . instrs")).unwrap_or_else(|| crate::shape_changed!("push on {r}"));
            let fl = field(f);
            if fl == "f_alt" || fl == "f_balt" { crate::shape_changed!("push on the optional list {f} without a match"); }
            mk_flags(fl, &format!("{fl} f ++ [x]"))
        }
        // match &mut self.<f> { None => { self.<f> = Some(InjectedInstrs { instrs: vec![val], tag: None }) } Some(a) => a.instrs.push(val) }
        syn::Stmt::Expr(syn::Expr::Match(m), _) => {
            let s = toks(&m.expr);
            let f = s.strip_prefix("& mut self . ").unwrap_or_else(|| crate::shape_changed!("match on {s}"));
            let fl = field(f);
            if fl != "f_alt" && fl != "f_balt" { crate::shape_changed!("match on the plain list {f}"); }
            if m.arms.len() != 2 { crate::shape_changed!("match on {f}: {} arms", m.arms.len()); }
            let mut seen_none = false; let mut seen_some = false;
            for arm in &m.arms {
                let p = toks(&arm.pat); let mut b = toks(&arm.body);
                if b.starts_with('{') && b.ends_with('}') { b = b[1..b.len() - 1].trim().to_string(); }
                if p == "None" {
                    if b != format!("self . {f} = Some (InjectedInstrs {{ instrs : vec ! [val] , tag : None , }})") && b != format!("self . {f} = Some (InjectedInstrs {{ instrs : vec ! [val] , tag : None }})") { crate::shape_changed!("None arm of {f}: {b}"); }
                    seen_none = true;
                } else if let Some(v) = p.strip_prefix("Some (").and_then(|x| x.strip_suffix(")")) {
                    if b != format!("{v} . instrs . push (val)") { crate::shape_changed!("Some arm of {f}: {b}"); }
                    seen_some = true;
                } else { crate::shape_changed!("arm pattern {p}"); }
            }
            if !(seen_none && seen_some) { crate::shape_changed!("match on {f} lacks an arm"); }
            mk_flags(fl, &format!("Some (match {fl} f with None => [x] | Some a => a ++ [x] end)"))
        }
        other => crate::shape_changed!("update statement {}", toks(other)),
    };
    format!("Some ({flags}, {res})")
}

fn if_arm(i: &syn::ExprIf) -> String {
    let els = match &i.else_branch { Some((_, e)) => &**e, None => crate::shape_changed!("if without else in add_instr") };
    let panics = match els { syn::Expr::Block(b) => matches!(b.block.stmts.as_slice(), [syn::Stmt::Macro(m)] if m.mac.path.is_ident("panic")) || matches!(b.block.stmts.as_slice(), [syn::Stmt::Expr(syn::Expr::Macro(m), _)] if m.mac.path.is_ident("panic")), _ => false };
    if !panics { crate::shape_changed!("else branch of an applicability test does not panic"); }
    format!("if {} then {} else None", cond(&i.cond), update_block(&i.then_branch))
}

fn matches_names(f: &syn::ImplItemFn) -> Vec<String> {
    let mac = match f.block.stmts.as_slice() {
        [syn::Stmt::Macro(m)] if m.mac.path.is_ident("matches") => &m.mac,
        [syn::Stmt::Expr(syn::Expr::Macro(m), None)] if m.mac.path.is_ident("matches") => &m.mac,
        _ => crate::shape_changed!("{} is not a single matches!()", f.sig.ident),
    };
    let s = mac.tokens.to_string();
    let rest = s.strip_prefix("op ,").unwrap_or_else(|| crate::shape_changed!("matches!({s})"));
    rest.split('|').map(|alt| {
        let a = alt.trim();
        let n = a.strip_prefix("Operator :: ").and_then(|x| x.strip_suffix("{ .. }")).map(|x| x.trim().to_string());
        n.unwrap_or_else(|| crate::shape_changed!("alternative `{a}` of {}", f.sig.ident))
    }).collect()
}

// resolve_function_exit: `match op { Operator::A {..} | Operator::B | .. => { builder.before_at(..); builder.inject_all(instr_func_on_exit); return } _ => {} }`
fn exit_ops(repo: &str) -> Vec<String> {
    let path = format!("{repo}/src/ir/module/mod.rs");
    let src = std::fs::read_to_string(&path).unwrap_or_else(|_| crate::shape_changed!("{path} not readable"));
    let file = syn::parse_file(&src).unwrap_or_else(|e| crate::shape_changed!("{path} does not parse: {e}"));
    let f = file.items.iter().find_map(|it| match it { syn::Item::Fn(f) if f.sig.ident == "resolve_function_exit" => Some(f), _ => None })
        .unwrap_or_else(|| crate::shape_changed!("fn resolve_function_exit not found"));
    let m = f.block.stmts.iter().find_map(|s| match s { syn::Stmt::Expr(syn::Expr::Match(m), _) if toks(&m.expr) == "op" => Some(m), _ => None })
        .unwrap_or_else(|| crate::shape_changed!("resolve_function_exit: no match on op"));
    if m.arms.len() != 2 || toks(&m.arms[1].pat) != "_" { crate::shape_changed!("resolve_function_exit: match with {} arms", m.arms.len()); }
    let body = toks(&m.arms[0].body);
    if !(body.contains("builder . before_at (") && body.contains("builder . inject_all (instr_func_on_exit)") && body.contains("return")) { crate::shape_changed!("resolve_function_exit: the arm does not inject the exit code before the instruction"); }
    toks(&m.arms[0].pat).split('|').filter(|a| !a.trim().is_empty()).map(|alt| {
        let a = alt.trim();
        let n = a.strip_prefix("Operator :: ").map(|x| x.strip_suffix("{ .. }").unwrap_or(x).trim().to_string());
        match n { Some(x) if x.chars().all(|c| c.is_alphanumeric()) => x, _ => crate::shape_changed!("resolve_function_exit: alternative `{a}`") }
    }).collect()
}

pub fn generate(repo: &str, out: &str) {
    let path = format!("{repo}/src/ir/types.rs");
    let src = std::fs::read_to_string(&path).unwrap_or_else(|_| crate::shape_changed!("{path} not readable"));
    let file = syn::parse_file(&src).unwrap_or_else(|e| crate::shape_changed!("{path} does not parse: {e}"));
    let f = find_fn(&file, "InstrumentationFlag", "add_instr", 3);
    let args: Vec<String> = f.sig.inputs.iter().skip(1).map(|a| match a { syn::FnArg::Typed(t) => toks(&t.pat), o => toks(o) }).collect();
    if args != ["op", "val"] { crate::shape_changed!("add_instr arguments {:?}", args); }
    let m = match f.block.stmts.as_slice() { [syn::Stmt::Expr(syn::Expr::Match(m), _)] if toks(&m.expr) == "self . current_mode" => m, _ => crate::shape_changed!("add_instr is not a single match on self.current_mode") };
    let mut arms: Vec<(String, String)> = vec![];
    let mut none_panics = false;
    for arm in &m.arms {
        let p = toks(&arm.pat);
        if p == "None" {
            none_panics = match &*arm.body { syn::Expr::Block(b) => matches!(b.block.stmts.as_slice(), [syn::Stmt::Macro(m)] if m.mac.path.is_ident("panic")) || matches!(b.block.stmts.as_slice(), [syn::Stmt::Expr(syn::Expr::Macro(m), _)] if m.mac.path.is_ident("panic")), syn::Expr::Macro(m) => m.mac.path.is_ident("panic"), _ => false };
            continue;
        }
        let mode = p.strip_prefix("Some (InstrumentationMode :: ").and_then(|x| x.strip_suffix(")")).unwrap_or_else(|| crate::shape_changed!("arm pattern {p}")).trim().to_string();
        let body = match &*arm.body { syn::Expr::Block(b) => update_block(&b.block), other => crate::shape_changed!("arm body of {mode}: {}", toks(other)) };
        arms.push((mode, body));
    }
    if !none_panics { crate::shape_changed!("add_instr with no current mode does not panic"); }
    let want = ["Before", "After", "Alternate", "SemanticAfter", "BlockEntry", "BlockExit", "BlockAlt"];
    let mut got: Vec<&str> = arms.iter().map(|a| a.0.as_str()).collect(); got.sort();
    let mut w = want.to_vec(); w.sort();
    if got != w { crate::shape_changed!("add_instr arms {:?}", got); }
    let bs = matches_names(find_fn(&file, "InstrumentationFlag", "is_block_style_op", 1));
    let br = matches_names(find_fn(&file, "InstrumentationFlag", "is_branching_op", 1));
    let ex = exit_ops(repo);

    let mut s = String::new();
    writeln!(s, "(* GENERATED by /verif/translator (GenAddInstr) from InstrumentationFlag::add_instr / is_block_style_op / is_branching_op").unwrap();
    writeln!(s, "   (src/ir/types.rs).  Do not edit: regenerated on every check. *)").unwrap();
    writeln!(s, "From Coq Require Import String.\nFrom Coq Require Import List NArith ZArith Bool.\nImport ListNotations.\nFrom Orca Require Import Flat.\n").unwrap();
    writeln!(s, "(* None = the call panics (the injection is rejected at the call); the bool is add_instr's result (`special`) *)").unwrap();
    writeln!(s, "Definition gen_add_instr (op : fop) (m : mode) (x : fop) (f : flags) : option (flags * bool) :=\n  match m with").unwrap();
    for (mode, body) in &arms { writeln!(s, "  | M{mode} =>\n      {body}").unwrap(); }
    writeln!(s, "  end.\n").unwrap();
    let lst = |v: &Vec<String>| v.iter().map(|x| format!("\"{x}\"%string")).collect::<Vec<_>>().join("; ");
    writeln!(s, "Definition gen_block_style_ops : list string := [{}].", lst(&bs)).unwrap();
    writeln!(s, "Definition gen_branching_ops : list string := [{}].", lst(&br)).unwrap();
    writeln!(s, "(* resolve_function_exit (src/ir/module/mod.rs): the operators in front of which a copy of the exit code is injected *)").unwrap();
    writeln!(s, "Definition gen_exit_ops : list string := [{}].", lst(&ex)).unwrap();
    std::fs::write(out, s).expect("write");
}
