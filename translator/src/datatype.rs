// GenDataTypeConv: the value-type conversion tables of src/ir/types.rs as Gallina definitions.
//
//   enum DataType                                   -> Inductive datatype
//   impl From<ValType> for DataType                 -> of_val      : valtype -> option datatype   (None = the arm panics)
//   impl From<wasmparser::StorageType> for DataType -> of_storage  : storage -> option datatype
//   impl From<&DataType> for wasm_encoder::ValType  -> to_val_enc  : datatype -> option valtype   (the direction Module::encode uses)
//   impl From<&DataType> for ValType (wasmparser)   -> to_val_wp   : datatype -> option valtype   (the direction add_global & co. use)
//   impl From<DataType> for wasm_encoder::StorageType -> to_storage : datatype -> option storage
//
// The vocabulary of wasmparser / wasm-encoder value types (valtype, heap, aht, storage) is the hand-written
// coq/Model/ValTypes.v.  Every arm must have one of the few shapes understood below; anything else is
// `shape changed` (exit 3) -- never a silent fallback.
use quote::ToTokens;
use std::fmt::Write as _;

const AHT: [&str; 14] = ["Func", "Extern", "Any", "None", "NoExtern", "NoFunc", "Eq", "Struct", "Array", "I31", "Exn", "NoExn", "Cont", "NoCont"];

fn sc<T>(what: &str, t: impl ToTokens) -> T {
    crate::shape_changed!("{}: `{}`", what, t.to_token_stream().to_string().chars().take(160).collect::<String>())
}
fn last_seg(p: &syn::Path) -> String { p.segments.last().map(|s| s.ident.to_string()).unwrap_or_default() }
fn seg_before_last(p: &syn::Path) -> String { if p.segments.len() >= 2 { p.segments[p.segments.len() - 2].ident.to_string() } else { String::new() } }

#[derive(Clone)]
enum VarKind { Unit, Tuple(usize), Struct(Vec<String>) }
struct DtEnum { variants: Vec<(String, VarKind)> }
impl DtEnum {
    fn kind(&self, n: &str) -> &VarKind {
        match self.variants.iter().find(|(v, _)| v == n) { Some((_, k)) => k, None => crate::shape_changed!("unknown DataType variant {}", n) }
    }
}

fn find_enum(file: &syn::File) -> DtEnum {
    for it in &file.items {
        if let syn::Item::Enum(e) = it {
            if e.ident == "DataType" {
                let mut variants = vec![];
                for v in &e.variants {
                    let k = match &v.fields {
                        syn::Fields::Unit => VarKind::Unit,
                        syn::Fields::Unnamed(u) => {
                            for f in &u.unnamed { if f.ty.to_token_stream().to_string() != "u32" { sc::<()>("DataType tuple field is not u32", &f.ty); } }
                            VarKind::Tuple(u.unnamed.len())
                        }
                        syn::Fields::Named(n) => {
                            for f in &n.named {
                                let t = f.ty.to_token_stream().to_string();
                                if t != "u32" && t != "bool" { sc::<()>("DataType struct field is neither u32 nor bool", &f.ty); }
                            }
                            VarKind::Struct(n.named.iter().map(|f| format!("{}:{}", f.ident.as_ref().unwrap(), f.ty.to_token_stream())).collect())
                        }
                    };
                    variants.push((v.ident.to_string(), k));
                }
                return DtEnum { variants };
            }
        }
    }
    crate::shape_changed!("enum DataType not found in src/ir/types.rs")
}

/// the single `fn from` of `impl <trait_str> for <self_str>` (token strings compared without blanks)
fn find_from<'a>(file: &'a syn::File, trait_str: &str, self_str: &str) -> &'a syn::ImplItemFn {
    let squash = |s: String| s.replace(' ', "");
    for it in &file.items {
        if let syn::Item::Impl(im) = it {
            if let Some((_, tp, _)) = &im.trait_ {
                if squash(tp.to_token_stream().to_string()) == trait_str && squash(im.self_ty.to_token_stream().to_string()) == self_str {
                    for ii in &im.items { if let syn::ImplItem::Fn(f) = ii { if f.sig.ident == "from" { return f; } } }
                }
            }
        }
    }
    crate::shape_changed!("impl {} for {} not found", trait_str, self_str)
}

/// body = one `match <scrutinee> { arms }` expression
fn single_match(b: &syn::Block) -> &syn::ExprMatch {
    if b.stmts.len() != 1 { return sc("function body is not a single match", b); }
    match &b.stmts[0] {
        syn::Stmt::Expr(syn::Expr::Match(m), _) => m,
        _ => sc("function body is not a single match", b),
    }
}

fn is_panic(e: &syn::Expr) -> bool {
    match e {
        syn::Expr::Macro(m) => { let n = last_seg(&m.mac.path); n == "panic" || n == "todo" || n == "unimplemented" || n == "unreachable" }
        syn::Expr::Block(b) if b.block.stmts.len() == 1 => match &b.block.stmts[0] { syn::Stmt::Expr(e, _) => is_panic(e), syn::Stmt::Macro(m) => { let n = last_seg(&m.mac.path); n == "panic" || n == "todo" } , _ => false },
        _ => false,
    }
}

// ---- expressions of the wasmparser / wasm-encoder vocabulary -------------------------------------
fn tr_bool(e: &syn::Expr) -> String {
    match e {
        syn::Expr::Lit(l) => match &l.lit { syn::Lit::Bool(b) => if b.value { "true".into() } else { "false".into() }, _ => sc("bool literal expected", e) },
        syn::Expr::Unary(u) if matches!(u.op, syn::UnOp::Deref(_)) => tr_bool(&u.expr),
        syn::Expr::Path(p) if p.path.segments.len() == 1 => last_seg(&p.path),
        syn::Expr::MethodCall(m) if m.method == "is_nullable" && m.args.is_empty() => "nullable".into(),
        _ => sc("boolean expression not understood", e),
    }
}
fn tr_index(e: &syn::Expr) -> String {
    match e {
        syn::Expr::Unary(u) if matches!(u.op, syn::UnOp::Deref(_)) => tr_index(&u.expr),
        syn::Expr::Path(p) if p.path.segments.len() == 1 => last_seg(&p.path),
        // `ModuleID(idx)` under a deref: the id newtypes of src/ir/id.rs wrap a u32 and Deref to it
        syn::Expr::Call(c) => match &*c.func {
            syn::Expr::Path(p) if last_seg(&p.path).ends_with("ID") && c.args.len() == 1 => tr_index(&c.args[0]),
            _ => sc("index expression not understood", e),
        },
        syn::Expr::Paren(p) => tr_index(&p.expr),
        _ => sc("index expression not understood", e),
    }
}
fn tr_aht(e: &syn::Expr) -> String {
    match e {
        syn::Expr::Path(p) if seg_before_last(&p.path) == "AbstractHeapType" && AHT.contains(&last_seg(&p.path).as_str()) => format!("A{}", last_seg(&p.path)),
        _ => sc("abstract heap type not understood", e),
    }
}
fn tr_heap(e: &syn::Expr) -> String {
    match e {
        syn::Expr::Struct(s) if last_seg(&s.path) == "Abstract" => {
            let mut shared = None; let mut ty = None;
            for f in &s.fields {
                match f.member.to_token_stream().to_string().as_str() { "shared" => shared = Some(tr_bool(&f.expr)), "ty" => ty = Some(tr_aht(&f.expr)), _ => { sc::<()>("HeapType::Abstract field", f); } }
            }
            match (shared, ty) { (Some(s), Some(t)) => format!("(HAbs {} {})", s, t), _ => sc("HeapType::Abstract needs shared and ty", e) }
        }
        syn::Expr::Call(c) => match &*c.func {
            syn::Expr::Path(p) if last_seg(&p.path) == "Concrete" && c.args.len() == 1 => match &c.args[0] {
                syn::Expr::Call(inner) => match &*inner.func {
                    syn::Expr::Path(ip) if seg_before_last(&ip.path) == "UnpackedIndex" && inner.args.len() == 1 => match last_seg(&ip.path).as_str() {
                        "Module" => format!("(HModule {})", tr_index(&inner.args[0])),
                        "RecGroup" => format!("(HRecGroup {})", tr_index(&inner.args[0])),
                        "Id" => format!("(HId {})", tr_index(&inner.args[0])),
                        _ => sc("UnpackedIndex constructor", e),
                    },
                    _ => sc("HeapType::Concrete argument", e),
                },
                // wasm_encoder::HeapType::Concrete(u32): a module-level type index
                a => format!("(HModule {})", tr_index(a)),
            },
            _ => sc("heap type not understood", e),
        },
        _ => sc("heap type not understood", e),
    }
}
fn tr_reftype(e: &syn::Expr) -> (String, String) {
    match e {
        syn::Expr::Struct(s) if last_seg(&s.path) == "RefType" => {
            let mut n = None; let mut h = None;
            for f in &s.fields {
                match f.member.to_token_stream().to_string().as_str() { "nullable" => n = Some(tr_bool(&f.expr)), "heap_type" => h = Some(tr_heap(&f.expr)), _ => { sc::<()>("RefType field", f); } }
            }
            match (n, h) { (Some(n), Some(h)) => (n, h), _ => sc("RefType needs nullable and heap_type", e) }
        }
        // wasmparser's constants: RefType::FUNC / EXTERN are the non-nullable (ref func) / (ref extern),
        // RefType::FUNCREF = FUNC.nullable() and RefType::EXTERNREF = EXTERN.nullable()
        syn::Expr::Path(p) if seg_before_last(&p.path) == "RefType" => match last_seg(&p.path).as_str() {
            "FUNC" => ("false".into(), "(HAbs false AFunc)".into()),
            "EXTERN" => ("false".into(), "(HAbs false AExtern)".into()),
            "FUNCREF" => ("true".into(), "(HAbs false AFunc)".into()),
            "EXTERNREF" => ("true".into(), "(HAbs false AExtern)".into()),
            _ => sc("RefType constant", e),
        },
        // RefType::new(nullable, heap).unwrap()
        syn::Expr::MethodCall(m) if m.method == "unwrap" => match &*m.receiver {
            syn::Expr::Call(c) => match &*c.func {
                syn::Expr::Path(p) if seg_before_last(&p.path) == "RefType" && last_seg(&p.path) == "new" && c.args.len() == 2 => (tr_bool(&c.args[0]), tr_heap(&c.args[1])),
                _ => sc("ref type not understood", e),
            },
            _ => sc("ref type not understood", e),
        },
        _ => sc("ref type not understood", e),
    }
}
/// an expression of type (wasm_encoder | wasmparser)::ValType -> `Some <valtype>` / `None`
fn tr_valtype(e: &syn::Expr) -> String {
    if is_panic(e) { return "None".into(); }
    match e {
        syn::Expr::Path(p) if seg_before_last(&p.path) == "ValType" => match last_seg(&p.path).as_str() {
            "I32" => "Some VI32".into(), "I64" => "Some VI64".into(), "F32" => "Some VF32".into(), "F64" => "Some VF64".into(), "V128" => "Some VV128".into(),
            // wasmparser: `pub const FUNCREF: ValType = ValType::Ref(RefType::FUNCREF)`, RefType::FUNCREF = FUNC.nullable() -- and likewise EXTERNREF
            "FUNCREF" => "Some (VRef true (HAbs false AFunc))".into(),
            "EXTERNREF" => "Some (VRef true (HAbs false AExtern))".into(),
            _ => sc("ValType constant", e),
        },
        syn::Expr::Call(c) => match &*c.func {
            syn::Expr::Path(p) if seg_before_last(&p.path) == "ValType" && last_seg(&p.path) == "Ref" && c.args.len() == 1 => {
                let (n, h) = tr_reftype(&c.args[0]);
                format!("Some (VRef {} {})", n, h)
            }
            _ => sc("value type not understood", e),
        },
        syn::Expr::Block(b) if b.block.stmts.len() == 1 => match &b.block.stmts[0] { syn::Stmt::Expr(e, None) => tr_valtype(e), _ => sc("value type block", e) },
        _ => sc("value type not understood", e),
    }
}

// ---- DataType side ---------------------------------------------------------------------------------
/// pattern `DataType::X`, `DataType::X { f, .. }`, `DataType::X(a)`, or-patterns -> list of Coq patterns
fn tr_dt_pat(p: &syn::Pat, en: &DtEnum, out: &mut Vec<String>) {
    match p {
        syn::Pat::Or(o) => for c in &o.cases { tr_dt_pat(c, en, out); },
        syn::Pat::Path(pp) if seg_before_last(&pp.path) == "DataType" => {
            let v = last_seg(&pp.path);
            if !matches!(en.kind(&v), VarKind::Unit) { sc::<()>("unit pattern for a non-unit variant", p); }
            out.push(format!("DT_{}", v));
        }
        syn::Pat::Ident(pi) if pi.subpat.is_none() => { sc::<()>("binding pattern where a DataType variant is expected", p); }
        syn::Pat::TupleStruct(ts) if seg_before_last(&ts.path) == "DataType" => {
            let v = last_seg(&ts.path);
            let binders: Vec<String> = ts.elems.iter().map(|e| match e {
                syn::Pat::Ident(i) => { let s = i.ident.to_string(); if s.starts_with('_') { "_".into() } else { s } }
                syn::Pat::Wild(_) => "_".into(),
                _ => sc("tuple pattern element", e),
            }).collect();
            match en.kind(&v) { VarKind::Tuple(n) if *n == binders.len() => {}, _ => { sc::<()>("tuple pattern arity", p); } }
            out.push(format!("DT_{} {}", v, binders.join(" ")));
        }
        syn::Pat::Struct(ps) if seg_before_last(&ps.path) == "DataType" => {
            let v = last_seg(&ps.path);
            let fields = match en.kind(&v) { VarKind::Struct(f) => f.clone(), _ => sc("struct pattern for a non-struct variant", p) };
            let mut binders = vec![];
            for f in &fields {
                let fname = f.split(':').next().unwrap().to_string();
                let b = ps.fields.iter().find(|pf| pf.member.to_token_stream().to_string() == fname).map(|pf| match &*pf.pat {
                    syn::Pat::Ident(i) => i.ident.to_string(),
                    syn::Pat::Wild(_) => "_".into(),
                    o => sc("struct pattern field", o),
                }).unwrap_or_else(|| "_".into());
                binders.push(b);
            }
            out.push(format!("DT_{} {}", v, binders.join(" ")));
        }
        _ => sc("DataType pattern not understood", p),
    }
}
/// an expression of type DataType -> `Some (DT_..)` / `None`
fn tr_datatype(e: &syn::Expr, en: &DtEnum) -> String {
    if is_panic(e) { return "None".into(); }
    match e {
        syn::Expr::Path(p) if seg_before_last(&p.path) == "DataType" => {
            let v = last_seg(&p.path);
            if !matches!(en.kind(&v), VarKind::Unit) { sc::<()>("unit constructor for a non-unit variant", e); }
            format!("Some DT_{}", v)
        }
        syn::Expr::Call(c) => match &*c.func {
            syn::Expr::Path(p) if seg_before_last(&p.path) == "DataType" => {
                let v = last_seg(&p.path);
                match en.kind(&v) { VarKind::Tuple(n) if *n == c.args.len() => {}, _ => { sc::<()>("tuple constructor arity", e); } }
                format!("Some (DT_{} {})", v, c.args.iter().map(tr_index).collect::<Vec<_>>().join(" "))
            }
            // DataType::from(val) inside From<StorageType>
            _ => sc("DataType expression not understood", e),
        },
        syn::Expr::Struct(s) if seg_before_last(&s.path) == "DataType" => {
            let v = last_seg(&s.path);
            let fields = match en.kind(&v) { VarKind::Struct(f) => f.clone(), _ => sc("struct constructor for a non-struct variant", e) };
            let mut args = vec![];
            for f in &fields {
                let mut it = f.split(':');
                let (fname, fty) = (it.next().unwrap().trim().to_string(), it.next().unwrap().trim().to_string());
                let fe = s.fields.iter().find(|x| x.member.to_token_stream().to_string() == fname).unwrap_or_else(|| sc("missing field in DataType constructor", e));
                args.push(if fty == "bool" { tr_bool(&fe.expr) } else { tr_index(&fe.expr) });
            }
            format!("Some (DT_{} {})", v, args.join(" "))
        }
        // { if ref_type.is_nullable() { A } else { B } }
        syn::Expr::Block(b) if b.block.stmts.len() == 1 => match &b.block.stmts[0] { syn::Stmt::Expr(e, None) => tr_datatype(e, en), _ => sc("DataType block", e) },
        syn::Expr::If(i) => {
            let c = tr_bool(&i.cond);
            let t = match i.then_branch.stmts.as_slice() { [syn::Stmt::Expr(e, None)] => tr_datatype(e, en), _ => sc("then branch", i) };
            let el = match &i.else_branch { Some((_, e)) => tr_datatype(e, en), None => sc("if without else", i) };
            format!("(if {} then {} else {})", c, t, el)
        }
        _ => sc("DataType expression not understood", e),
    }
}

fn gen_of_val(f: &syn::ImplItemFn, en: &DtEnum, o: &mut String) {
    let m = single_match(&f.block);
    o.push_str("Definition of_val (v : valtype) : option datatype :=\n  match v with\n");
    let mut seen_ref = false;
    for arm in &m.arms {
        match &arm.pat {
            syn::Pat::Path(p) if seg_before_last(&p.path) == "ValType" => {
                let n = last_seg(&p.path);
                if !["I32", "I64", "F32", "F64", "V128"].contains(&n.as_str()) { sc::<()>("ValType arm", &arm.pat); }
                let _ = writeln!(o, "  | V{} => {}", n, tr_datatype(&arm.body, en));
            }
            syn::Pat::TupleStruct(ts) if seg_before_last(&ts.path) == "ValType" && last_seg(&ts.path) == "Ref" => {
                seen_ref = true;
                // match ref_type.heap_type() { HeapType::Abstract { shared: _, ty } => match ty {..}, HeapType::Concrete(u) => match u {..} }
                let hm = match &*arm.body { syn::Expr::Match(hm) => hm, b => sc("ValType::Ref arm is not a match on the heap type", b) };
                match &*hm.expr { syn::Expr::MethodCall(mc) if mc.method == "heap_type" => {}, s => { sc::<()>("scrutinee of the heap-type match", s); } }
                o.push_str("  | VRef nullable h =>\n      match h with\n");
                let mut concrete: Vec<(String, String)> = vec![];
                for ha in &hm.arms {
                    match &ha.pat {
                        syn::Pat::Struct(ps) if last_seg(&ps.path) == "Abstract" => {
                            // which fields are bound?
                            let shared_used = ps.fields.iter().any(|pf| pf.member.to_token_stream().to_string() == "shared" && !matches!(&*pf.pat, syn::Pat::Wild(_)));
                            if shared_used { sc::<()>("HeapType::Abstract: `shared` is now bound (the model drops it)", &ha.pat); }
                            let am = match &*ha.body { syn::Expr::Match(am) => am, b => sc("Abstract arm is not a match on the abstract heap type", b) };
                            o.push_str("      | HAbs _ t =>\n          match t with\n");
                            let mut covered = vec![];
                            for aa in &am.arms {
                                let name = match &aa.pat { syn::Pat::Path(pp) if seg_before_last(&pp.path) == "AbstractHeapType" => last_seg(&pp.path), p => sc("abstract heap type pattern", p) };
                                if !AHT.contains(&name.as_str()) { sc::<()>("abstract heap type unknown to Model/ValTypes.v", &aa.pat); }
                                covered.push(name.clone());
                                let _ = writeln!(o, "          | A{} => {}", name, tr_datatype(&aa.body, en));
                            }
                            for a in AHT { if !covered.contains(&a.to_string()) { crate::shape_changed!("abstract heap type {} has no arm", a); } }
                            o.push_str("          end\n");
                        }
                        syn::Pat::TupleStruct(ts2) if last_seg(&ts2.path) == "Concrete" => {
                            let cm = match &*ha.body { syn::Expr::Match(cm) => cm, b => sc("Concrete arm is not a match on the unpacked index", b) };
                            for ca in &cm.arms {
                                match &ca.pat {
                                    syn::Pat::TupleStruct(ts3) if seg_before_last(&ts3.path) == "UnpackedIndex" => {
                                        let b = match ts3.elems.first() { Some(syn::Pat::Ident(i)) => { let s = i.ident.to_string(); if s.starts_with('_') { "_".to_string() } else { s } }, _ => "_".to_string() };
                                        concrete.push((format!("H{} {}", last_seg(&ts3.path), b), tr_datatype(&ca.body, en)));
                                    }
                                    p => { sc::<()>("unpacked index pattern", p); }
                                }
                            }
                        }
                        p => { sc::<()>("heap type pattern", p); }
                    }
                }
                for want in ["HModule", "HRecGroup", "HId"] {
                    match concrete.iter().find(|(p, _)| p.starts_with(want)) {
                        Some((p, b)) => { let _ = writeln!(o, "      | {} => {}", p, b); }
                        None => crate::shape_changed!("no arm for UnpackedIndex::{}", &want[1..]),
                    }
                }
                o.push_str("      end\n");
            }
            p => { sc::<()>("arm of From<ValType> for DataType", p); }
        }
    }
    if !seen_ref { crate::shape_changed!("From<ValType> for DataType has no ValType::Ref arm"); }
    o.push_str("  end.\n");
}

fn gen_to_val(f: &syn::ImplItemFn, en: &DtEnum, name: &str, o: &mut String) {
    let m = single_match(&f.block);
    let _ = writeln!(o, "Definition {} (d : datatype) : option valtype :=\n  match d with", name);
    let mut covered: Vec<String> = vec![];
    for arm in &m.arms {
        let mut pats = vec![];
        tr_dt_pat(&arm.pat, en, &mut pats);
        let body = tr_valtype(&arm.body);
        for p in pats {
            covered.push(p.split(' ').next().unwrap().to_string());
            let _ = writeln!(o, "  | {} => {}", p, body);
        }
    }
    for (v, _) in &en.variants { if !covered.contains(&format!("DT_{}", v)) { crate::shape_changed!("{}: DataType::{} has no arm", name, v); } }
    o.push_str("  end.\n");
}

pub fn generate(repo: &str, out: &str) {
    let src = std::fs::read_to_string(format!("{repo}/src/ir/types.rs")).unwrap_or_else(|_| crate::shape_changed!("cannot read src/ir/types.rs"));
    let file = syn::parse_file(&src).unwrap_or_else(|e| crate::shape_changed!("src/ir/types.rs does not parse: {}", e));
    let en = find_enum(&file);
    let mut o = String::new();
    o.push_str("(* GENERATED by `xlate GenDataTypeConv` from src/ir/types.rs -- do not edit *)\nFrom Coq Require Import List NArith Bool.\nFrom Orca Require Import Model.ValTypes.\nImport ListNotations.\nLocal Open Scope N_scope.\n\n");
    o.push_str("(* enum DataType *)\nInductive datatype :=\n");
    for (v, k) in &en.variants {
        match k {
            VarKind::Unit => { let _ = writeln!(o, "| DT_{}", v); }
            VarKind::Tuple(n) => { let _ = writeln!(o, "| DT_{} {}", v, (0..*n).map(|i| format!("(a{} : N)", i)).collect::<Vec<_>>().join(" ")); }
            VarKind::Struct(fs) => {
                let args: Vec<String> = fs.iter().map(|f| { let mut it = f.split(':'); let n = it.next().unwrap().trim(); let t = it.next().unwrap().trim(); format!("({} : {})", n, if t == "bool" { "bool" } else { "N" }) }).collect();
                let _ = writeln!(o, "| DT_{} {}", v, args.join(" "));
            }
        }
    }
    o.push_str(".\n\n(* impl From<ValType> for DataType; None = the arm panics *)\n");
    gen_of_val(find_from(&file, "From<ValType>", "DataType"), &en, &mut o);
    o.push_str("\n(* impl From<&DataType> for wasm_encoder::ValType -- used by Module::encode (types, locals) *)\n");
    gen_to_val(find_from(&file, "From<&DataType>", "wasm_encoder::ValType"), &en, "to_val_enc", &mut o);
    o.push_str("\n(* impl From<&DataType> for wasmparser::ValType -- used by add_global / add_imported_global and BlockType *)\n");
    gen_to_val(find_from(&file, "From<&DataType>", "ValType"), &en, "to_val_wp", &mut o);
    // storage types
    {
        let f = find_from(&file, "From<wasmparser::StorageType>", "DataType");
        let m = single_match(&f.block);
        o.push_str("\n(* impl From<wasmparser::StorageType> for DataType *)\nDefinition of_storage (s : storage) : option datatype :=\n  match s with\n");
        let mut seen = vec![];
        for arm in &m.arms {
            match &arm.pat {
                syn::Pat::Path(p) if seg_before_last(&p.path) == "StorageType" && (last_seg(&p.path) == "I8" || last_seg(&p.path) == "I16") => {
                    seen.push(last_seg(&p.path));
                    let _ = writeln!(o, "  | S{} => {}", last_seg(&p.path), tr_datatype(&arm.body, &en));
                }
                syn::Pat::TupleStruct(ts) if seg_before_last(&ts.path) == "StorageType" && last_seg(&ts.path) == "Val" => {
                    seen.push("Val".into());
                    // DataType::from(val)
                    let ok = matches!(&*arm.body, syn::Expr::Call(c) if matches!(&*c.func, syn::Expr::Path(p) if seg_before_last(&p.path) == "DataType" && last_seg(&p.path) == "from"));
                    if !ok { sc::<()>("StorageType::Val arm is not DataType::from(val)", &arm.body); }
                    o.push_str("  | SVal v => of_val v\n");
                }
                p => { sc::<()>("arm of From<StorageType> for DataType", p); }
            }
        }
        if seen.len() != 3 { crate::shape_changed!("From<StorageType> for DataType: expected arms I8, I16, Val"); }
        o.push_str("  end.\n");
        let f = find_from(&file, "From<DataType>", "wasm_encoder::StorageType");
        let m = single_match(&f.block);
        o.push_str("\n(* impl From<DataType> for wasm_encoder::StorageType *)\nDefinition to_storage (d : datatype) : option storage :=\n  match d with\n");
        let mut wild = false;
        for arm in &m.arms {
            match &arm.pat {
                syn::Pat::Path(p) if seg_before_last(&p.path) == "DataType" => {
                    let target = match &*arm.body { syn::Expr::Path(bp) if seg_before_last(&bp.path) == "StorageType" => last_seg(&bp.path), b => sc("storage arm body", b) };
                    let _ = writeln!(o, "  | DT_{} => Some S{}", last_seg(&p.path), target);
                }
                syn::Pat::Wild(_) => {
                    wild = true;
                    // wasm_encoder::StorageType::Val(wasm_encoder::ValType::from(&value))
                    let s = arm.body.to_token_stream().to_string().replace(' ', "");
                    if s != "wasm_encoder::StorageType::Val(wasm_encoder::ValType::from(&value))" { sc::<()>("wildcard arm of From<DataType> for StorageType", &arm.body); }
                    o.push_str("  | _ => match to_val_enc d with Some v => Some (SVal v) | None => None end\n");
                }
                p => { sc::<()>("arm of From<DataType> for StorageType", p); }
            }
        }
        if !wild { crate::shape_changed!("From<DataType> for StorageType: no wildcard arm"); }
        o.push_str("  end.\n");
    }
    std::fs::write(out, o).expect("write output");
}
