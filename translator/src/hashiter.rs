// GenHashIter: the syntactic inventory of hash-order (and other non-input) dependence on the encode path of /repo.
//
// Files scanned (test modules excluded): src/ir/module/*.rs (except test.rs), src/ir/function.rs, src/ir/types.rs,
// src/ir/wrappers.rs, src/ir/helpers.rs  -- everything Module::encode_internal can reach inside the crate.
//
// (1) gen_hash_decls : every *declared* binding whose written type mentions `HashMap` / `HashSet`:
//       struct fields, fn parameters, fn return types ("<return>"), `let x : T`, and `let x = HashMap::..(..)`,
//     keyed by (file, owner = struct or function, binding name, normalised type text).
// (2) gen_hash_sites : every iteration over a hash-typed value, keyed by
//       (file, function, normalised receiver expression text, method, number of occurrences in that function)
//     -- never by line.  Methods: iter iter_mut into_iter values values_mut keys into_keys into_values drain retain,
//     and "for" for `for pat in <hash-typed expr>` without an explicit method.
//     An expression is *hash-typed* by a syntactic over-approximation (taint): a declared binding of (1); a field access
//     whose member name is a hash-typed struct field of (1); a call of a function / method of these files whose written
//     return type mentions HashMap / HashSet (so `let func_mapping = if .. { Self::recalculate_ids(..) } else
//     { Self::get_mapping_generic(..) }` is hash-typed: `if` / `match` / block expressions take the type of their tails);
//     any method call / index / reference / deref / `?` on a hash-typed expression (so `m.remove(&k)`, `m.get(&k).unwrap()`, `m.entry(k).or_insert(..)` stay hash-typed: the
//     values of a map may be maps again, as in resolve_on_end); identifiers bound by a `let` / `if let` / `while let` /
//     `match` / `for` pattern from a hash-typed expression; parameters of closures passed to a method of a hash-typed
//     receiver; a method call one of whose closure arguments has a hash-typed body (`stack.last().and_then(|k| m.remove(k))`).  The over-approximation lists some iterations over Vec values of maps; the hand-written classification
//     says so.  It cannot miss an iteration over a HashMap whose type is written somewhere in these files or that is
//     derived from one inside one function body; a HashMap returned by a call into *another crate / another file outside
//     the scanned set* and bound without a type annotation would be missed.
// (3) gen_other_sources : every use of std::time / std::thread / std::env / RandomState / SystemTime / Instant, every
//     cast to a raw pointer type and every pointer-to-integer cast (`.. as *const T`, `p as usize` with p a pointer cast
//     or `.as_ptr()` / `.as_mut_ptr()` / `.addr()`), keyed by (file, function or "<use>", kind, text).
// The committed hand-written coq/Model/HashIterSites.v must list exactly these keys, each iteration with a status.
use quote::ToTokens;
use std::collections::{BTreeMap, BTreeSet};
use std::fmt::Write as _;
use syn::visit::Visit;

const ITER_METHODS: [&str; 10] = ["iter", "iter_mut", "into_iter", "values", "values_mut", "keys", "into_keys", "into_values", "drain", "retain"];

fn norm(ts: impl ToTokens) -> String {
    let s = ts.to_token_stream().to_string();
    let mut o = String::new();
    let mut prev_space = false;
    for c in s.chars() {
        if c.is_whitespace() { prev_space = true; continue; }
        if prev_space && o.chars().last().map_or(false, |p| (p.is_alphanumeric() || p == '_') && (c.is_alphanumeric() || c == '_')) { o.push(' '); }
        prev_space = false;
        o.push(c);
    }
    let o: String = o.chars().map(|c| if c == '"' { '\'' } else { c }).collect();
    let o = o.replace("(*", "( *").replace("*)", "* )");
    if o.chars().count() > 110 { let t: String = o.chars().take(107).collect(); format!("{}...", t) } else { o }
}
fn mentions_hash(ts: impl ToTokens) -> bool {
    ts.to_token_stream().into_iter().any(|t| tt_mentions_hash(&t))
}
fn tt_mentions_hash(t: &proc_macro2::TokenTree) -> bool {
    match t {
        proc_macro2::TokenTree::Ident(i) => { let s = i.to_string(); s == "HashMap" || s == "HashSet" }
        proc_macro2::TokenTree::Group(g) => g.stream().into_iter().any(|t| tt_mentions_hash(&t)),
        _ => false,
    }
}
fn is_test_attr(attrs: &[syn::Attribute]) -> bool {
    attrs.iter().any(|a| {
        let s = a.to_token_stream().to_string().replace(' ', "");
        s.contains("cfg(test)") || s == "#[test]"
    })
}
fn type_name(t: &syn::Type) -> Option<String> {
    match t {
        syn::Type::Path(p) => p.path.segments.last().map(|s| s.ident.to_string()),
        syn::Type::Reference(r) => type_name(&r.elem),
        _ => None,
    }
}

struct FnInfo { file: String, disp: String, sig: syn::Signature, block: syn::Block }

#[derive(Default)]
struct Collected {
    fns: Vec<FnInfo>,
    decls: Vec<(String, String, String, String)>,   // (file, owner, name, type)
    hash_fields: BTreeSet<String>,
    hash_fns: BTreeSet<String>,                     // names of functions / methods whose written return type mentions HashMap / HashSet
    other: Vec<(String, String, String, String)>,   // (file, fn, kind, text)
}

fn collect_items(items: &[syn::Item], file: &str, out: &mut Collected) {
    for it in items {
        match it {
            syn::Item::Fn(f) => {
                if is_test_attr(&f.attrs) { continue; }
                out.fns.push(FnInfo { file: file.into(), disp: f.sig.ident.to_string(), sig: f.sig.clone(), block: (*f.block).clone() });
            }
            syn::Item::Impl(im) => {
                if is_test_attr(&im.attrs) { continue; }
                let st = type_name(&im.self_ty).unwrap_or_else(|| norm(&im.self_ty));
                let tr = im.trait_.as_ref().map(|(_, p, _)| norm(p));
                for ii in &im.items {
                    if let syn::ImplItem::Fn(f) = ii {
                        if is_test_attr(&f.attrs) { continue; }
                        let base = format!("{}::{}", st, f.sig.ident);
                        let disp = match &tr { Some(t) => format!("{} [{}]", base, t), None => base };
                        out.fns.push(FnInfo { file: file.into(), disp, sig: f.sig.clone(), block: f.block.clone() });
                    }
                }
            }
            syn::Item::Trait(t) => {
                for ti in &t.items {
                    if let syn::TraitItem::Fn(f) = ti {
                        if let Some(b) = &f.default {
                            out.fns.push(FnInfo { file: file.into(), disp: format!("{}::{}", t.ident, f.sig.ident), sig: f.sig.clone(), block: b.clone() });
                        }
                    }
                }
            }
            syn::Item::Struct(s) => {
                if is_test_attr(&s.attrs) { continue; }
                for (n, fld) in s.fields.iter().enumerate() {
                    if mentions_hash(&fld.ty) {
                        let name = fld.ident.as_ref().map(|i| i.to_string()).unwrap_or_else(|| n.to_string());
                        out.hash_fields.insert(name.clone());
                        out.decls.push((file.into(), format!("struct {}", s.ident), name, norm(&fld.ty)));
                    }
                }
            }
            syn::Item::Enum(e) => {
                for v in &e.variants {
                    for (n, fld) in v.fields.iter().enumerate() {
                        if mentions_hash(&fld.ty) {
                            let name = fld.ident.as_ref().map(|i| i.to_string()).unwrap_or_else(|| n.to_string());
                            out.hash_fields.insert(name.clone());
                            out.decls.push((file.into(), format!("enum {}::{}", e.ident, v.ident), name, norm(&fld.ty)));
                        }
                    }
                }
            }
            syn::Item::Use(u) => {
                let s = norm(u);
                for (kind, pat) in [("std::time", "std::time"), ("std::thread", "std::thread"), ("std::env", "std::env"), ("RandomState", "RandomState"), ("std::time", "SystemTime"), ("std::time", "Instant")] {
                    if s.contains(pat) { out.other.push((file.into(), "<use>".into(), kind.into(), s.clone())); break; }
                }
            }
            syn::Item::Mod(m) => {
                if is_test_attr(&m.attrs) { continue; }
                if let Some((_, items)) = &m.content { collect_items(items, file, out); }
            }
            _ => {}
        }
    }
}

// ---------------------------------------------------------------------------------------------
struct Scan<'a> {
    hash_fields: &'a BTreeSet<String>,
    hash_fns: &'a BTreeSet<String>,
    tainted: BTreeSet<String>,
    sites: Vec<(String, String)>,                 // (receiver text, method)
    decls: Vec<(String, String)>,                 // (name, type text)
    other: Vec<(String, String)>,                 // (kind, text)
}

fn pat_idents(p: &syn::Pat, out: &mut Vec<String>) {
    match p {
        syn::Pat::Ident(i) => { out.push(i.ident.to_string()); if let Some((_, sp)) = &i.subpat { pat_idents(sp, out); } }
        syn::Pat::Tuple(t) => for e in &t.elems { pat_idents(e, out); },
        syn::Pat::TupleStruct(t) => for e in &t.elems { pat_idents(e, out); },
        syn::Pat::Struct(s) => for f in &s.fields { pat_idents(&f.pat, out); },
        syn::Pat::Reference(r) => pat_idents(&r.pat, out),
        syn::Pat::Paren(r) => pat_idents(&r.pat, out),
        syn::Pat::Slice(s) => for e in &s.elems { pat_idents(e, out); },
        syn::Pat::Or(o) => for e in &o.cases { pat_idents(e, out); },
        syn::Pat::Type(t) => pat_idents(&t.pat, out),
        _ => {}
    }
}
fn pat_declared_type(p: &syn::Pat) -> Option<&syn::Type> {
    if let syn::Pat::Type(t) = p { Some(&t.ty) } else { None }
}
fn strip(e: &syn::Expr) -> &syn::Expr {
    match e {
        syn::Expr::Reference(r) => strip(&r.expr),
        syn::Expr::Paren(p) => strip(&p.expr),
        syn::Expr::Group(g) => strip(&g.expr),
        syn::Expr::Unary(u) if matches!(u.op, syn::UnOp::Deref(_)) => strip(&u.expr),
        _ => e,
    }
}
fn is_ptr_type(t: &syn::Type) -> bool { matches!(t, syn::Type::Ptr(_)) }
fn is_int_type(t: &syn::Type) -> bool {
    type_name(t).map_or(false, |n| matches!(n.as_str(), "usize" | "isize" | "u64" | "i64" | "u32" | "i32" | "u128" | "i128" | "u16" | "i16" | "u8" | "i8"))
}

impl<'a> Scan<'a> {
    fn is_hash(&self, e: &syn::Expr) -> bool {
        match e {
            syn::Expr::Path(p) => {
                if p.path.segments.len() == 1 { self.tainted.contains(&p.path.segments[0].ident.to_string()) } else { false }
            }
            syn::Expr::Field(f) => {
                let m = match &f.member { syn::Member::Named(i) => i.to_string(), syn::Member::Unnamed(i) => i.index.to_string() };
                self.hash_fields.contains(&m) || self.is_hash(&f.base)
            }
            syn::Expr::Reference(r) => self.is_hash(&r.expr),
            syn::Expr::Paren(p) => self.is_hash(&p.expr),
            syn::Expr::Group(g) => self.is_hash(&g.expr),
            syn::Expr::Unary(u) => self.is_hash(&u.expr),
            syn::Expr::Try(t) => self.is_hash(&t.expr),
            syn::Expr::MethodCall(m) => {
                self.is_hash(&m.receiver)
                    || self.hash_fns.contains(&m.method.to_string())
                    // a closure argument that returns a hash-typed value (`opt.and_then(|k| map.remove(k))`, `.map(..)`, `.unwrap_or_else(..)`)
                    || m.args.iter().any(|a| matches!(a, syn::Expr::Closure(c) if self.is_hash(&c.body)))
            }
            syn::Expr::Index(i) => self.is_hash(&i.expr),
            syn::Expr::Call(c) => {
                mentions_hash(&c.func)
                    || matches!(&*c.func, syn::Expr::Path(p) if p.path.segments.last().map_or(false, |s| self.hash_fns.contains(&s.ident.to_string())))
            }
            syn::Expr::Cast(c) => self.is_hash(&c.expr),
            syn::Expr::If(i) => self.block_is_hash(&i.then_branch) || i.else_branch.as_ref().map_or(false, |(_, e)| self.is_hash(e)),
            syn::Expr::Block(b) => self.block_is_hash(&b.block),
            syn::Expr::Unsafe(b) => self.block_is_hash(&b.block),
            syn::Expr::Match(m) => m.arms.iter().any(|a| self.is_hash(&a.body)),
            _ => false,
        }
    }
    fn block_is_hash(&self, b: &syn::Block) -> bool {
        match b.stmts.last() { Some(syn::Stmt::Expr(e, None)) => self.is_hash(e), _ => false }
    }
    fn taint_pat(&mut self, p: &syn::Pat) {
        let mut v = vec![];
        pat_idents(p, &mut v);
        for i in v { self.tainted.insert(i); }
    }
    fn macro_tokens(&mut self, m: &syn::Macro) {
        use syn::parse::Parser;
        let parser = syn::punctuated::Punctuated::<syn::Expr, syn::Token![,]>::parse_terminated;
        if let Ok(exprs) = parser.parse2(m.tokens.clone()) {
            for e in exprs.iter() { self.visit_expr(e); }
        }
    }
    fn path_other(&mut self, p: &syn::Path) {
        let segs: Vec<String> = p.segments.iter().map(|s| s.ident.to_string()).collect();
        for w in segs.windows(2) {
            if w[0] == "std" && (w[1] == "time" || w[1] == "thread" || w[1] == "env") { self.other.push((format!("std::{}", w[1]), norm(p))); return; }
        }
        for s in &segs {
            if s == "RandomState" { self.other.push(("RandomState".into(), norm(p))); return; }
            if s == "SystemTime" || s == "Instant" { self.other.push(("std::time".into(), norm(p))); return; }
        }
        if segs.len() >= 2 && (segs[0] == "thread" || segs[0] == "env" || segs[0] == "time") { self.other.push((format!("std::{}", segs[0]), norm(p))); }
    }
}

impl<'a, 'ast> Visit<'ast> for Scan<'a> {
    fn visit_local(&mut self, l: &'ast syn::Local) {
        if let Some(init) = &l.init {
            self.visit_expr(&init.expr);
            if let Some((_, d)) = &init.diverge { self.visit_expr(d); }
        }
        let declared = pat_declared_type(&l.pat).map_or(false, |t| mentions_hash(t));
        let by_init = l.init.as_ref().map_or(false, |i| self.is_hash(&i.expr));
        if declared || l.init.as_ref().map_or(false, |i| matches!(&*i.expr, syn::Expr::Call(c) if mentions_hash(&c.func))) {
            let mut v = vec![];
            pat_idents(&l.pat, &mut v);
            let ty = match pat_declared_type(&l.pat) { Some(t) => norm(t), None => norm(&l.init.as_ref().unwrap().expr) };
            for i in v { self.decls.push((i, ty.clone())); }
        }
        if declared || by_init { self.taint_pat(&l.pat); }
    }
    fn visit_expr_let(&mut self, l: &'ast syn::ExprLet) {
        self.visit_expr(&l.expr);
        if self.is_hash(&l.expr) { self.taint_pat(&l.pat); }
    }
    fn visit_expr_match(&mut self, m: &'ast syn::ExprMatch) {
        self.visit_expr(&m.expr);
        let h = self.is_hash(&m.expr);
        for a in &m.arms {
            if h { self.taint_pat(&a.pat); }
            if let Some((_, g)) = &a.guard { self.visit_expr(g); }
            self.visit_expr(&a.body);
        }
    }
    fn visit_expr_for_loop(&mut self, f: &'ast syn::ExprForLoop) {
        self.visit_expr(&f.expr);
        if self.is_hash(&f.expr) {
            let inner = strip(&f.expr);
            let explicit = matches!(inner, syn::Expr::MethodCall(m) if ITER_METHODS.contains(&m.method.to_string().as_str()) && self.is_hash(&m.receiver));
            // `for x in m.iter().enumerate()` etc.: the method-call visitor has recorded the inner `.iter()`
            let via_adaptor = matches!(inner, syn::Expr::MethodCall(_));
            if !explicit && !via_adaptor { self.sites.push((norm(&f.expr), "for".into())); }
            self.taint_pat(&f.pat);
        }
        self.visit_block(&f.body);
    }
    fn visit_expr_method_call(&mut self, m: &'ast syn::ExprMethodCall) {
        let name = m.method.to_string();
        let recv_hash = self.is_hash(&m.receiver);
        if recv_hash && ITER_METHODS.contains(&name.as_str()) {
            self.sites.push((norm(&m.receiver), name.clone()));
        }
        if recv_hash {
            for a in m.args.iter() {
                if let syn::Expr::Closure(c) = a { for p in c.inputs.iter() { self.taint_pat(p); } }
            }
        }
        syn::visit::visit_expr_method_call(self, m);
    }
    fn visit_expr_cast(&mut self, c: &'ast syn::ExprCast) {
        if is_ptr_type(&c.ty) {
            self.other.push(("ptr-cast".into(), norm(c)));
        } else if is_int_type(&c.ty) {
            let inner = strip(&c.expr);
            let from_ptr = match inner {
                syn::Expr::Cast(c2) => is_ptr_type(&c2.ty),
                syn::Expr::MethodCall(m) => matches!(m.method.to_string().as_str(), "as_ptr" | "as_mut_ptr" | "addr" | "expose_addr" | "expose_provenance"),
                _ => false,
            };
            if from_ptr { self.other.push(("ptr-to-int".into(), norm(c))); }
        }
        syn::visit::visit_expr_cast(self, c);
    }
    fn visit_path(&mut self, p: &'ast syn::Path) {
        self.path_other(p);
        syn::visit::visit_path(self, p);
    }
    fn visit_macro(&mut self, m: &'ast syn::Macro) {
        self.macro_tokens(m);
    }
}

fn coq_str(s: &str) -> String {
    let mut o = String::from("\"");
    for c in s.chars() {
        if c == '"' { o.push_str("\"\""); } else if c.is_ascii() && !c.is_ascii_control() { o.push(c); } else { o.push('?'); }
    }
    o.push('"');
    o
}

pub fn scanned_files(root: &std::path::Path) -> Vec<std::path::PathBuf> {
    let mut v: Vec<std::path::PathBuf> = vec![];
    let md = root.join("src/ir/module");
    let mut entries: Vec<_> = std::fs::read_dir(&md).unwrap_or_else(|_| crate::shape_changed!("cannot read {}", md.display())).map(|e| e.unwrap().path()).collect();
    entries.sort();
    for p in entries {
        if p.is_dir() { crate::shape_changed!("unexpected directory {} (the inventory lists src/ir/module/*.rs only)", p.display()); }
        if p.extension().map_or(true, |e| e != "rs") { continue; }
        let base = p.file_name().unwrap().to_string_lossy().to_string();
        if base == "test.rs" || base == "tests.rs" { continue; }
        v.push(p);
    }
    for f in ["src/ir/function.rs", "src/ir/types.rs", "src/ir/wrappers.rs", "src/ir/helpers.rs"] {
        let p = root.join(f);
        if !p.exists() { crate::shape_changed!("{} is missing", f); }
        v.push(p);
    }
    v
}

pub fn generate(repo: &str, out: &str) {
    let root = std::path::Path::new(repo);
    let mut col = Collected::default();
    let files = scanned_files(root);
    for p in &files {
        let rel = p.strip_prefix(root).unwrap().to_string_lossy().to_string();
        let src = std::fs::read_to_string(p).unwrap();
        let file = syn::parse_file(&src).unwrap_or_else(|e| crate::shape_changed!("{} does not parse: {}", rel, e));
        collect_items(&file.items, &rel, &mut col);
    }
    // the encode entry point must still be where the inventory assumes it is
    if !col.fns.iter().any(|f| f.file == "src/ir/module/mod.rs" && f.disp == "Module::encode_internal") {
        crate::shape_changed!("Module::encode_internal not found in src/ir/module/mod.rs");
    }
    let hash_fields = col.hash_fields.clone();
    let hash_fns: BTreeSet<String> = col.fns.iter().filter(|f| matches!(&f.sig.output, syn::ReturnType::Type(_, t) if mentions_hash(t))).map(|f| f.sig.ident.to_string()).collect();
    col.hash_fns = hash_fns.clone();
    let mut sites: BTreeMap<(String, String, String, String), u32> = BTreeMap::new();
    let mut disp_count: BTreeMap<(String, String), u32> = BTreeMap::new();
    let mut fns_sorted: Vec<&FnInfo> = col.fns.iter().collect();
    fns_sorted.sort_by_key(|f| (f.file.clone(), f.disp.clone()));
    let mut decls = col.decls.clone();
    let mut other = col.other.clone();
    for f in fns_sorted {
        let c = disp_count.entry((f.file.clone(), f.disp.clone())).or_default();
        *c += 1;
        let disp = if *c > 1 { format!("{} #{}", f.disp, c) } else { f.disp.clone() };
        let mut sc = Scan { hash_fields: &hash_fields, hash_fns: &hash_fns, tainted: BTreeSet::new(), sites: vec![], decls: vec![], other: vec![] };
        for a in f.sig.inputs.iter() {
            if let syn::FnArg::Typed(pt) = a {
                if mentions_hash(&pt.ty) {
                    let mut v = vec![];
                    pat_idents(&pt.pat, &mut v);
                    for i in v { sc.tainted.insert(i.clone()); decls.push((f.file.clone(), format!("fn {}", disp), i, norm(&pt.ty))); }
                }
                sc.visit_type(&pt.ty);
            }
        }
        if let syn::ReturnType::Type(_, t) = &f.sig.output {
            if mentions_hash(t) { decls.push((f.file.clone(), format!("fn {}", disp), "<return>".into(), norm(t))); }
            sc.visit_type(t);
        }
        sc.visit_block(&f.block);
        for (n, t) in sc.decls { decls.push((f.file.clone(), format!("fn {}", disp), n, t)); }
        for (r, m) in sc.sites { *sites.entry((f.file.clone(), disp.clone(), r, m)).or_default() += 1; }
        for (k, t) in sc.other { other.push((f.file.clone(), disp.clone(), k, t)); }
    }
    decls.sort();
    decls.dedup();
    other.sort();
    let mut o = String::new();
    o.push_str("(* GENERATED by `xlate GenHashIter` from <repo>/src -- do not edit.\n   Hash-typed bindings, iterations over hash-typed values and other sources of run-to-run variation in the files of the\n   encode path; see translator/src/hashiter.rs. *)\n");
    o.push_str("From Coq Require Import List NArith String.\nImport ListNotations.\nOpen Scope string_scope.\n");
    o.push_str("Record hsite := mkHS { h_file : string; h_fn : string; h_recv : string; h_method : string; h_count : N }.\n");
    let _ = writeln!(o, "(* {} files, {} functions, {} hash-typed declarations, {} iteration sites, {} other sources *)", files.len(), col.fns.len(), decls.len(), sites.len(), other.len());
    o.push_str("Definition gen_files : list string := [\n");
    for (n, p) in files.iter().enumerate() {
        let rel = p.strip_prefix(root).unwrap().to_string_lossy().to_string();
        let _ = writeln!(o, "  {} {}", if n == 0 { " " } else { ";" }, coq_str(&rel));
    }
    o.push_str("].\n");
    o.push_str("Definition gen_hash_sites : list hsite := [\n");
    for (n, ((file, f, r, m), c)) in sites.iter().enumerate() {
        let _ = writeln!(o, "  {} mkHS {} {} {} {} {}%N", if n == 0 { " " } else { ";" }, coq_str(file), coq_str(f), coq_str(r), coq_str(m), c);
    }
    o.push_str("].\n");
    o.push_str("(* (file, owner, binding, written type) *)\nDefinition gen_hash_decls : list (string * string * string * string) := [\n");
    for (n, (file, owner, name, ty)) in decls.iter().enumerate() {
        let _ = writeln!(o, "  {} ({}, {}, {}, {})", if n == 0 { " " } else { ";" }, coq_str(file), coq_str(owner), coq_str(name), coq_str(ty));
    }
    o.push_str("].\n");
    o.push_str("(* (file, function, kind, text) *)\nDefinition gen_other_sources : list (string * string * string * string) := [\n");
    for (n, (file, f, k, t)) in other.iter().enumerate() {
        let _ = writeln!(o, "  {} ({}, {}, {}, {})", if n == 0 { " " } else { ";" }, coq_str(file), coq_str(f), coq_str(k), coq_str(t));
    }
    o.push_str("].\n");
    std::fs::write(out, o).expect("write output");
}
