#!/bin/bash
# MANIFEST.setup_cmd: build everything from files on disk, offline.
set -e
cd "$(dirname "$0")"
export CARGO_NET_OFFLINE=true CARGO_TARGET_DIR=/verif/build/cargo
export RUSTFLAGS="${RUSTFLAGS:---cfg wirm_verif}"
mkdir -p build evidence
( cargo build --offline --release -q --manifest-path translator/Cargo.toml 2>&1 | tail -5 ) &
( cargo build --offline --release -q --manifest-path harness/Cargo.toml 2>&1 | grep -v "^warning\|^ *|\|^ *=\|^$\|-->" | tail -5 ) &
( cd coq && coq_makefile -f _CoqProject -o Makefile >/dev/null && timeout 3000 make -j16 2>&1 | grep -v "^WARNING\|^COQC\|^COQDEP\|Closed under" | tail -20 ) &
wait
echo "setup done"
