#!/bin/bash
# MANIFEST.setup_cmd: build everything from files on disk, offline.
cd "$(dirname "$0")"
export CARGO_NET_OFFLINE=true CARGO_TARGET_DIR=/verif/build/cargo
export RUSTFLAGS="${RUSTFLAGS:---cfg wirm_verif}"
mkdir -p build evidence
( cargo build --offline --release -q --manifest-path translator/Cargo.toml 2>&1 | tail -5 ) &
( for e in $(python3 -c "import sys; sys.path.insert(0,'tools'); from props import PROPS; print(' '.join(sorted({e for s in PROPS.values() for e in ([s['engine']] if s.get('engine') else [q['engine'] for q in s['parts']])})))"); do
    cargo build --offline --release -q --bin $e --manifest-path harness/Cargo.toml 2>&1 | grep -E "^error" -A6 | head -20
  done ) &
( cd coq && coq_makefile -f _CoqProject -o Makefile >/dev/null && timeout 3000 make -k -j16 2>&1 | grep -v "^WARNING\|^COQC\|^COQDEP\|Closed under" | tail -20 ) &
wait
echo "setup done"
