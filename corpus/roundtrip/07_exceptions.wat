;; features: exceptions
(module $eh
  (type $t0 (func))
  (type $ti (func (param i32)))
  (import "env" "itag" (tag $itag (type $t0)))
  (tag $e1 (type $ti))
  (tag $e2 (param i32 i64))
  (func $thrower (param i32)
    (if (local.get 0) (then (throw $e1 (local.get 0))))
    (throw $itag))
  (func $catcher (result i32)
    (block $h1 (result i32)
      (block $h2
        (try_table (catch $e1 $h1) (catch_all $h2)
          (call $thrower (i32.const 1)))
        (return (i32.const 0)))
      (i32.const -1)))
  (func $rethrow
    (block $h (result exnref)
      (try_table (catch_all_ref $h) (call $thrower (i32.const 0)))
      (return))
    (throw_ref))
  (export "catcher" (func $catcher))
  (export "e1" (tag $e1)))
