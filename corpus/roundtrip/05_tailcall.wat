;; features: tailcall
(module $tc
  (type $i2i (func (param i32) (result i32)))
  (table $t 2 funcref)
  (func $even (type $i2i)
    (if (result i32) (i32.eqz (local.get 0))
      (then (i32.const 1))
      (else (return_call $odd (i32.sub (local.get 0) (i32.const 1))))))
  (func $odd (type $i2i)
    (if (result i32) (i32.eqz (local.get 0))
      (then (i32.const 0))
      (else (return_call_indirect $t (type $i2i) (i32.sub (local.get 0) (i32.const 1)) (i32.const 0)))))
  (elem (table $t) (i32.const 0) func $even $odd)
  (export "even" (func $even)))
