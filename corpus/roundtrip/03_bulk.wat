;; features: bulk
(module $bulk
  (memory $m 1)
  (func $copy (param i32 i32 i32)
    (memory.copy (local.get 0) (local.get 1) (local.get 2))
    (memory.fill (local.get 0) (i32.const 255) (local.get 2))
    (memory.init $p (i32.const 0) (i32.const 0) (i32.const 3))
    (data.drop $p))
  (data $a (i32.const 0) "abc")
  (data $p "xyz")
  (data $q "")
  (export "copy" (func $copy)))
