;; features: mvp
(module $cust
  (@custom "first" (before first) "\01\02")
  (type (func))
  (@custom "mid" (after type) "mid")
  (func $f)
  (@producers (language "wat" "1") (processed-by "verif" "0.1") (sdk "none" ""))
  (@custom "last" "")
  (@custom "last" "dup"))
