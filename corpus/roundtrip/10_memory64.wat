;; features: memory64
(module $m64
  (memory $m i64 1 3)
  (func $f (param $p i64) (result i64)
    (i32.store offset=4294967296 (local.get $p) (i32.const 1))
    (drop (i64.load8_s (i64.const 16)))
    (drop (memory.grow (i64.const 1)))
    (memory.size))
  (data $d (i64.const 8) "m64")
  (export "f" (func $f)))
