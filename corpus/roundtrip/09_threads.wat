;; features: threads
(module $thr
  (memory $m 1 2 shared)
  (func $atomics (param $a i32) (result i32)
    (i32.atomic.store (local.get $a) (i32.const 1))
    (drop (i64.atomic.load offset=8 (local.get $a)))
    (drop (i32.atomic.rmw.add (local.get $a) (i32.const 2)))
    (drop (i64.atomic.rmw8.xchg_u (local.get $a) (i64.const 3)))
    (drop (i32.atomic.rmw16.cmpxchg_u (local.get $a) (i32.const 0) (i32.const 1)))
    (drop (memory.atomic.wait32 (local.get $a) (i32.const 0) (i64.const 1000)))
    (atomic.fence)
    (memory.atomic.notify (local.get $a) (i32.const 1)))
  (export "atomics" (func $atomics)))
