;; features: exceptions
;; D10: exnref / nullexnref in a function type and in locals
(module $ehd10
  (type $t0 (func))
  (type $h (func (param exnref) (result exnref)))
  (tag $e (type $t0))
  (func $id (type $h) (local $x exnref) (local $y nullexnref)
    (local.set $x (local.get 0))
    (local.get $x))
  (func $uses_default (local $x exnref)
    (drop (local.get $x)))
  (export "id" (func $id)))
