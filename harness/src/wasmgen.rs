//! Flat operator vocabulary shared with coq/Model/Flat.v (`fop`), conversions to/from
//! wasm-encoder / wasmparser, and the two body generators (untyped well-bracketed; typed terminating).
use crate::Rng;
use std::collections::HashMap;
use wasmparser::Operator;

#[derive(Clone, Debug, PartialEq)]
pub enum Bt { Empty, I32, Func(u32) }

#[derive(Clone, Debug, PartialEq)]
pub enum Op {
    Block(Bt), Loop(Bt), If(Bt), Else, End,
    Br(u32), BrIf(u32), BrTable(Vec<u32>, u32), BrOnNull(u32), BrOnNonNull(u32),
    Return, RetCall(u32), Unreachable, Throw(u32),
    Const(i32), LocalGet(u32), LocalSet(u32), LocalTee(u32), Drop,
    Other(u64),
}
// fixed tokens for "other" operators (< 100); tokens >= 100 are hash-consed per shard
pub const T_NOP: u64 = 1;
pub const T_ADD: u64 = 2;
pub const T_LOG: u64 = 3; // call 0
pub const T_GGET0: u64 = 4;
pub const T_GSET0: u64 = 5;
pub const T_EQZ: u64 = 6;
pub const T_SUB: u64 = 7;
pub const T_REFNULL: u64 = 8; // ref.null func
pub const T_LOAD: u64 = 9; // i32.load (memory 0, offset 0)
pub const T_STORE: u64 = 10; // i32.store (memory 0, offset 0)
pub const T_CALL2: u64 = 11; // call 2: the helper function $acc (i32) -> () of the semantic engine's modules (global 0 += argument)
pub const T_MALFORMED: u64 = 999999;
/// number of i32 cells of memory 0 that the semantic engine's interpreter models (addresses 0, 4, .., 4*(MEM_CELLS-1))
pub const MEM_CELLS: u64 = 8;

impl Bt {
    pub fn coq(&self) -> String {
        match self { Bt::Empty => "BtEmpty".into(), Bt::I32 => "(BtVal 0)".into(), Bt::Func(i) => format!("(BtFunc {i})") }
    }
    pub fn enc(&self) -> wasm_encoder::BlockType {
        match self {
            Bt::Empty => wasm_encoder::BlockType::Empty,
            Bt::I32 => wasm_encoder::BlockType::Result(wasm_encoder::ValType::I32),
            Bt::Func(i) => wasm_encoder::BlockType::FunctionType(*i),
        }
    }
    pub fn wp(&self) -> wasmparser::BlockType {
        match self {
            Bt::Empty => wasmparser::BlockType::Empty,
            Bt::I32 => wasmparser::BlockType::Type(wasmparser::ValType::I32),
            Bt::Func(i) => wasmparser::BlockType::FuncType(*i),
        }
    }
    pub fn from_wp(b: &wasmparser::BlockType) -> Bt {
        match b {
            wasmparser::BlockType::Empty => Bt::Empty,
            wasmparser::BlockType::Type(wasmparser::ValType::I32) => Bt::I32,
            wasmparser::BlockType::FuncType(i) => Bt::Func(*i),
            _ => Bt::Func(9999),
        }
    }
}

impl Op {
    pub fn coq(&self) -> String {
        match self {
            Op::Block(b) => format!("FBlock {}", b.coq()),
            Op::Loop(b) => format!("FLoop {}", b.coq()),
            Op::If(b) => format!("FIf {}", b.coq()),
            Op::Else => "FElse".into(),
            Op::End => "FEnd".into(),
            Op::Br(n) => format!("FBr {n}%nat"),
            Op::BrIf(n) => format!("FBrIf {n}%nat"),
            Op::BrTable(ts, d) => format!("FBrTable [{}] {d}%nat", ts.iter().map(|t| format!("{t}%nat")).collect::<Vec<_>>().join(";")),
            Op::BrOnNull(n) => format!("FBrOn {n}%nat 0"),
            Op::BrOnNonNull(n) => format!("FBrOn {n}%nat 1"),
            Op::Return => "FReturn".into(),
            Op::RetCall(f) => format!("FRetCall {f}"),
            Op::Unreachable => "FUnreachable".into(),
            Op::Throw(t) => format!("FThrow {t}"),
            Op::Const(z) => format!("FConst ({z})"),
            Op::LocalGet(i) => format!("FLocalGet {i}"),
            Op::LocalSet(i) => format!("FLocalSet {i}"),
            Op::LocalTee(i) => format!("FLocalTee {i}"),
            Op::Drop => "FDrop".into(),
            Op::Other(t) => format!("FOther {t}"),
        }
    }
    pub fn enc(&self) -> wasm_encoder::Instruction<'static> {
        use wasm_encoder::Instruction as I;
        match self {
            Op::Block(b) => I::Block(b.enc()),
            Op::Loop(b) => I::Loop(b.enc()),
            Op::If(b) => I::If(b.enc()),
            Op::Else => I::Else,
            Op::End => I::End,
            Op::Br(n) => I::Br(*n),
            Op::BrIf(n) => I::BrIf(*n),
            Op::BrTable(ts, d) => I::BrTable(ts.clone().into(), *d),
            Op::BrOnNull(n) => I::BrOnNull(*n),
            Op::BrOnNonNull(n) => I::BrOnNonNull(*n),
            Op::Return => I::Return,
            Op::RetCall(f) => I::ReturnCall(*f),
            Op::Unreachable => I::Unreachable,
            Op::Throw(t) => I::Throw(*t),
            Op::Const(z) => I::I32Const(*z),
            Op::LocalGet(i) => I::LocalGet(*i),
            Op::LocalSet(i) => I::LocalSet(*i),
            Op::LocalTee(i) => I::LocalTee(*i),
            Op::Drop => I::Drop,
            Op::Other(T_ADD) => I::I32Add,
            Op::Other(T_SUB) => I::I32Sub,
            Op::Other(T_EQZ) => I::I32Eqz,
            Op::Other(T_LOG) => I::Call(0),
            Op::Other(T_GGET0) => I::GlobalGet(0),
            Op::Other(T_GSET0) => I::GlobalSet(0),
            Op::Other(T_REFNULL) => I::RefNull(wasm_encoder::HeapType::FUNC),
            Op::Other(T_LOAD) => I::I32Load(wasm_encoder::MemArg { offset: 0, align: 2, memory_index: 0 }),
            Op::Other(T_STORE) => I::I32Store(wasm_encoder::MemArg { offset: 0, align: 2, memory_index: 0 }),
            Op::Other(T_CALL2) => I::Call(2),
            Op::Other(_) => I::Nop,
        }
    }
    /// operators usable as injected code (br_table cannot be constructed: its targets borrow a reader)
    pub fn wp(&self) -> Operator<'static> {
        match self {
            Op::Block(b) => Operator::Block { blockty: b.wp() },
            Op::Loop(b) => Operator::Loop { blockty: b.wp() },
            Op::If(b) => Operator::If { blockty: b.wp() },
            Op::Else => Operator::Else,
            Op::End => Operator::End,
            Op::Br(n) => Operator::Br { relative_depth: *n },
            Op::BrIf(n) => Operator::BrIf { relative_depth: *n },
            Op::BrOnNull(n) => Operator::BrOnNull { relative_depth: *n },
            Op::BrOnNonNull(n) => Operator::BrOnNonNull { relative_depth: *n },
            Op::Return => Operator::Return,
            Op::RetCall(f) => Operator::ReturnCall { function_index: *f },
            Op::Unreachable => Operator::Unreachable,
            Op::Throw(t) => Operator::Throw { tag_index: *t },
            Op::Const(z) => Operator::I32Const { value: *z },
            Op::LocalGet(i) => Operator::LocalGet { local_index: *i },
            Op::LocalSet(i) => Operator::LocalSet { local_index: *i },
            Op::LocalTee(i) => Operator::LocalTee { local_index: *i },
            Op::Drop => Operator::Drop,
            Op::Other(T_ADD) => Operator::I32Add,
            Op::Other(T_SUB) => Operator::I32Sub,
            Op::Other(T_EQZ) => Operator::I32Eqz,
            Op::Other(T_LOG) => Operator::Call { function_index: 0 },
            Op::Other(T_GGET0) => Operator::GlobalGet { global_index: 0 },
            Op::Other(T_GSET0) => Operator::GlobalSet { global_index: 0 },
            Op::Other(T_LOAD) => Operator::I32Load { memarg: wasmparser::MemArg { align: 2, max_align: 2, offset: 0, memory: 0 } },
            Op::Other(T_STORE) => Operator::I32Store { memarg: wasmparser::MemArg { align: 2, max_align: 2, offset: 0, memory: 0 } },
            Op::Other(T_CALL2) => Operator::Call { function_index: 2 },
            _ => Operator::Nop,
        }
    }
    pub fn from_wp(o: &Operator, toks: &mut HashMap<String, u64>) -> Op {
        match o {
            Operator::Block { blockty } => Op::Block(Bt::from_wp(blockty)),
            Operator::Loop { blockty } => Op::Loop(Bt::from_wp(blockty)),
            Operator::If { blockty } => Op::If(Bt::from_wp(blockty)),
            Operator::Else => Op::Else,
            Operator::End => Op::End,
            Operator::Br { relative_depth } => Op::Br(*relative_depth),
            Operator::BrIf { relative_depth } => Op::BrIf(*relative_depth),
            Operator::BrTable { targets } => Op::BrTable(targets.targets().map(|t| t.unwrap()).collect(), targets.default()),
            Operator::BrOnNull { relative_depth } => Op::BrOnNull(*relative_depth),
            Operator::BrOnNonNull { relative_depth } => Op::BrOnNonNull(*relative_depth),
            Operator::Return => Op::Return,
            Operator::ReturnCall { function_index } => Op::RetCall(*function_index),
            Operator::Unreachable => Op::Unreachable,
            Operator::Throw { tag_index } => Op::Throw(*tag_index),
            Operator::I32Const { value } => Op::Const(*value),
            Operator::LocalGet { local_index } => Op::LocalGet(*local_index),
            Operator::LocalSet { local_index } => Op::LocalSet(*local_index),
            Operator::LocalTee { local_index } => Op::LocalTee(*local_index),
            Operator::Drop => Op::Drop,
            Operator::Nop => Op::Other(T_NOP),
            Operator::I32Add => Op::Other(T_ADD),
            Operator::I32Sub => Op::Other(T_SUB),
            Operator::I32Eqz => Op::Other(T_EQZ),
            Operator::Call { function_index: 0 } => Op::Other(T_LOG),
            Operator::GlobalGet { global_index: 0 } => Op::Other(T_GGET0),
            Operator::GlobalSet { global_index: 0 } => Op::Other(T_GSET0),
            Operator::RefNull { .. } => Op::Other(T_REFNULL),
            Operator::I32Load { memarg } if memarg.offset == 0 && memarg.memory == 0 && memarg.align == 2 => Op::Other(T_LOAD),
            Operator::I32Store { memarg } if memarg.offset == 0 && memarg.memory == 0 && memarg.align == 2 => Op::Other(T_STORE),
            Operator::Call { function_index: 2 } => Op::Other(T_CALL2),
            other => {
                let k = format!("{:?}", other);
                let n = toks.len() as u64 + 100;
                Op::Other(*toks.entry(k).or_insert(n))
            }
        }
    }
    pub fn is_blockish(&self) -> bool { matches!(self, Op::Block(_) | Op::Loop(_) | Op::If(_) | Op::Else) }
    pub fn is_branchy(&self) -> bool { matches!(self, Op::Br(_) | Op::BrIf(_) | Op::BrTable(..) | Op::BrOnNull(_) | Op::BrOnNonNull(_)) }
}

pub fn coq_ops(v: &[Op]) -> String {
    format!("[{}]", v.iter().map(|o| o.coq()).collect::<Vec<_>>().join("; "))
}
pub fn show_ops(v: &[Op]) -> String {
    v.iter().map(|o| match o {
        Op::Other(T_NOP) => "nop".to_string(),
        Op::Other(T_ADD) => "i32.add".to_string(),
        Op::Other(T_SUB) => "i32.sub".to_string(),
        Op::Other(T_EQZ) => "i32.eqz".to_string(),
        Op::Other(T_LOG) => "call0".to_string(),
        Op::Other(T_GGET0) => "global.get0".to_string(),
        Op::Other(T_GSET0) => "global.set0".to_string(),
        Op::Other(T_LOAD) => "i32.load".to_string(),
        Op::Other(T_STORE) => "i32.store".to_string(),
        Op::Other(T_CALL2) => "call2".to_string(),
        o => format!("{:?}", o).to_lowercase(),
    }).collect::<Vec<_>>().join(" ")
}

#[derive(Clone, Copy, Debug, PartialEq)]
pub enum Mode { Before, After, Alternate, SemanticAfter, BlockEntry, BlockExit, BlockAlt }
impl Mode {
    pub fn coq(&self) -> &'static str {
        match self {
            Mode::Before => "MBefore", Mode::After => "MAfter", Mode::Alternate => "MAlternate",
            Mode::SemanticAfter => "MSemanticAfter", Mode::BlockEntry => "MBlockEntry",
            Mode::BlockExit => "MBlockExit", Mode::BlockAlt => "MBlockAlt",
        }
    }
    pub fn im(&self) -> wirm::ir::types::InstrumentationMode {
        use wirm::ir::types::InstrumentationMode as IM;
        match self {
            Mode::Before => IM::Before, Mode::After => IM::After, Mode::Alternate => IM::Alternate,
            Mode::SemanticAfter => IM::SemanticAfter, Mode::BlockEntry => IM::BlockEntry,
            Mode::BlockExit => IM::BlockExit, Mode::BlockAlt => IM::BlockAlt,
        }
    }
    pub fn is_special(&self) -> bool { matches!(self, Mode::SemanticAfter | Mode::BlockEntry | Mode::BlockExit | Mode::BlockAlt) }
}

pub type Plan = Vec<(usize, Mode, Vec<Op>)>;
pub fn coq_plan(p: &Plan) -> String {
    format!("[{}]", p.iter().map(|(i, m, o)| format!("({}%nat, {}, {})", i, m.coq(), coq_ops(o))).collect::<Vec<_>>().join("; "))
}
pub fn show_plan(p: &Plan) -> String {
    p.iter().map(|(i, m, o)| format!("@{} {:?} [{}]", i, m, show_ops(o))).collect::<Vec<_>>().join(", ")
}

// ---------- untyped, well-bracketed body generator (wirm never validates) ----------
pub fn gen_bt(r: &mut Rng) -> Bt {
    match r.below(5) { 0 => Bt::I32, 1 => Bt::Func(0), _ => Bt::Empty }
}
pub fn gen_seq(r: &mut Rng, depth: u32, maxdepth: u32, budget: &mut i32, out: &mut Vec<Op>) {
    let n = r.below(5);
    for _ in 0..n {
        if *budget <= 0 { return; }
        *budget -= 1;
        match r.below(20) {
            0 | 1 if depth < maxdepth => { let bt = gen_bt(r); out.push(Op::Block(bt)); gen_seq(r, depth + 1, maxdepth, budget, out); out.push(Op::End); }
            2 if depth < maxdepth => { let bt = gen_bt(r); out.push(Op::Loop(bt)); gen_seq(r, depth + 1, maxdepth, budget, out); out.push(Op::End); }
            3 | 4 if depth < maxdepth => {
                let bt = gen_bt(r);
                out.push(Op::If(bt));
                gen_seq(r, depth + 1, maxdepth, budget, out);
                if r.chance(1, 2) { out.push(Op::Else); gen_seq(r, depth + 1, maxdepth, budget, out); }
                out.push(Op::End);
            }
            5 => out.push(Op::Br(r.below(depth as u64 + 1) as u32)),
            6 | 7 => out.push(Op::BrIf(r.below(depth as u64 + 1) as u32)),
            8 => {
                let k = r.below(4);
                let ts = (0..k).map(|_| r.below(depth as u64 + 1) as u32).collect();
                out.push(Op::BrTable(ts, r.below(depth as u64 + 1) as u32));
            }
            9 => out.push(match r.below(6) { 0 | 1 => Op::Return, 2 | 3 => Op::Unreachable, 4 => Op::RetCall(0), _ => Op::Throw(0) }),
            10 => out.push(Op::Const(r.below(100) as i32 - 50)),
            11 => out.push(Op::LocalGet(r.below(3) as u32)),
            12 => out.push(Op::Drop),
            13 => out.push(Op::Other(T_ADD)),
            14 => out.push(Op::Other(T_LOG)),
            15 if r.chance(1, 3) => { out.push(Op::Other(T_REFNULL)); out.push(if r.chance(1, 2) { Op::BrOnNull(r.below(depth as u64 + 1) as u32) } else { Op::BrOnNonNull(r.below(depth as u64 + 1) as u32) }); }
            16 => out.push(Op::LocalSet(r.below(3) as u32)),
            _ => out.push(Op::Other(T_NOP)),
        }
    }
}
pub fn gen_probe(r: &mut Rng, id: &mut i32) -> Vec<Op> {
    let k = 1 + r.below(3);
    let mut v = vec![];
    for _ in 0..k { *id += 1; v.push(Op::Const(*id)); v.push(Op::Drop); }
    if r.chance(1, 8) { v.push(Op::Other(T_LOG)); }
    v
}

// ---------- typed, terminating generator: every statement is stack neutral ----------
pub struct TypedGen<'a> {
    pub r: &'a mut Rng,
    pub out: Vec<Op>,
    pub nres: u32,
    pub next_local: u32,
    pub budget: i32,
    pub ev: i32,
    pub maxdepth: u32,
    /// bias towards if/else constructs whose arms end in an explicit function exit (C17, C16)
    pub exit_bias: bool,
}
impl<'a> TypedGen<'a> {
    fn var(&mut self) -> u32 { self.r.below(6) as u32 } // params 0,1 + locals 2..5
    fn fresh(&mut self) -> u32 { let l = self.next_local; self.next_local += 1; l }
    fn explicit_exit(&mut self) {
        if self.r.chance(1, 5) { self.out.push(Op::Unreachable); } else { if self.nres == 1 { self.out.push(Op::Const(66)); } self.out.push(Op::Return); }
    }
    fn event(&mut self) { self.ev += 1; self.out.push(Op::Const(self.ev)); self.out.push(Op::Other(T_LOG)); }
    fn cond(&mut self) {
        let a = self.var();
        self.out.push(Op::LocalGet(a));
        if self.r.chance(1, 2) { self.out.push(Op::Other(T_EQZ)); }
    }
    /// labels: innermost first, (is_loop, branch arity); returns true if the sequence ended with an
    /// unconditional transfer
    pub fn seq(&mut self, labels: &mut Vec<(bool, u32)>, depth: u32) -> bool {
        let n = 1 + self.r.below(4);
        for _ in 0..n {
            if self.budget <= 0 { break; }
            self.budget -= 1;
            match self.r.below(20) {
                0 | 1 | 2 => self.event(),
                3 | 4 => {
                    let a = self.var();
                    let b = 2 + self.r.below(4) as u32;
                    self.out.push(Op::LocalGet(a));
                    self.out.push(Op::Const(self.r.below(7) as i32));
                    self.out.push(Op::Other(if self.r.chance(1, 2) { T_ADD } else { T_SUB }));
                    self.out.push(Op::LocalSet(b));
                }
                5 => match self.r.below(4) {
                    0 => { self.out.push(Op::Other(T_GGET0)); self.out.push(Op::Const(1)); self.out.push(Op::Other(T_ADD)); self.out.push(Op::Other(T_GSET0)); }
                    // memory: store a local to / load a local from one of the MEM_CELLS word cells of memory 0
                    1 => { let a = self.var(); self.out.push(Op::Const(4 * self.r.below(MEM_CELLS) as i32)); self.out.push(Op::LocalGet(a)); self.out.push(Op::Other(T_STORE)); }
                    2 => { let b = 2 + self.r.below(4) as u32; self.out.push(Op::Const(4 * self.r.below(MEM_CELLS) as i32)); self.out.push(Op::Other(T_LOAD)); self.out.push(Op::LocalSet(b)); }
                    // a call of the helper function $acc
                    _ => { let a = self.var(); self.out.push(Op::LocalGet(a)); self.out.push(Op::Other(T_CALL2)); }
                },
                6 | 7 if depth < self.maxdepth => {
                    let res = self.r.chance(1, 4);
                    self.out.push(Op::Block(if res { Bt::I32 } else { Bt::Empty }));
                    labels.insert(0, (false, res as u32));
                    let dead = self.seq(labels, depth + 1);
                    if res && !dead { self.out.push(Op::Const(self.r.below(50) as i32)); }
                    labels.remove(0);
                    self.out.push(Op::End);
                    if res { self.out.push(Op::Drop); }
                }
                8 if depth < self.maxdepth => {
                    let ctr = self.fresh();
                    self.out.push(Op::Const(1 + self.r.below(3) as i32));
                    self.out.push(Op::LocalSet(ctr));
                    self.out.push(Op::Loop(Bt::Empty));
                    labels.insert(0, (true, 0));
                    let dead = self.seq(labels, depth + 1);
                    if !dead {
                        self.out.push(Op::LocalGet(ctr)); self.out.push(Op::Const(1)); self.out.push(Op::Other(T_SUB));
                        self.out.push(Op::LocalTee(ctr)); self.out.push(Op::BrIf(0));
                    }
                    labels.remove(0);
                    self.out.push(Op::End);
                }
                9 | 10 | 11 if depth < self.maxdepth => {
                    self.cond();
                    self.out.push(Op::If(Bt::Empty));
                    labels.insert(0, (false, 0));
                    // with exit_bias: arms that end in an explicit exit of the function (return / unreachable), so that an
                    // exit in the else-arm after a then-arm that already left the function is sampled often
                    let exits = self.exit_bias && self.r.chance(1, 3);
                    let dead = self.seq(labels, depth + 1);
                    if exits && !dead { self.explicit_exit(); }
                    if exits || self.r.chance(1, 2) {
                        self.out.push(Op::Else);
                        let dead = self.seq(labels, depth + 1);
                        if exits && !dead && self.r.chance(2, 3) { self.explicit_exit(); }
                    }
                    labels.remove(0);
                    self.out.push(Op::End);
                }
                12 | 13 | 14 => {
                    let cands: Vec<usize> = (0..labels.len()).filter(|i| !labels[*i].0).collect();
                    if cands.is_empty() { continue; }
                    let l = cands[self.r.below(cands.len() as u64) as usize];
                    let ar = labels[l].1;
                    if ar == 1 { self.out.push(Op::Const(77)); }
                    self.cond();
                    self.out.push(Op::BrIf(l as u32));
                    if ar == 1 { self.out.push(Op::Drop); }
                }
                15 => {
                    let cands: Vec<usize> = (0..labels.len()).filter(|i| !labels[*i].0).collect();
                    if cands.is_empty() { continue; }
                    let l = cands[self.r.below(cands.len() as u64) as usize];
                    if labels[l].1 == 1 { self.out.push(Op::Const(88)); }
                    self.out.push(Op::Br(l as u32));
                    return true;
                }
                16 | 19 => {
                    let cands: Vec<u32> = (0..labels.len()).filter(|i| !labels[*i].0 && labels[*i].1 == 0).map(|i| i as u32).collect();
                    if cands.is_empty() { continue; }
                    let k = self.r.below(5);
                    let mut ts = vec![];
                    for _ in 0..k { ts.push(cands[self.r.below(cands.len() as u64) as usize]); }
                    let d = cands[self.r.below(cands.len() as u64) as usize];
                    let a = self.var();
                    self.out.push(Op::LocalGet(a));
                    self.out.push(Op::BrTable(ts, d));
                    return true;
                }
                17 if self.r.chance(1, 3) => {
                    if self.nres == 1 { self.out.push(Op::Const(55)); }
                    self.out.push(Op::Return);
                    return true;
                }
                18 if self.r.chance(1, 6) => { self.out.push(Op::Unreachable); return true; }
                _ => self.out.push(Op::Other(T_NOP)),
            }
        }
        false
    }
}

/// decode every code body of an encoded module: (locals groups as (count, type token), operators)
pub fn decode_bodies(bytes: &[u8], toks: &mut HashMap<String, u64>) -> Vec<(Vec<(u32, u32)>, Vec<Op>)> {
    let mut res = vec![];
    for p in wasmparser::Parser::new(0).parse_all(bytes) {
        let p = match p { Ok(p) => p, Err(_) => break };
        if let wasmparser::Payload::CodeSectionEntry(b) = p {
            let mut groups = vec![];
            let mut body = vec![];
            let mut bad = false;
            match b.get_locals_reader() {
                Ok(lr) => for l in lr { match l { Ok((n, t)) => groups.push((n, valtype_tok(t))), Err(_) => { bad = true; break; } } },
                Err(_) => bad = true,
            }
            if !bad {
                match b.get_operators_reader() {
                    Ok(mut rd) => {
                        loop {
                            if rd.eof() { break; }
                            match rd.read() { Ok(o) => body.push(Op::from_wp(&o, toks)), Err(_) => { bad = true; break; } }
                        }
                        if !bad && rd.finish().is_err() { bad = true; }
                    }
                    Err(_) => bad = true,
                }
            }
            if bad { body = vec![Op::Other(T_MALFORMED)]; }
            res.push((groups, body));
        }
    }
    res
}
pub fn valtype_tok(t: wasmparser::ValType) -> u32 {
    match t {
        wasmparser::ValType::I32 => 0,
        wasmparser::ValType::I64 => 1,
        wasmparser::ValType::F32 => 2,
        wasmparser::ValType::F64 => 3,
        wasmparser::ValType::V128 => 4,
        wasmparser::ValType::Ref(r) => if r == wasmparser::RefType::FUNCREF { 5 } else if r == wasmparser::RefType::EXTERNREF { 6 } else { 7 },
    }
}
pub fn tok_valtype_enc(t: u32) -> wasm_encoder::ValType {
    use wasm_encoder::ValType as V;
    match t { 0 => V::I32, 1 => V::I64, 2 => V::F32, 3 => V::F64, 4 => V::V128, 5 => V::FUNCREF, _ => V::EXTERNREF }
}
pub fn coq_groups(v: &[(u32, u32)]) -> String {
    format!("[{}]", v.iter().map(|(a, b)| format!("({a}, {b})")).collect::<Vec<_>>().join("; "))
}
pub fn validates(bytes: &[u8]) -> bool {
    wasmparser::Validator::new_with_features(wasmparser::WasmFeatures::all()).validate_all(bytes).is_ok()
}
