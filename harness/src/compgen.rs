// Generator of *valid* components for the component engine (C27): wasm-encoder's raw Component +
// section API so that every section boundary is under the generator's control (adjacent sections
// of one kind, random interleavings of all twelve section kinds, nesting depth <= 4, generated core
// modules, nested component/instance type declarations using payload-less stream/future, ...).
// Index spaces are tracked per level so that nearly every draw validates; whatever the real
// wasmparser::Validator (all features) rejects is thrown away and drawn again.
use vharness::Rng;
use wasm_encoder as we;
use we::{Alias, CanonicalOption, ComponentExportKind as CEK, ComponentOuterAliasKind, ComponentTypeRef, ComponentValType as CVT, ExportKind, PrimitiveValType as P, TypeBounds};

#[derive(Clone, Debug, PartialEq)]
enum Ty {
    Def,                      // a defined value type usable as ComponentValType::Type
    FuncNullary,              // (func)
    FuncU32,                  // (func (param "p" u32) (result u32))
    FuncOther,
    Inst(Vec<(String, IExp)>), // instance type with these exports
    CompNoImports,            // component type without imports
    CompOther,
    Resource,
    Stream,
    Future,
}
#[derive(Clone, Debug, PartialEq)]
enum IExp { FuncNullary, FuncU32, Type }

#[derive(Clone, Debug, PartialEq)]
enum CoreFn { Nullary, I32I32, Other }

#[derive(Default, Clone)]
struct Lvl {
    types: Vec<Ty>,
    core_types: u32,           // count; kinds below
    core_module_types: Vec<u32>,
    core_modules: Vec<bool>,   // true = instantiable without arguments and exporting f, g, m
    core_instances: Vec<bool>, // true = exports f (nullary), g (i32->i32), m (memory)
    core_funcs: Vec<CoreFn>,
    core_mems: u32,
    funcs: Vec<Ty>,            // FuncNullary / FuncU32 / FuncOther
    instances: Vec<Vec<(String, IExp)>>,
    components: Vec<bool>,     // true = no imports
    has_start: bool,
    values: u32,
}

pub struct Gen<'r> {
    r: &'r mut Rng,
    uniq: u32,
    pub n_sections: u32,
    pub stream_future_nested: bool,
    /// "chain" shape: every level has its only nested body as its very last section (such trees are deep but
    /// outside D14, so the positive theorem is sampled at depth 3 and 4 as well)
    pub chainy: bool,
}

const PRIMS: [P; 8] = [P::Bool, P::U8, P::S16, P::U32, P::S64, P::F32, P::Char, P::String];

impl<'r> Gen<'r> {
    fn name(&mut self, p: &str) -> String { self.uniq += 1; format!("{}{}", p, self.uniq) }
    fn prim(&mut self) -> CVT { CVT::Primitive(*self.r.pick(&PRIMS)) }
    fn valty(&mut self, types: &[Ty]) -> CVT {
        let defs: Vec<u32> = types.iter().enumerate().filter(|(_, t)| **t == Ty::Def).map(|(i, _)| i as u32).collect();
        if !defs.is_empty() && self.r.chance(1, 3) { CVT::Type(*self.r.pick(&defs)) } else { self.prim() }
    }

    /// a small core module: no imports; exports f : () -> (), g : i32 -> i32, m : memory; unique marker
    fn core_module(&mut self) -> we::Module {
        self.uniq += 1;
        let marker = 1000 + self.uniq as i32;
        let mut m = we::Module::new();
        let mut types = we::TypeSection::new();
        types.ty().function(vec![], vec![]);
        types.ty().function(vec![we::ValType::I32], vec![we::ValType::I32]);
        m.section(&types);
        let mut funcs = we::FunctionSection::new();
        funcs.function(0);
        funcs.function(1);
        let extra = self.r.below(3);
        for _ in 0..extra { funcs.function(0); }
        m.section(&funcs);
        let mut mems = we::MemorySection::new();
        mems.memory(we::MemoryType { minimum: 1 + self.r.below(3), maximum: None, memory64: false, shared: false, page_size_log2: None });
        m.section(&mems);
        if self.r.chance(1, 2) {
            let mut globals = we::GlobalSection::new();
            globals.global(we::GlobalType { val_type: we::ValType::I32, mutable: self.r.chance(1, 2), shared: false }, &we::ConstExpr::i32_const(marker));
            m.section(&globals);
        }
        let mut ex = we::ExportSection::new();
        ex.export("f", ExportKind::Func, 0);
        ex.export("g", ExportKind::Func, 1);
        ex.export("m", ExportKind::Memory, 0);
        m.section(&ex);
        let mut code = we::CodeSection::new();
        let mut f = we::Function::new(vec![]);
        f.instruction(&we::Instruction::I32Const(marker));
        f.instruction(&we::Instruction::Drop);
        f.instruction(&we::Instruction::End);
        code.function(&f);
        let mut g = we::Function::new(vec![(1, we::ValType::I32)]);
        g.instruction(&we::Instruction::LocalGet(0));
        g.instruction(&we::Instruction::I32Const(marker));
        g.instruction(&we::Instruction::I32Add);
        if self.r.chance(1, 2) {
            g.instruction(&we::Instruction::LocalTee(1));
            g.instruction(&we::Instruction::I32Load(we::MemArg { offset: 4, align: 2, memory_index: 0 }));
        }
        g.instruction(&we::Instruction::End);
        code.function(&g);
        for k in 0..extra {
            let mut h = we::Function::new(vec![]);
            if k % 2 == 0 { h.instruction(&we::Instruction::Call(0)); } else { h.instruction(&we::Instruction::Nop); }
            h.instruction(&we::Instruction::End);
            code.function(&h);
        }
        m.section(&code);
        if self.r.chance(1, 3) {
            let mut data = we::DataSection::new();
            data.active(0, &we::ConstExpr::i32_const(8), vec![marker as u8, 1, 2]);
            m.section(&data);
        }
        if self.r.chance(1, 3) {
            let mut names = we::NameSection::new();
            let mut fm = we::NameMap::new();
            fm.append(0, "f");
            fm.append(1, &format!("g{}", marker));
            names.functions(&fm);
            m.section(&names);
        }
        if self.r.chance(1, 4) {
            m.section(&we::CustomSection { name: "meta".into(), data: vec![marker as u8, 7, 7].into() });
        }
        m
    }

    fn defined(&mut self, enc: we::ComponentDefinedTypeEncoder, types: &[Ty], nested: bool) -> Ty {
        match self.r.below(13) {
            0 => { enc.primitive(*self.r.pick(&PRIMS)); Ty::Def }
            1 => { let n = 1 + self.r.below(3); let fs: Vec<(String, CVT)> = (0..n).map(|i| (format!("f{}", i), self.valty(types))).collect(); enc.record(fs.iter().map(|(a, b)| (a.as_str(), *b))); Ty::Def }
            2 => { let n = 1 + self.r.below(3); let cs: Vec<(String, Option<CVT>)> = (0..n).map(|i| (format!("c{}", i), if self.r.chance(1, 2) { Some(self.valty(types)) } else { None })).collect(); enc.variant(cs.iter().map(|(a, b)| (a.as_str(), *b, None))); Ty::Def }
            3 => { let t = self.valty(types); enc.list(t); Ty::Def }
            4 => { let n = 1 + self.r.below(3); let ts: Vec<CVT> = (0..n).map(|_| self.valty(types)).collect(); enc.tuple(ts); Ty::Def }
            5 => { let n = 1 + self.r.below(4); let ns: Vec<String> = (0..n).map(|i| format!("b{}", i)).collect(); enc.flags(ns.iter().map(|s| s.as_str())); Ty::Def }
            6 => { let n = 1 + self.r.below(4); let ns: Vec<String> = (0..n).map(|i| format!("e{}", i)).collect(); enc.enum_type(ns.iter().map(|s| s.as_str())); Ty::Def }
            7 => { let t = self.valty(types); enc.option(t); Ty::Def }
            8 => { let ok = if self.r.chance(2, 3) { Some(self.valty(types)) } else { None }; let err = if self.r.chance(1, 2) { Some(self.valty(types)) } else { None }; enc.result(ok, err); Ty::Def }
            9 | 10 => {
                let payload = if self.r.chance(1, 2) { Some(self.prim()) } else { None };
                if nested && payload.is_none() { self.stream_future_nested = true; }
                enc.stream(payload); Ty::Stream
            }
            11 => { let payload = if self.r.chance(1, 2) { Some(self.prim()) } else { None }; enc.future(payload); Ty::Future }
            _ => { let t = self.valty(types); enc.fixed_size_list(t, 1 + self.r.below(4) as u32); Ty::Def }
        }
    }

    fn func_type(&mut self, mut enc: we::ComponentFuncTypeEncoder, types: &[Ty]) -> Ty {
        match self.r.below(4) {
            0 | 1 => { enc.params(Vec::<(&str, CVT)>::new()); enc.result(None); Ty::FuncNullary }
            2 => { enc.params(vec![("p", CVT::Primitive(P::U32))]); enc.result(Some(CVT::Primitive(P::U32))); Ty::FuncU32 }
            _ => {
                let n = self.r.below(3);
                let ps: Vec<(String, CVT)> = (0..n).map(|i| (format!("a{}", i), self.valty(types))).collect();
                enc.params(ps.iter().map(|(a, b)| (a.as_str(), *b)));
                let res = if self.r.chance(1, 2) { Some(self.valty(types)) } else { None };
                enc.result(res);
                Ty::FuncOther
            }
        }
    }

    /// instance type: local types (defined incl. payload-less stream/future, func), exports
    fn instance_type(&mut self) -> (we::InstanceType, Vec<(String, IExp)>) {
        let mut it = we::InstanceType::new();
        let mut local: Vec<Ty> = vec![];
        let mut exports = vec![];
        for _ in 0..self.r.below(5) {
            match self.r.below(6) {
                0 | 1 => { let l2 = local.clone(); let t = self.defined(it.ty().defined_type(), &l2, true); local.push(t); }
                2 => { let l2 = local.clone(); let t = self.func_type(it.ty().function(), &l2); local.push(t); }
                3 => {
                    let fs: Vec<u32> = local.iter().enumerate().filter(|(_, t)| matches!(t, Ty::FuncNullary | Ty::FuncU32)).map(|(i, _)| i as u32).collect();
                    if let Some(i) = fs.first().copied().map(|_| *self.r.pick(&fs)) {
                        let n = self.name("x");
                        it.export(&n, ComponentTypeRef::Func(i));
                        exports.push((n, if local[i as usize] == Ty::FuncNullary { IExp::FuncNullary } else { IExp::FuncU32 }));
                    }
                }
                4 => {
                    let ds: Vec<u32> = local.iter().enumerate().filter(|(_, t)| matches!(t, Ty::Def | Ty::Stream | Ty::Future)).map(|(i, _)| i as u32).collect();
                    if !ds.is_empty() {
                        let i = *self.r.pick(&ds);
                        let n = self.name("t");
                        it.export(&n, ComponentTypeRef::Type(TypeBounds::Eq(i)));
                        local.push(local[i as usize].clone());
                        exports.push((n, IExp::Type));
                    }
                }
                _ => {
                    if self.r.chance(1, 2) {
                        it.core_type().core().function(vec![we::ValType::I32], vec![]);
                    } else if self.r.chance(1, 4) {
                        // an explicit core rec group (D29: convert_instance_type re-encodes its members one by one)
                        let n = 1 + self.r.below(2);
                        it.core_type().core().rec((0..n).map(|i| rec_member(i as usize)).collect::<Vec<_>>());
                    } else {
                        let n = self.name("r");
                        it.export(&n, ComponentTypeRef::Type(TypeBounds::SubResource));
                        local.push(Ty::Resource);
                        exports.push((n, IExp::Type));
                    }
                }
            }
        }
        (it, exports)
    }

    fn component_type(&mut self) -> (we::ComponentType, bool) {
        let mut ct = we::ComponentType::new();
        let mut local: Vec<Ty> = vec![];
        let mut no_imports = true;
        for _ in 0..self.r.below(5) {
            match self.r.below(6) {
                0 | 1 => { let l2 = local.clone(); let t = self.defined(ct.ty().defined_type(), &l2, true); local.push(t); }
                2 => { let l2 = local.clone(); let t = self.func_type(ct.ty().function(), &l2); local.push(t); }
                3 => {
                    let fs: Vec<u32> = local.iter().enumerate().filter(|(_, t)| matches!(t, Ty::FuncNullary | Ty::FuncU32 | Ty::FuncOther)).map(|(i, _)| i as u32).collect();
                    if !fs.is_empty() {
                        let i = *self.r.pick(&fs);
                        let n = self.name("y");
                        if self.r.chance(1, 2) { ct.import(&n, ComponentTypeRef::Func(i)); no_imports = false; } else { ct.export(&n, ComponentTypeRef::Func(i)); }
                    }
                }
                4 => {
                    if self.r.chance(2, 3) {
                        let (it, ex) = self.instance_type();
                        ct.ty().instance(&it);
                        local.push(Ty::Inst(ex));
                    } else if self.r.chance(1, 2) {
                        // explicit rec group directly in a component type: preserved when the component type is a
                        // section item, flattened when the component type is itself nested
                        ct.core_type().core().rec(vec![rec_member(0), rec_member(1)]);
                    } else {
                        let mut inner = we::ComponentType::new();
                        inner.core_type().core().rec(vec![rec_member(1)]);
                        if self.r.chance(1, 2) { inner.ty().defined_type().stream(None); self.stream_future_nested = true; }
                        // import / export declarations inside the NESTED component type (converted by wrappers.rs, not by the
                        // inline code for section-level types): resources, and a function type declared in front of them
                        for _ in 0..self.r.below(3) {
                            let n = self.name("w");
                            if self.r.chance(1, 2) { inner.import(&n, ComponentTypeRef::Type(TypeBounds::SubResource)); } else { inner.export(&n, ComponentTypeRef::Type(TypeBounds::SubResource)); }
                        }
                        ct.ty().component(&inner);
                        local.push(Ty::CompOther);
                    }
                }
                _ => {
                    let n = self.name("q");
                    if self.r.chance(1, 2) { ct.import(&n, ComponentTypeRef::Type(TypeBounds::SubResource)); no_imports = false; } else { ct.export(&n, ComponentTypeRef::Type(TypeBounds::SubResource)); }
                    local.push(Ty::Resource);
                }
            }
        }
        (ct, no_imports)
    }

    /// one component level; `outer` = the enclosing levels' state at this point (innermost last)
    fn level(&mut self, depth_left: u32, outer: &mut Vec<Lvl>, budget: &mut i32) -> we::Component {
        let mut c = we::Component::new();
        let mut l = Lvl::default();
        let nsec = if depth_left == 0 { self.r.below(7) } else { 2 + self.r.below(11) };
        let mut nested_done = false;
        let mut last_kind = 99u64;
        let name_pos = if self.r.chance(1, 2) { Some(self.r.below(if self.chainy { nsec.max(1) } else { nsec + 1 })) } else { None };
        for s in 0..nsec {
            if Some(s) == name_pos { self.names(&mut c, &l); }
            if *budget <= 0 { break; }
            *budget -= 1;
            // weighted choice of the section kind; a level that may still nest prefers to do so until it has
            const W: [u64; 30] = [0, 0, 1, 2, 3, 3, 4, 5, 6, 6, 7, 8, 8, 9, 9, 10, 11, 11, 12, 12, 13, 14, 15, 15, 15, 15, 0, 3, 9, 6];
            let kind = if last_kind != 99 && last_kind != 15 && self.r.chance(1, 4) { last_kind }
                       else if depth_left > 0 && !nested_done && self.r.chance(1, 3) { 15 }
                       else { *self.r.pick(&W) };
            let kind = if self.chainy && matches!(kind, 6 | 7 | 15) { self.r.below(6) } else { kind };
            last_kind = kind;
            self.n_sections += 1;
            let nitems = 1 + self.r.below(3);
            match kind {
                0 | 1 => {
                    // component type section
                    let mut sec = we::ComponentTypeSection::new();
                    for _ in 0..nitems {
                        match self.r.below(10) {
                            0 | 1 | 2 => { let ts = l.types.clone(); let t = self.defined(sec.defined_type(), &ts, false); l.types.push(t); }
                            3 | 4 => { let ts = l.types.clone(); let t = self.func_type(sec.function(), &ts); l.types.push(t); }
                            5 | 6 => { let (it, ex) = self.instance_type(); sec.instance(&it); l.types.push(Ty::Inst(ex)); }
                            7 | 8 => { let (ct, ni) = self.component_type(); sec.component(&ct); l.types.push(if ni { Ty::CompNoImports } else { Ty::CompOther }); }
                            _ => { sec.resource(we::ValType::I32, None); l.types.push(Ty::Resource); }
                        }
                    }
                    c.section(&sec);
                }
                2 => {
                    let mut sec = we::CoreTypeSection::new();
                    for _ in 0..nitems {
                        if self.r.chance(1, 2) {
                            sec.ty().core().function(vec![we::ValType::I32; self.r.below(3) as usize], vec![]);
                        } else {
                            let mut mt = we::ModuleType::new();
                            mt.ty().function(vec![], vec![]);
                            if self.r.chance(1, 2) { mt.import("env", &self.name("i"), we::EntityType::Function(0)); }
                            mt.export("f", we::EntityType::Function(0));
                            sec.ty().module(&mt);
                            l.core_module_types.push(l.core_types);
                        }
                        l.core_types += 1;
                    }
                    c.section(&sec);
                }
                3 | 4 => {
                    let mut sec = we::ComponentImportSection::new();
                    for _ in 0..nitems {
                        let fts: Vec<u32> = l.types.iter().enumerate().filter(|(_, t)| matches!(t, Ty::FuncNullary | Ty::FuncU32 | Ty::FuncOther)).map(|(i, _)| i as u32).collect();
                        let its: Vec<u32> = l.types.iter().enumerate().filter(|(_, t)| matches!(t, Ty::Inst(_))).map(|(i, _)| i as u32).collect();
                        let cts: Vec<u32> = l.types.iter().enumerate().filter(|(_, t)| matches!(t, Ty::CompNoImports | Ty::CompOther)).map(|(i, _)| i as u32).collect();
                        let dts: Vec<u32> = l.types.iter().enumerate().filter(|(_, t)| matches!(t, Ty::Def)).map(|(i, _)| i as u32).collect();
                        let n = self.name("im");
                        match self.r.below(6) {
                            0 | 1 if !fts.is_empty() => { let i = *self.r.pick(&fts); sec.import(&n, ComponentTypeRef::Func(i)); l.funcs.push(l.types[i as usize].clone()); }
                            2 if !its.is_empty() => { let i = *self.r.pick(&its); sec.import(&n, ComponentTypeRef::Instance(i)); if let Ty::Inst(ex) = &l.types[i as usize] { l.instances.push(ex.clone()); } }
                            3 if !cts.is_empty() => { let i = *self.r.pick(&cts); sec.import(&n, ComponentTypeRef::Component(i)); l.components.push(l.types[i as usize] == Ty::CompNoImports); }
                            4 if !dts.is_empty() => { let i = *self.r.pick(&dts); sec.import(&n, ComponentTypeRef::Type(TypeBounds::Eq(i))); l.types.push(Ty::Def); }
                            5 if !l.core_module_types.is_empty() => { let i = *self.r.pick(&l.core_module_types); sec.import(&n, ComponentTypeRef::Module(i)); l.core_modules.push(false); }
                            _ => { sec.import(&n, ComponentTypeRef::Type(TypeBounds::SubResource)); l.types.push(Ty::Resource); }
                        }
                    }
                    c.section(&sec);
                }
                5 => {
                    let mut sec = we::ComponentExportSection::new();
                    let mut any = false;
                    for _ in 0..nitems {
                        let n = self.name("ex");
                        match self.r.below(5) {
                            0 if !l.funcs.is_empty() => { let i = self.r.below(l.funcs.len() as u64) as usize; sec.export(&n, CEK::Func, i as u32, None); l.funcs.push(l.funcs[i].clone()); any = true; }
                            1 if !l.instances.is_empty() => { let i = self.r.below(l.instances.len() as u64) as usize; sec.export(&n, CEK::Instance, i as u32, None); l.instances.push(l.instances[i].clone()); any = true; }
                            2 if !l.components.is_empty() => { let i = self.r.below(l.components.len() as u64) as usize; sec.export(&n, CEK::Component, i as u32, None); l.components.push(l.components[i]); any = true; }
                            3 if !l.core_modules.is_empty() => { let i = self.r.below(l.core_modules.len() as u64) as usize; sec.export(&n, CEK::Module, i as u32, None); l.core_modules.push(l.core_modules[i]); any = true; }
                            _ => {
                                let ds: Vec<u32> = l.types.iter().enumerate().filter(|(_, t)| matches!(t, Ty::Def)).map(|(i, _)| i as u32).collect();
                                if !ds.is_empty() { let i = *self.r.pick(&ds); sec.export(&n, CEK::Type, i, None); l.types.push(Ty::Def); any = true; }
                            }
                        }
                    }
                    if any || self.r.chance(1, 4) { c.section(&sec); }
                }
                6 | 7 => {
                    // core module(s): each its own section
                    let m = self.core_module();
                    c.section(&we::ModuleSection(&m));
                    l.core_modules.push(true);
                }
                8 => {
                    let mut sec = we::InstanceSection::new();
                    let mut any = false;
                    for _ in 0..nitems {
                        let ms: Vec<u32> = l.core_modules.iter().enumerate().filter(|(_, b)| **b).map(|(i, _)| i as u32).collect();
                        if !ms.is_empty() && self.r.chance(3, 4) {
                            sec.instantiate(*self.r.pick(&ms), Vec::<(&str, we::ModuleArg)>::new());
                            l.core_instances.push(true); any = true;
                        } else if !l.core_funcs.is_empty() {
                            let i = self.r.below(l.core_funcs.len() as u64) as u32;
                            sec.export_items(vec![("h", ExportKind::Func, i)]);
                            l.core_instances.push(false); any = true;
                        } else {
                            sec.export_items(Vec::<(&str, ExportKind, u32)>::new());
                            l.core_instances.push(false); any = true;
                        }
                    }
                    if any { c.section(&sec); }
                }
                9 | 10 => {
                    let mut sec = we::ComponentAliasSection::new();
                    let mut any = false;
                    for _ in 0..nitems {
                        let cis: Vec<u32> = l.core_instances.iter().enumerate().filter(|(_, b)| **b).map(|(i, _)| i as u32).collect();
                        let iis: Vec<u32> = l.instances.iter().enumerate().filter(|(_, e)| !e.is_empty()).map(|(i, _)| i as u32).collect();
                        match self.r.below(4) {
                            0 if !cis.is_empty() => {
                                let i = *self.r.pick(&cis);
                                match self.r.below(3) {
                                    0 => { sec.alias(Alias::CoreInstanceExport { instance: i, kind: ExportKind::Func, name: "f" }); l.core_funcs.push(CoreFn::Nullary); }
                                    1 => { sec.alias(Alias::CoreInstanceExport { instance: i, kind: ExportKind::Func, name: "g" }); l.core_funcs.push(CoreFn::I32I32); }
                                    _ => { sec.alias(Alias::CoreInstanceExport { instance: i, kind: ExportKind::Memory, name: "m" }); l.core_mems += 1; }
                                }
                                any = true;
                            }
                            1 if !iis.is_empty() => {
                                let i = *self.r.pick(&iis);
                                let ex = l.instances[i as usize].clone();
                                let (n, k) = self.r.pick(&ex).clone();
                                match k {
                                    IExp::FuncNullary => { sec.alias(Alias::InstanceExport { instance: i, kind: CEK::Func, name: &n }); l.funcs.push(Ty::FuncNullary); }
                                    IExp::FuncU32 => { sec.alias(Alias::InstanceExport { instance: i, kind: CEK::Func, name: &n }); l.funcs.push(Ty::FuncU32); }
                                    IExp::Type => { sec.alias(Alias::InstanceExport { instance: i, kind: CEK::Type, name: &n }); l.types.push(Ty::FuncOther /* opaque: never used as a value type */); }
                                }
                                any = true;
                            }
                            _ if !outer.is_empty() => {
                                let count = 1 + self.r.below(outer.len() as u64) as usize;
                                let o = &outer[outer.len() - count];
                                let ds: Vec<u32> = o.types.iter().enumerate().filter(|(_, t)| matches!(t, Ty::Def | Ty::FuncNullary | Ty::FuncU32)).map(|(i, _)| i as u32).collect();
                                match self.r.below(3) {
                                    0 if !o.core_modules.is_empty() => {
                                        let i = self.r.below(o.core_modules.len() as u64) as usize;
                                        sec.alias(Alias::Outer { kind: ComponentOuterAliasKind::CoreModule, count: count as u32, index: i as u32 });
                                        l.core_modules.push(o.core_modules[i]); any = true;
                                    }
                                    1 if !o.components.is_empty() => {
                                        let i = self.r.below(o.components.len() as u64) as usize;
                                        sec.alias(Alias::Outer { kind: ComponentOuterAliasKind::Component, count: count as u32, index: i as u32 });
                                        l.components.push(o.components[i]); any = true;
                                    }
                                    _ if !ds.is_empty() => {
                                        let i = *self.r.pick(&ds);
                                        sec.alias(Alias::Outer { kind: ComponentOuterAliasKind::Type, count: count as u32, index: i });
                                        l.types.push(o.types[i as usize].clone()); any = true;
                                    }
                                    _ => {}
                                }
                            }
                            _ => {}
                        }
                    }
                    if any { c.section(&sec); }
                }
                11 => {
                    let mut sec = we::CanonicalFunctionSection::new();
                    let mut any = false;
                    for _ in 0..nitems {
                        let lowerable: Vec<u32> = l.funcs.iter().enumerate().filter(|(_, t)| matches!(t, Ty::FuncNullary | Ty::FuncU32)).map(|(i, _)| i as u32).collect();
                        let res: Vec<u32> = l.types.iter().enumerate().filter(|(_, t)| **t == Ty::Resource).map(|(i, _)| i as u32).collect();
                        let streams: Vec<u32> = l.types.iter().enumerate().filter(|(_, t)| **t == Ty::Stream).map(|(i, _)| i as u32).collect();
                        let futures: Vec<u32> = l.types.iter().enumerate().filter(|(_, t)| **t == Ty::Future).map(|(i, _)| i as u32).collect();
                        match self.r.below(9) {
                            0 | 1 if !lowerable.is_empty() => {
                                let i = *self.r.pick(&lowerable);
                                sec.lower(i, Vec::<CanonicalOption>::new());
                                l.core_funcs.push(if l.funcs[i as usize] == Ty::FuncNullary { CoreFn::Nullary } else { CoreFn::I32I32 });
                                any = true;
                            }
                            2 | 3 => {
                                let cands: Vec<(u32, u32)> = l.core_funcs.iter().enumerate().flat_map(|(ci, cf)| {
                                    let want = match cf { CoreFn::Nullary => Ty::FuncNullary, CoreFn::I32I32 => Ty::FuncU32, CoreFn::Other => Ty::CompOther };
                                    l.types.iter().enumerate().filter(move |(_, t)| **t == want).map(move |(ti, _)| (ci as u32, ti as u32)).collect::<Vec<_>>()
                                }).collect();
                                if !cands.is_empty() {
                                    let (ci, ti) = *self.r.pick(&cands);
                                    sec.lift(ci, ti, Vec::<CanonicalOption>::new());
                                    l.funcs.push(l.types[ti as usize].clone());
                                    any = true;
                                }
                            }
                            4 if !res.is_empty() => { sec.resource_drop(*self.r.pick(&res)); l.core_funcs.push(CoreFn::Other); any = true; }
                            5 if !streams.is_empty() => {
                                let t = *self.r.pick(&streams);
                                match self.r.below(3) { 0 => sec.stream_new(t), 1 => sec.stream_drop_readable(t), _ => sec.stream_cancel_read(t, false) };
                                l.core_funcs.push(CoreFn::Other); any = true;
                            }
                            6 if !futures.is_empty() => {
                                let t = *self.r.pick(&futures);
                                match self.r.below(3) { 0 => sec.future_new(t), 1 => sec.future_drop_writable(t), _ => sec.future_cancel_write(t, true) };
                                l.core_funcs.push(CoreFn::Other); any = true;
                            }
                            7 => {
                                match self.r.below(6) { 0 => sec.backpressure_set(), 1 => sec.waitable_set_new(), 2 => sec.subtask_drop(), 3 => sec.task_cancel(), 4 => sec.context_get(0), _ => sec.waitable_join() };
                                l.core_funcs.push(CoreFn::Other); any = true;
                            }
                            _ => {}
                        }
                    }
                    if any { c.section(&sec); }
                }
                12 => {
                    let mut sec = we::ComponentInstanceSection::new();
                    let mut any = false;
                    for _ in 0..nitems {
                        let cs: Vec<u32> = l.components.iter().enumerate().filter(|(_, b)| **b).map(|(i, _)| i as u32).collect();
                        if !cs.is_empty() && self.r.chance(2, 3) {
                            sec.instantiate(*self.r.pick(&cs), Vec::<(&str, CEK, u32)>::new());
                            l.instances.push(vec![]); any = true;
                        } else if !l.funcs.is_empty() {
                            let i = self.r.below(l.funcs.len() as u64) as usize;
                            let n = self.name("ie");
                            sec.export_items(vec![(n.as_str(), CEK::Func, i as u32)]);
                            let k = match l.funcs[i] { Ty::FuncNullary => Some(IExp::FuncNullary), Ty::FuncU32 => Some(IExp::FuncU32), _ => None };
                            l.instances.push(k.map(|k| vec![(n.clone(), k)]).unwrap_or_default()); any = true;
                        }
                    }
                    if any { c.section(&sec); }
                }
                13 => {
                    c.section(&we::CustomSection { name: self.name("custom").into(), data: vec![self.r.below(256) as u8; self.r.below(4) as usize].into() });
                }
                14 if !l.has_start && self.r.chance(1, 2) => {
                    let fs: Vec<u32> = l.funcs.iter().enumerate().filter(|(_, t)| **t == Ty::FuncNullary).map(|(i, _)| i as u32).collect();
                    if !fs.is_empty() {
                        c.section(&we::ComponentStartSection { function_index: *self.r.pick(&fs), args: Vec::<u32>::new(), results: 0 });
                        l.has_start = true;
                    }
                }
                _ => {
                    if depth_left > 0 {
                        nested_done = true;
                        outer.push(l.clone());
                        let sub = self.level(depth_left - 1, outer, budget);
                        outer.pop();
                        // a nested component generated here may have imports: find out from its bytes
                        let no_imports = !component_has_imports(sub.as_slice());
                        c.section(&we::NestedComponentSection(&sub));
                        l.components.push(no_imports);
                    } else {
                        let m = self.core_module();
                        c.section(&we::ModuleSection(&m));
                        l.core_modules.push(true);
                    }
                }
            }
        }
        if name_pos == Some(nsec) { self.names(&mut c, &l); }
        if self.chainy {
            if depth_left > 0 {
                outer.push(l.clone());
                let sub = self.level(depth_left - 1, outer, budget);
                outer.pop();
                c.section(&we::NestedComponentSection(&sub));
            } else if self.r.chance(2, 3) {
                let m = self.core_module();
                c.section(&we::ModuleSection(&m));
            }
        }
        c
    }

    fn names(&mut self, c: &mut we::Component, l: &Lvl) {
        let mut ns = we::ComponentNameSection::new();
        if self.r.chance(1, 2) { ns.component(&self.name("comp")); }
        let mut mk = |n: usize, g: &mut Gen| { let mut m = we::NameMap::new(); for i in 0..n.min(3) { if g.r.chance(2, 3) { m.append(i as u32, &g.name("n")); } } m };
        if !l.core_funcs.is_empty() && self.r.chance(1, 2) { let m = mk(l.core_funcs.len(), self); ns.core_funcs(&m); }
        if !l.core_modules.is_empty() && self.r.chance(1, 2) { let m = mk(l.core_modules.len(), self); ns.core_modules(&m); }
        if !l.core_instances.is_empty() && self.r.chance(1, 2) { let m = mk(l.core_instances.len(), self); ns.core_instances(&m); }
        if !l.funcs.is_empty() && self.r.chance(1, 2) { let m = mk(l.funcs.len(), self); ns.funcs(&m); }
        if !l.types.is_empty() && self.r.chance(1, 2) { let m = mk(l.types.len(), self); ns.types(&m); }
        if !l.components.is_empty() && self.r.chance(1, 2) { let m = mk(l.components.len(), self); ns.components(&m); }
        if !l.instances.is_empty() && self.r.chance(1, 2) { let m = mk(l.instances.len(), self); ns.instances(&m); }
        c.section(&ns);
    }
}

fn rec_member(i: usize) -> we::SubType {
    let ft = if i % 2 == 0 { we::FuncType::new(vec![], vec![]) } else { we::FuncType::new(vec![we::ValType::I32], vec![we::ValType::I64]) };
    we::SubType { is_final: true, supertype_idx: None, composite_type: we::CompositeType { inner: we::CompositeInnerType::Func(ft), shared: false } }
}

fn component_has_imports(bytes: &[u8]) -> bool {
    let mut open = 0;
    for p in wasmparser::Parser::new(0).parse_all(bytes) {
        match p {
            Ok(wasmparser::Payload::ModuleSection { .. }) | Ok(wasmparser::Payload::ComponentSection { .. }) => open += 1,
            Ok(wasmparser::Payload::End(_)) => { if open > 0 { open -= 1; } }
            Ok(wasmparser::Payload::ComponentImportSection(s)) if open == 0 => { if s.count() > 0 { return true; } }
            Err(_) => return true,
            _ => {}
        }
    }
    false
}

pub fn validate_err(bytes: &[u8]) -> Option<String> {
    wasmparser::Validator::new_with_features(wasmparser::WasmFeatures::all()).validate_all(bytes).err().map(|e| e.to_string())
}

/// Draw components until the validator accepts one (at most 40 draws; the last resort is a fixed tiny component).
pub fn gen_valid_component(r: &mut Rng) -> (Vec<u8>, Vec<String>) {
    for attempt in 0..40 {
        let maxdepth = match r.below(10) { 0 => 0, 1 | 2 => 1, 3 | 4 | 5 => 2, _ => 3 } as u32; // component levels below the root; a module may sit one deeper
        let mut budget = 8 + r.below(50) as i32;
        let chainy = maxdepth >= 2 && r.chance(1, 3);
        let mut g = Gen { r, uniq: 0, n_sections: 0, stream_future_nested: false, chainy };
        let c = g.level(maxdepth, &mut vec![], &mut budget);
        let sfn = g.stream_future_nested;
        let bytes = c.finish();
        match validate_err(&bytes) {
            None => return (bytes, vec![format!("attempts={}", attempt + 1), format!("nested_payloadless_stream={}", sfn), format!("chain_shape={}", chainy)]),
            Some(e) => { if std::env::var("VH_GENDEBUG").is_ok() { eprintln!("rejected: {}", e); } }
        }
    }
    (we::Component::new().finish(), vec!["attempts=fallback".into()])
}

/// hand-written witnesses of the known findings (always run, after the generated cases)
pub fn witnesses() -> Vec<(String, String)> {
    vec![
        ("D14-min: a section follows the only child of a component that has a grandchild".into(),
         "(component (component (component (core module)) (type (func))))".into()),
        ("D14-harmless: depth 3 but nothing follows the last child".into(),
         "(component (component (component (core module))))".into()),
        ("D14-absorbed: a following module absorbs the deficit".into(),
         "(component (component (component (core module)) (core module)))".into()),
        ("D14-depth4: module duplicated into an ancestor".into(),
         "(component (component (component (component (core module)) (core module $m1 (func))) (type (func))))".into()),
        ("D14-panic: the child's start section leaks into a parent that has its own (assert_eq!(start_section.len(), 1))".into(),
         "(component (import \"f\" (func $f)) (component (import \"g\" (func $g)) (component (core module)) (start $g)) (start $f))".into()),
        ("D28-min: payload-less stream inside an instance type declaration".into(),
         "(component (type (instance (type (stream)))))".into()),
        ("D28-comp: payload-less stream inside a component type declaration".into(),
         "(component (type (component (type (stream)) (type (future)))))".into()),
        ("toplevel payload-less stream is preserved".into(),
         "(component (type (stream)) (type (future)))".into()),
    ]
}

/// witnesses that the text format cannot express conveniently, built with wasm-encoder
pub fn witnesses_bytes() -> Vec<(String, Vec<u8>)> {
    let st = |ft: we::FuncType| we::SubType { is_final: true, supertype_idx: None, composite_type: we::CompositeType { inner: we::CompositeInnerType::Func(ft), shared: false } };
    let mut v = vec![];
    // explicit core rec group inside an instance type declaration (wrappers.rs re-encodes the members one by one)
    {
        let mut it = we::InstanceType::new();
        it.core_type().core().rec(vec![st(we::FuncType::new(vec![], vec![])), st(we::FuncType::new(vec![we::ValType::I32], vec![]))]);
        let mut sec = we::ComponentTypeSection::new();
        sec.instance(&it);
        let mut c = we::Component::new();
        c.section(&sec);
        v.push(("explicit core rec group inside an instance type declaration".to_string(), c.finish()));
    }
    {
        let mut ct = we::ComponentType::new();
        ct.core_type().core().rec(vec![st(we::FuncType::new(vec![], vec![])), st(we::FuncType::new(vec![we::ValType::I32], vec![]))]);
        let mut sec = we::ComponentTypeSection::new();
        sec.component(&ct);
        let mut c = we::Component::new();
        c.section(&sec);
        v.push(("explicit core rec group inside a component type declaration".to_string(), c.finish()));
    }
    {
        let mut sec = we::CoreTypeSection::new();
        sec.ty().core().rec(vec![st(we::FuncType::new(vec![], vec![])), st(we::FuncType::new(vec![we::ValType::I32], vec![]))]);
        let mut c = we::Component::new();
        c.section(&sec);
        v.push(("explicit core rec group in a core type section".to_string(), c.finish()));
    }
    v
}
