//! Shared infrastructure of the correspondence harness: PRNG, command line, shard writer.
//!
//! Every engine binary (src/bin/*.rs) is invoked by /verif/check as
//!   <bin> --prop Cxx --seed S --n N --shards K --out DIR [--only I] [--extra S:I,S:I..]
//! and writes DIR/s<k>.v (a Coq file whose last command evaluates the report) and DIR/s<k>.json
//! (per-case descriptions, hashes, tags).  Case i of seed S is generated from Rng::for_case(S, i)
//! only, so any single case can be regenerated for a replay.
use std::collections::BTreeMap;
use std::fmt::Write as _;

pub mod wasmgen;

#[derive(Clone)]
pub struct Rng(pub u64);
impl Rng {
    pub fn for_case(seed: u64, idx: u64) -> Rng {
        let mut r = Rng(seed.wrapping_mul(0x9E3779B97F4A7C15) ^ idx.wrapping_mul(0xD1B54A32D192ED03) ^ 0x5851F42D4C957F2D);
        r.next();
        r.next();
        r
    }
    pub fn next(&mut self) -> u64 {
        self.0 = self.0.wrapping_add(0x9E3779B97F4A7C15);
        let mut z = self.0;
        z = (z ^ (z >> 30)).wrapping_mul(0xBF58476D1CE4E5B9);
        z = (z ^ (z >> 27)).wrapping_mul(0x94D049BB133111EB);
        z ^ (z >> 31)
    }
    pub fn below(&mut self, n: u64) -> u64 {
        if n == 0 { 0 } else { self.next() % n }
    }
    pub fn range(&mut self, lo: u64, hi: u64) -> u64 {
        lo + self.below(hi - lo + 1)
    }
    pub fn chance(&mut self, num: u64, den: u64) -> bool {
        self.below(den) < num
    }
    pub fn pick<'a, T>(&mut self, v: &'a [T]) -> &'a T {
        &v[self.below(v.len() as u64) as usize]
    }
}

pub struct Args {
    pub prop: String,
    pub seed: u64,
    pub n: usize,
    pub shards: usize,
    pub out: String,
    pub only: Option<u64>,
    pub extra: Vec<(u64, u64)>,
    pub flags: Vec<String>,
}
pub fn parse_args() -> Args {
    let a: Vec<String> = std::env::args().collect();
    let mut r = Args { prop: String::new(), seed: 0, n: 100, shards: 1, out: "out".into(), only: None, extra: vec![], flags: vec![] };
    let mut i = 1;
    while i < a.len() {
        let v = || a.get(i + 1).cloned().unwrap_or_default();
        match a[i].as_str() {
            "--prop" => { r.prop = v(); i += 1; }
            "--seed" => { r.seed = v().parse().unwrap_or(0); i += 1; }
            "--n" => { r.n = v().parse().unwrap(); i += 1; }
            "--shards" => { r.shards = v().parse().unwrap(); i += 1; }
            "--out" => { r.out = v(); i += 1; }
            "--only" => { r.only = Some(v().parse().unwrap()); i += 1; }
            "--extra" => {
                for p in v().split(',').filter(|s| !s.is_empty()) {
                    let mut it = p.split(':');
                    let s: u64 = it.next().unwrap().parse().unwrap();
                    let k: u64 = it.next().unwrap().parse().unwrap();
                    r.extra.push((s, k));
                }
                i += 1;
            }
            f => r.flags.push(f.to_string()),
        }
        i += 1;
    }
    if std::env::var("VH_DEBUG").is_err() {
        std::panic::set_hook(Box::new(|_| {}));
    }
    r
}

pub fn json_str(s: &str) -> String {
    let mut o = String::with_capacity(s.len() + 2);
    o.push('"');
    for c in s.chars() {
        match c {
            '"' => o.push_str("\\\""),
            '\\' => o.push_str("\\\\"),
            '\n' => o.push_str("\\n"),
            '\t' => o.push_str("\\t"),
            '\r' => o.push_str("\\r"),
            c if (c as u32) < 0x20 => { let _ = write!(o, "\\u{:04x}", c as u32); }
            c => o.push(c),
        }
    }
    o.push('"');
    o
}

pub fn fnv(s: &str) -> u64 {
    let mut h: u64 = 0xcbf29ce484222325;
    for b in s.as_bytes() {
        h ^= *b as u64;
        h = h.wrapping_mul(0x100000001b3);
    }
    h
}

/// One generated case: the Gallina term, a human-readable description (also what a replay prints),
/// whether it is non-trivial by the engine's rule, and tags for the input-distribution statistics.
pub struct Case {
    pub seed: u64,
    pub idx: u64,
    pub coq: String,
    pub desc: String,
    pub nontrivial: bool,
    pub tags: Vec<String>,
}

/// Generates all cases (corpus entries first) and writes the shard files.
/// `header` = Coq text placed before `Definition cases`, `case_ty` = the Coq type of one case,
/// `footer` = the final command(s), normally `Eval vm_compute in (report_Cxx cases).`
pub fn run_shards<F: FnMut(u64, u64) -> Case>(args: &Args, header: &str, case_ty: &str, footer: &str, mut gen: F) {
    std::fs::create_dir_all(&args.out).unwrap();
    let mut ids: Vec<(u64, u64)> = vec![];
    if let Some(i) = args.only {
        ids.push((args.seed, i));
    } else {
        ids.extend(args.extra.iter().cloned());
        ids.extend((0..args.n as u64).map(|i| (args.seed, i)));
    }
    let shards = args.shards.max(1).min(ids.len().max(1));
    let per = (ids.len() + shards - 1) / shards.max(1);
    for k in 0..shards {
        let lo = (k * per).min(ids.len());
        let hi = ((k + 1) * per).min(ids.len());
        let mut v = String::new();
        let mut j = String::from("{\"cases\":[");
        v.push_str(header);
        let _ = writeln!(v, "\nDefinition cases : list ({}) := [", case_ty);
        let mut stats: BTreeMap<String, u64> = BTreeMap::new();
        for (n, (s, i)) in ids[lo..hi].iter().enumerate() {
            let c = gen(*s, *i);
            let _ = writeln!(v, "  {}{}", if n == 0 { "" } else { "; " }, c.coq);
            if n > 0 { j.push(','); }
            let _ = write!(j, "{{\"seed\":{},\"idx\":{},\"hash\":\"{:016x}\",\"nontrivial\":{},\"desc\":{}}}", c.seed, c.idx, fnv(&c.coq), c.nontrivial, json_str(&c.desc));
            for t in c.tags { *stats.entry(t).or_default() += 1; }
        }
        let _ = writeln!(v, "].\n{}", footer);
        j.push_str("],\"stats\":{");
        for (n, (k2, c)) in stats.iter().enumerate() {
            if n > 0 { j.push(','); }
            let _ = write!(j, "{}:{}", json_str(k2), c);
        }
        j.push_str("}}");
        std::fs::write(format!("{}/s{}.v", args.out, k), v).unwrap();
        std::fs::write(format!("{}/s{}.json", args.out, k), j).unwrap();
    }
}

pub fn coq_list<T, F: Fn(&T) -> String>(v: &[T], f: F) -> String {
    format!("[{}]", v.iter().map(|x| f(x)).collect::<Vec<_>>().join("; "))
}
pub fn coq_opt<T, F: Fn(&T) -> String>(v: &Option<T>, f: F) -> String {
    match v { None => "None".into(), Some(x) => format!("(Some {})", f(x)) }
}
pub fn coq_bool(b: bool) -> &'static str { if b { "true" } else { "false" } }
pub fn coq_z(z: i128) -> String { if z < 0 { format!("({})%Z", z) } else { format!("{}%Z", z) } }
