// Shared by the parse engine's harness binaries (parsefuzz: C03, roundtrip: C02 / C01); included with #[path].
//  * panic capture: a hook that records (file, line, message); `classify` maps it to the committed site table by
//    (file, enclosing function, message prefix) -- the line is only used to find the enclosing function in the
//    current source text;
//  * small binary helpers (LEB, section lists);
//  * the payload abstraction of a byte string (`abs_module`, `abs_component`): what Module::parse_internal /
//    Component::parse_comp inspect, computed with this file's own defensive wasmparser pass.
#![allow(dead_code)]
use std::collections::BTreeMap;
use std::panic::{catch_unwind, AssertUnwindSafe};
use std::sync::Mutex;
use vharness::*;
use wasm_encoder as we;
use wasmparser as wp;

// ------------------------------------------------------------------------------------------------
// panic sites

/// The committed table of known panic site classes: (class, file suffix, enclosing function, message prefix).
/// The same numbers are listed in coq/Model/ParseGlue.v (`known_panic_sites`) and known_findings.json.
pub const SITE_TABLE: &[(u64, &str, &str, &str)] = &[
    (901, "src/ir/module/mod.rs", "parse_internal", "index out of bounds"),
    (902, "src/ir/module/mod.rs", "parse_internal", "called `Option::unwrap()` on a `None` value"),
    (903, "src/ir/module/mod.rs", "parse_internal", "producers field"),
    (904, "src/ir/module/mod.rs", "parse_internal", "values"),
    (905, "src/ir/module/mod.rs", "parse_internal", "Error encored in tag section!"),
    (906, "src/ir/types.rs", "eval", "Invalid constant expression"),
    (907, "src/ir/module/mod.rs", "parse_internal", "no entry found for key"),
    (908, "src/ir/module/module_types.rs", "params", "Not a function!"),
    (909, "src/ir/wrappers.rs", "namemap_parser2encoder", "called `Result::unwrap()` on an `Err` value"),
    (910, "src/ir/wrappers.rs", "indirect_namemap_parser2encoder", "called `Result::unwrap()` on an `Err` value"),
    (911, "src/ir/wrappers.rs", "add_to_namemap", "called `Result::unwrap()` on an `Err` value"),
    (912, "src/ir/component.rs", "parse_comp", "range end index"),
];

pub static LAST_PANIC: Mutex<Option<(String, u32, String)>> = Mutex::new(None);
pub static SRC_CACHE: Mutex<BTreeMap<String, Vec<(u32, String)>>> = Mutex::new(BTreeMap::new());

pub fn install_hook() {
    std::panic::set_hook(Box::new(|info| {
        let (f, l) = info.location().map(|l| (l.file().to_string(), l.line())).unwrap_or(("?".into(), 0));
        let msg = if let Some(s) = info.payload().downcast_ref::<&str>() {
            s.to_string()
        } else if let Some(s) = info.payload().downcast_ref::<String>() {
            s.clone()
        } else {
            "?".into()
        };
        if let Ok(mut g) = LAST_PANIC.lock() {
            *g = Some((f, l, msg));
        }
    }));
}

/// `fn` items of a source file as (line, name), by a light lexical scan (enough to name the enclosing function)
pub fn fn_lines(path: &str) -> Vec<(u32, String)> {
    let mut cache = SRC_CACHE.lock().unwrap();
    if let Some(v) = cache.get(path) {
        return v.clone();
    }
    let mut v = vec![];
    if let Ok(src) = std::fs::read_to_string(path) {
        for (n, line) in src.lines().enumerate() {
            let t = line.trim_start();
            if t.starts_with("//") {
                continue;
            }
            if let Some(p) = t.find("fn ") {
                let before_ok = p == 0 || t[..p].ends_with(' ') || t[..p].ends_with('(');
                let name: String = t[p + 3..].chars().take_while(|c| c.is_alphanumeric() || *c == '_').collect();
                if before_ok && !name.is_empty() {
                    v.push((n as u32 + 1, name));
                }
            }
        }
    }
    cache.insert(path.to_string(), v.clone());
    v
}

pub fn norm_file(f: &str) -> String {
    if let Some(p) = f.find("/registry/src/") {
        // a dependency from the cargo registry: <crate>-<version>/src/...
        let rest = &f[p + "/registry/src/".len()..];
        let rest = rest.splitn(2, '/').nth(1).unwrap_or(rest);
        return format!("registry:{}", rest);
    }
    if f.contains("/rustc/") || f.starts_with("library/") {
        return "std".into();
    }
    match f.rfind("src/ir/").or_else(|| f.rfind("src/")) {
        Some(p) => f[p..].to_string(),
        None => f.to_string(),
    }
}

pub fn norm_msg(m: &str) -> String {
    let mut o = String::new();
    let mut in_digits = false;
    for c in m.chars() {
        if c.is_ascii_digit() {
            if !in_digits { o.push('#'); }
            in_digits = true;
        } else {
            in_digits = false;
            o.push(c);
        }
        if o.len() >= 70 { break; }
    }
    o
}

/// (class, key) of the recorded panic; key = "file::function::message"
pub fn classify(p: &(String, u32, String)) -> (u64, String) {
    let file = norm_file(&p.0);
    let func = if file.starts_with("src/") {
        let fl = fn_lines(&p.0);
        fl.iter().rev().find(|(l, _)| *l <= p.1).map(|(_, n)| n.clone()).unwrap_or_else(|| "?".into())
    } else {
        "?".into()
    };
    let msg = norm_msg(&p.2);
    for (k, f, fun, pre) in SITE_TABLE {
        if file == *f && func == *fun && p.2.starts_with(pre) {
            return (*k, format!("{}::{}::{}", f, fun, pre));
        }
    }
    let key = format!("{}::{}::{}", file, func, msg);
    (1_000_000 + fnv(&key) % 1_000_000, key)
}

#[derive(Clone, Debug, PartialEq)]
pub enum Obs { Ok, Err, Panic(u64, String) }
impl Obs {
    pub fn coq(&self) -> String {
        match self { Obs::Ok => "OOk".into(), Obs::Err => "OErr".into(), Obs::Panic(k, _) => format!("(OPanic {})", k) }
    }
    pub fn show(&self) -> String {
        match self { Obs::Ok => "Ok".into(), Obs::Err => "Err".into(), Obs::Panic(k, s) => format!("PANIC[{} {}]", k, s) }
    }
}

pub fn observe<T, E>(f: impl FnOnce() -> Result<T, E>) -> Obs {
    *LAST_PANIC.lock().unwrap() = None;
    match catch_unwind(AssertUnwindSafe(f)) {
        Ok(Ok(_)) => Obs::Ok,
        Ok(Err(_)) => Obs::Err,
        Err(_) => {
            let p = LAST_PANIC.lock().unwrap().clone().unwrap_or(("?".into(), 0, "?".into()));
            let (k, key) = classify(&p);
            Obs::Panic(k, key)
        }
    }
}

// ------------------------------------------------------------------------------------------------
// binary helpers

pub fn leb(mut v: u64, out: &mut Vec<u8>) {
    loop {
        let b = (v & 0x7f) as u8;
        v >>= 7;
        if v == 0 { out.push(b); break; }
        out.push(b | 0x80);
    }
}
pub fn leb_v(v: u64) -> Vec<u8> { let mut o = vec![]; leb(v, &mut o); o }
pub fn read_leb(b: &[u8], pos: &mut usize) -> Option<u64> {
    let mut r = 0u64;
    let mut sh = 0;
    loop {
        let x = *b.get(*pos)?;
        *pos += 1;
        r |= ((x & 0x7f) as u64) << sh;
        if x & 0x80 == 0 { return Some(r); }
        sh += 7;
        if sh > 35 { return None; }
    }
}
pub const MOD_HDR: [u8; 8] = [0, 0x61, 0x73, 0x6d, 1, 0, 0, 0];
pub const COMP_HDR: [u8; 8] = [0, 0x61, 0x73, 0x6d, 0x0d, 0, 1, 0];

pub type Secs = Vec<(u8, Vec<u8>)>;
pub fn assemble(hdr: &[u8; 8], secs: &Secs) -> Vec<u8> {
    let mut o = hdr.to_vec();
    for (id, body) in secs {
        o.push(*id);
        leb(body.len() as u64, &mut o);
        o.extend_from_slice(body);
    }
    o
}
pub fn sec<S: we::Section>(s: &S) -> (u8, Vec<u8>) {
    let mut v = vec![];
    s.encode(&mut v);
    let mut p = 0;
    let _ = read_leb(&v, &mut p);
    (s.id(), v[p..].to_vec())
}
pub fn custom(name: &str, data: &[u8]) -> (u8, Vec<u8>) {
    let mut b = vec![];
    leb(name.len() as u64, &mut b);
    b.extend_from_slice(name.as_bytes());
    b.extend_from_slice(data);
    (0, b)
}

// ------------------------------------------------------------------------------------------------
// the abstraction: what the glue code of Module::parse_internal / Component::parse_comp inspects

pub fn b(x: bool) -> &'static str { coq_bool(x) }

/// const expression as InitExpr::eval reads it: (operator classes in reading order, data after `end`)
pub fn abs_cexpr(e: &wp::ConstExpr) -> String {
    use wp::Operator::*;
    let mut reader = e.get_operators_reader();
    let mut ops: Vec<&str> = vec![];
    let mut trailing = false;
    loop {
        match reader.read() {
            Err(_) => { ops.push("XReadErr"); break; }
            Ok(End) => { ops.push("XEnd"); trailing = !reader.eof(); break; }
            Ok(RefNull { hty }) => {
                // RefType::new(true, hty) is None only for an index that does not pack into 20 bits; the reader has packed it already
                if wp::RefType::new(true, hty).is_none() { ops.push("XReadErr"); break; }
                ops.push("XOk");
            }
            Ok(I32Const { .. }) | Ok(I64Const { .. }) | Ok(F32Const { .. }) | Ok(F64Const { .. }) | Ok(V128Const { .. }) | Ok(GlobalGet { .. })
            | Ok(RefFunc { .. }) | Ok(StructNew { .. }) | Ok(StructNewDefault { .. }) | Ok(ArrayNew { .. }) | Ok(ArrayNewDefault { .. })
            | Ok(ArrayNewFixed { .. }) | Ok(ArrayNewData { .. }) | Ok(ArrayNewElem { .. }) | Ok(RefI31) => ops.push("XOk"),
            Ok(_) => { ops.push("XBad"); break; }
        }
        if ops.len() > 64 { return "([XOk], true)".into(); /* never an observed shape: makes the model answer Unmodelled */ }
    }
    format!("([{}], {})", ops.join("; "), b(trailing))
}

pub fn abs_namemap_ok(m: wp::NameMap) -> bool { m.into_iter().all(|x| x.is_ok()) }

pub struct Abs { pub evs: Vec<String>, pub past_header: bool }

pub fn abs_module(parser: wp::Parser, wasm: &[u8]) -> Abs {
    let mut evs: Vec<String> = vec![];
    let mut past_header = false;
    for payload in parser.parse_all(wasm) {
        let payload = match payload { Ok(p) => p, Err(_) => { evs.push("MErr".into()); break; } };
        use wp::Payload::*;
        match payload {
            Version { num, .. } => { past_header = true; evs.push(format!("MVersion {}", num)); if num != 1 { break; } }
            ImportSection(rd) => {
                let mut nf = 0u64;
                let mut ok = true;
                for i in rd.into_iter() {
                    match i { Ok(i) => { if let wp::TypeRef::Func(_) = i.ty { nf += 1; } } Err(_) => { ok = false; break; } }
                }
                evs.push(format!("MImports {} {}", nf, b(ok)));
                if !ok { break; }
            }
            TypeSection(rd) => {
                let mut kinds = vec![];
                let mut ok = true;
                for g in rd.into_iter() {
                    match g {
                        Ok(g) => for st in g.types() { kinds.push(matches!(st.composite_type.inner, wp::CompositeInnerType::Func(_))); },
                        Err(_) => { ok = false; break; }
                    }
                }
                evs.push(format!("MTypes {} {}", coq_list(&kinds, |k| b(*k).to_string()), b(ok)));
                if !ok { break; }
            }
            DataSection(rd) => {
                let mut items = vec![];
                let mut stop = false;
                for dseg in rd.into_iter() {
                    match dseg {
                        Err(_) => { items.push("DErr".to_string()); stop = true; break; }
                        Ok(dseg) => match dseg.kind {
                            wp::DataKind::Passive => items.push("DPassive".into()),
                            wp::DataKind::Active { offset_expr, .. } => items.push(format!("DActive {}", abs_cexpr(&offset_expr))),
                        },
                    }
                }
                evs.push(format!("MData [{}]", items.join("; ")));
                if stop { break; }
            }
            TableSection(rd) => { let ok = rd.into_iter().all(|x| x.is_ok()); evs.push(format!("MSimple {}", b(ok))); if !ok { break; } }
            MemorySection(rd) => { let ok = rd.into_iter().all(|x| x.is_ok()); evs.push(format!("MSimple {}", b(ok))); if !ok { break; } }
            FunctionSection(rd) => {
                let mut tys = vec![];
                let mut ok = true;
                for x in rd.into_iter() { match x { Ok(t) => tys.push(t), Err(_) => { ok = false; break; } } }
                if tys.len() > 4000 { evs.push("MUnmodelled".into()); break; }
                evs.push(format!("MFuncs {} {}", coq_list(&tys, |t| t.to_string()), b(ok)));
                if !ok { break; }
            }
            GlobalSection(rd) => {
                let mut items = vec![];
                let mut stop = false;
                for g in rd.into_iter() {
                    match g {
                        Err(_) => { items.push("GErr".to_string()); stop = true; break; }
                        Ok(g) => items.push(format!("GInit {}", abs_cexpr(&g.init_expr))),
                    }
                }
                evs.push(format!("MGlobals [{}]", items.join("; ")));
                if stop { break; }
            }
            ExportSection(rd) => { let ok = rd.into_iter().all(|x| x.is_ok()); evs.push(format!("MSimple {}", b(ok))); if !ok { break; } }
            StartSection { .. } => evs.push("MStart".into()),
            ElementSection(rd) => {
                let mut ok = true;
                for e in rd.into_iter() {
                    match e {
                        Err(_) => { ok = false; break; }
                        Ok(e) => {
                            let items_ok = match e.items {
                                wp::ElementItems::Functions(fr) => fr.into_iter().all(|x| x.is_ok()),
                                wp::ElementItems::Expressions(_, er) => er.into_iter().all(|x| x.is_ok()),
                            };
                            if !items_ok { ok = false; break; }
                        }
                    }
                }
                evs.push(format!("MSimple {}", b(ok)));
                if !ok { break; }
            }
            DataCountSection { count, .. } => evs.push(format!("MDataCount {}", count)),
            CodeSectionStart { count, .. } => evs.push(format!("MCodeStart {}", count)),
            CodeSectionEntry(body) => {
                let mut locals_ok = true;
                match body.get_locals_reader() {
                    Err(_) => locals_ok = false,
                    Ok(lr) => {
                        // (LocalsReader::read itself fails with "too many locals" when the running total passes u32::MAX,
                        //  so wirm's `num_locals += count` cannot overflow)
                        for l in lr.into_iter() { if l.is_err() { locals_ok = false; break; } }
                    }
                }
                let mut ops_ok = true;
                let mut last_end = true;
                let mut nzmem = false;
                if locals_ok {
                    match body.get_operators_reader() {
                        Err(_) => ops_ok = false,
                        Ok(or) => match or.into_iter().collect::<Result<Vec<_>, _>>() {
                            Err(_) => ops_ok = false,
                            Ok(ops) => {
                                last_end = ops.last().map_or(true, |o| matches!(o, wp::Operator::End));
                                nzmem = ops.iter().any(|i| match i { wp::Operator::MemoryGrow { mem, .. } | wp::Operator::MemorySize { mem, .. } => *mem != 0, _ => false });
                            }
                        },
                    }
                }
                evs.push(format!("MCodeEntry {} {} {} {}", b(locals_ok), b(ops_ok), b(last_end), b(nzmem)));
                if !locals_ok || !ops_ok { break; }
            }
            TagSection(rd) => {
                let items: Vec<bool> = rd.into_iter().map(|x| x.is_ok()).collect();
                evs.push(format!("MTags {}", coq_list(&items, |k| b(*k).to_string())));
            }
            CustomSection(c) => match c.as_known() {
                wp::KnownCustom::Name(nr) => {
                    let mut subs = vec![];
                    for s in nr {
                        let s = match s { Ok(s) => s, Err(_) => { subs.push("NSErr".to_string()); break; } };
                        match s {
                            wp::Name::Function(names) => {
                                let mut items = vec![];
                                for n in names { match n { Ok(n) => items.push(format!("NIdx {}", n.index)), Err(_) => { items.push("NIErr".into()); break; } } }
                                subs.push(format!("NSFunc [{}]", items.join("; ")));
                            }
                            wp::Name::Local(m) | wp::Name::Label(m) | wp::Name::Field(m) => {
                                let mut items = vec![];
                                for n in m { match n { Ok(n) => items.push(format!("IIMap {}", b(abs_namemap_ok(n.names)))), Err(_) => { items.push("IIErr".into()); break; } } }
                                subs.push(format!("NSInd [{}]", items.join("; ")));
                            }
                            wp::Name::Type(m) | wp::Name::Table(m) | wp::Name::Memory(m) | wp::Name::Global(m) | wp::Name::Element(m) | wp::Name::Data(m) | wp::Name::Tag(m) => {
                                subs.push(format!("NSMap {}", b(abs_namemap_ok(m))));
                            }
                            wp::Name::Module { .. } | wp::Name::Unknown { .. } => subs.push("NSOther".into()),
                        }
                    }
                    evs.push(format!("MName [{}]", subs.join("; ")));
                }
                wp::KnownCustom::Producers(pr) => {
                    let p = match pr.into_iter().next() {
                        None => "PNone".to_string(),
                        Some(Err(_)) => "PFieldErr".to_string(),
                        Some(Ok(fld)) => format!("(PField {})", b(fld.values.into_iter().all(|x| x.is_ok()))),
                    };
                    evs.push(format!("MProducers {}", p));
                }
                _ => evs.push("MCustom".into()),
            },
            UnknownSection { .. } => { evs.push("MUnknown".into()); break; }
            ModuleSection { .. } | InstanceSection(_) | CoreTypeSection(_) | ComponentSection { .. } | ComponentInstanceSection(_) | ComponentAliasSection(_)
            | ComponentTypeSection(_) | ComponentCanonicalSection(_) | ComponentStartSection { .. } | ComponentImportSection(_) | ComponentExportSection(_) | End(_) => evs.push("MIgnored".into()),
            _ => { evs.push("MUnmodelled".into()); break; }
        }
        if evs.len() > 3000 { evs.push("MUnmodelled".into()); break; }
    }
    Abs { evs, past_header }
}

pub fn abs_component(parser: wp::Parser, wasm: &[u8], start: usize, evs: &mut Vec<String>, depth: u32) -> bool {
    // returns false when the walk must stop (an event after which wirm cannot continue)
    let mut skip = 0u32; // nesting depth of the inline payloads of a child that has been handled recursively
    for payload in parser.parse_all(wasm) {
        // wirm tests `payload?` before it looks at its nesting stack: an Err payload at any depth is an Err
        let payload = match payload { Ok(p) => p, Err(_) => { evs.push("CErr".into()); return false; } };
        use wp::Payload::*;
        if skip > 0 {
            match payload {
                ModuleSection { .. } | ComponentSection { .. } => skip += 1,
                End(_) => skip -= 1,
                _ => {}
            }
            continue;
        }
        macro_rules! items { ($rd:expr) => {{ let ok = $rd.into_iter().all(|x| x.is_ok()); evs.push(format!("CItems {}", b(ok))); if !ok { return false; } }}; }
        match payload {
            ComponentImportSection(rd) => items!(rd),
            ComponentExportSection(rd) => items!(rd),
            InstanceSection(rd) => items!(rd),
            CoreTypeSection(rd) => items!(rd),
            ComponentTypeSection(rd) => items!(rd),
            ComponentInstanceSection(rd) => items!(rd),
            ComponentAliasSection(rd) => items!(rd),
            ComponentCanonicalSection(rd) => items!(rd),
            ModuleSection { parser, unchecked_range } => {
                let ok = unchecked_range.start >= start && unchecked_range.end - start <= wasm.len() && unchecked_range.start <= unchecked_range.end;
                if !ok { evs.push("CModule false []".into()); return false; }
                let a = abs_module(parser, &wasm[unchecked_range.start - start..unchecked_range.end - start]);
                evs.push(format!("CModule true [{}]", a.evs.join("; ")));
                skip = 1;
            }
            ComponentSection { parser, unchecked_range } => {
                let ok = unchecked_range.start >= start && unchecked_range.end - start <= wasm.len() && unchecked_range.start <= unchecked_range.end;
                evs.push(format!("CEnter {}", b(ok)));
                if !ok { return false; }
                if depth > 50 { evs.push("CUnmodelled".into()); return false; }
                // the nested parse runs first; wirm stops at its first Err / panic (the model looks for the first failing event)
                if !abs_component(parser, &wasm[unchecked_range.start - start..unchecked_range.end - start], unchecked_range.start, evs, depth + 1) {
                    return false;
                }
                skip = 1;
            }
            CustomSection(c) => match c.as_known() {
                wp::KnownCustom::ComponentName(nr) => {
                    let mut subs = vec![];
                    for s in nr {
                        let s = match s { Ok(s) => s, Err(_) => { subs.push("CSErr".to_string()); break; } };
                        use wp::ComponentName as CN;
                        match s {
                            CN::Component { .. } | CN::Unknown { .. } => subs.push("CSOther".into()),
                            CN::CoreFuncs(m) | CN::CoreGlobals(m) | CN::CoreMemories(m) | CN::CoreTables(m) | CN::CoreTags(m) | CN::CoreModules(m) | CN::CoreInstances(m)
                            | CN::CoreTypes(m) | CN::Types(m) | CN::Instances(m) | CN::Components(m) | CN::Funcs(m) | CN::Values(m) => subs.push(format!("CSMap {}", b(abs_namemap_ok(m)))),
                        }
                    }
                    evs.push(format!("CName [{}]", subs.join("; ")));
                }
                _ => evs.push("CSkip".into()),
            },
            UnknownSection { .. } => { evs.push("CUnknown".into()); return false; }
            _ => evs.push("CSkip".into()),
        }
        if evs.len() > 3000 { evs.push("CUnmodelled".into()); return false; }
    }
    true
}

