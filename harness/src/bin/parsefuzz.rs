// Correspondence harness of the parse engine, property C03 ("parsing never panics").
//
// Input  : a byte string.  ~94 % are *near-valid* binaries: a generated valid core module (wasm-encoder 0.235,
//          many section kinds and proposals, see `gen_module`) or a small component with nested modules /
//          components, left untouched or mutated (truncation at file / section / header / body boundaries,
//          byte flips, LEB tweaks of section sizes and vector counts, reordering / duplication / deletion of
//          sections, splicing a section body from another generated module, crafted custom / tag / unknown
//          sections); ~6 % are random strings.  Everything is derived from Rng::for_case(seed, idx).
// Driven : wirm::Module::parse(&b, false), wirm::Module::parse(&b, true), wirm::Component::parse(&b, false),
//          each under catch_unwind with a panic hook that records (source file, enclosing function, message
//          class) of the panic -- the line number is only used transiently to look the function name up in the
//          *current* source file and never reaches the case.
// Emitted: the abstraction of the input computed by this file's own defensive wasmparser pass (`abs_module`,
//          `abs_component`: what each payload looks like to the glue code in Module::parse_internal /
//          Component::parse_comp) and the three observations Ok | Err | Panic(site class).  Coq's model
//          (coq/Model/ParseGlue.v) predicts the observation from the abstraction.
// Indices >= 2^40 are the hand-written witnesses of the known findings (`witnesses`, corpus/C03.json).
use std::collections::BTreeMap;
use std::fmt::Write as _;
use std::panic::{catch_unwind, AssertUnwindSafe};
use vharness::*;
use wasm_encoder as we;
use wasmparser as wp;
#[path = "../parseabs.rs"]
mod parseabs;
use parseabs::*;

// ------------------------------------------------------------------------------------------------
// generator of valid modules

#[derive(Clone, Copy, Debug, Default)]
struct Feat { gc: bool, eh: bool, simd: bool, threads: bool, mem64: bool, multimem: bool, extconst: bool }

#[derive(Clone, Copy, Debug, PartialEq)]
enum NamePos { None, End, BeforeCode, BeforeImports, First }

#[derive(Clone, Debug)]
struct Shape {
    feat: Feat,
    name_pos: NamePos,
    name_oob: bool,          // a function name whose index is past the last function
    producers: Option<u32>,  // number of fields
    producers_badname: bool,
    small: bool,
}

fn gen_shape(r: &mut Rng) -> Shape {
    let feat = Feat {
        gc: r.chance(1, 3), eh: r.chance(1, 3), simd: r.chance(1, 3), threads: r.chance(1, 5),
        mem64: r.chance(1, 6), multimem: r.chance(1, 5), extconst: r.chance(1, 8),
    };
    let name_pos = match r.below(40) { 0..=5 => NamePos::None, 6 | 7 => NamePos::BeforeCode, 8 => NamePos::BeforeImports, 9 => NamePos::First, _ => NamePos::End };
    let producers = match r.below(20) { 0 => Some(0), 1..=4 => Some(1), 5 | 6 => Some(r.range(2, 3) as u32), _ => None };
    Shape { feat, name_pos, name_oob: r.chance(1, 25), producers, producers_badname: r.chance(1, 12), small: r.chance(1, 4) }
}

fn abs_ref(ty: we::AbstractHeapType, nullable: bool) -> we::RefType {
    we::RefType { nullable, heap_type: we::HeapType::Abstract { shared: false, ty } }
}

struct Built { secs: Secs, desc: String }

fn gen_module(r: &mut Rng, sh: &Shape) -> Built {
    let f = sh.feat;
    let lim = |r: &mut Rng, n: u64| if sh.small { r.below(n.min(2) + 1) } else { r.below(n + 1) };
    let mut secs: Secs = vec![];
    let mut d = String::new();
    // ---- types
    let mut vals = vec![we::ValType::I32, we::ValType::I64, we::ValType::F32, we::ValType::F64, we::ValType::FUNCREF, we::ValType::EXTERNREF];
    if f.simd { vals.push(we::ValType::V128); }
    if f.eh { vals.push(we::ValType::Ref(abs_ref(we::AbstractHeapType::Exn, true))); }
    if f.gc {
        vals.push(we::ValType::Ref(abs_ref(we::AbstractHeapType::Any, true)));
        vals.push(we::ValType::Ref(abs_ref(we::AbstractHeapType::I31, false)));
        vals.push(we::ValType::Ref(abs_ref(we::AbstractHeapType::Eq, true)));
    }
    let mut ts = we::TypeSection::new();
    let mut func_types: Vec<(u32, usize, usize)> = vec![]; // (index, nparams, nresults)
    let mut ntypes = 0u32;
    ts.ty().function(vec![], vec![]);
    func_types.push((0, 0, 0));
    ntypes += 1;
    for _ in 0..lim(r, 3) {
        let np = r.below(3) as usize;
        let nr = r.below(3) as usize;
        let ps: Vec<_> = (0..np).map(|_| *r.pick(&vals)).collect();
        let rs: Vec<_> = (0..nr).map(|_| *r.pick(&vals)).collect();
        ts.ty().function(ps, rs);
        func_types.push((ntypes, np, nr));
        ntypes += 1;
    }
    let mut struct_idx = None;
    let mut array_idx = None;
    if f.gc {
        // rec group: struct { mut i32, (ref null self) } ; array (mut i8)
        let s = ntypes;
        let a = ntypes + 1;
        let st = we::SubType {
            is_final: false, supertype_idx: None,
            composite_type: we::CompositeType { shared: false, inner: we::CompositeInnerType::Struct(we::StructType { fields: vec![
                we::FieldType { element_type: we::StorageType::Val(we::ValType::I32), mutable: true },
                we::FieldType { element_type: we::StorageType::Val(we::ValType::Ref(we::RefType { nullable: true, heap_type: we::HeapType::Concrete(s) })), mutable: false },
            ].into_boxed_slice() }) },
        };
        let at = we::SubType {
            is_final: true, supertype_idx: None,
            composite_type: we::CompositeType { shared: false, inner: we::CompositeInnerType::Array(we::ArrayType(we::FieldType { element_type: we::StorageType::I8, mutable: true })) },
        };
        ts.ty().rec(vec![st.clone(), at]);
        ntypes += 2;
        struct_idx = Some(s);
        array_idx = Some(a);
        if r.chance(1, 2) {
            // a subtype of the struct with one more field
            let sub = we::SubType {
                is_final: true, supertype_idx: Some(s),
                composite_type: we::CompositeType { shared: false, inner: we::CompositeInnerType::Struct(we::StructType { fields: vec![
                    we::FieldType { element_type: we::StorageType::Val(we::ValType::I32), mutable: true },
                    we::FieldType { element_type: we::StorageType::Val(we::ValType::Ref(we::RefType { nullable: true, heap_type: we::HeapType::Concrete(s) })), mutable: false },
                    we::FieldType { element_type: we::StorageType::I16, mutable: false },
                ].into_boxed_slice() }) },
            };
            ts.ty().subtype(&sub);
            ntypes += 1;
        }
        if r.chance(1, 2) {
            ts.ty().function(vec![we::ValType::Ref(we::RefType { nullable: true, heap_type: we::HeapType::Concrete(s) })], vec![]);
            func_types.push((ntypes, 1, 0));
            ntypes += 1;
        }
    }
    secs.push(sec(&ts));
    // ---- imports
    let mut is = we::ImportSection::new();
    let mut imp_funcs: Vec<u32> = vec![]; // type index of each imported function
    let mut imp_globals = 0u32;
    let mut imp_tables = 0u32;
    let mut imp_mems = 0u32;
    let mut imp_tags = 0u32;
    let nimp = lim(r, 4);
    for i in 0..nimp {
        match r.below(5) {
            0 | 1 => { let t = r.pick(&func_types).0; is.import("env", &format!("f{i}"), we::EntityType::Function(t)); imp_funcs.push(t); }
            2 => { is.import("env", &format!("g{i}"), we::EntityType::Global(we::GlobalType { val_type: we::ValType::I32, mutable: false, shared: false })); imp_globals += 1; }
            3 => {
                if r.chance(1, 2) {
                    is.import("env", &format!("t{i}"), we::EntityType::Table(we::TableType { element_type: we::RefType::FUNCREF, table64: false, minimum: 1, maximum: None, shared: false }));
                    imp_tables += 1;
                } else if imp_mems == 0 || f.multimem {
                    is.import("env", &format!("m{i}"), we::EntityType::Memory(we::MemoryType { minimum: 1, maximum: None, memory64: false, shared: false, page_size_log2: None }));
                    imp_mems += 1;
                }
            }
            _ => {
                if f.eh { is.import("env", &format!("e{i}"), we::EntityType::Tag(we::TagType { kind: we::TagKind::Exception, func_type_idx: 0 })); imp_tags += 1; }
            }
        }
    }
    let has_imports = !is.is_empty();
    let imports_sec = sec(&is);
    // ---- functions
    let nloc = lim(r, 4) as u32;
    let loc_types: Vec<(u32, usize, usize)> = (0..nloc).map(|_| *r.pick(&func_types)).collect();
    let nfuncs = imp_funcs.len() as u32 + nloc;
    let mut fs = we::FunctionSection::new();
    for t in &loc_types { fs.function(t.0); }
    // ---- tables
    let mut tb = we::TableSection::new();
    let ntab_local = lim(r, 2) as u32;
    for _ in 0..ntab_local {
        let tt = we::TableType { element_type: we::RefType::FUNCREF, table64: false, minimum: r.range(1, 4), maximum: if r.chance(1, 2) { Some(8) } else { None }, shared: false };
        match r.below(4) {
            0 => { tb.table_with_init(tt, &we::ConstExpr::ref_null(we::HeapType::FUNC)); }
            1 if nfuncs > 0 => { tb.table_with_init(tt, &we::ConstExpr::ref_func(r.below(nfuncs as u64) as u32)); }
            _ => { tb.table(tt); }
        }
    }
    let ntables = imp_tables + ntab_local;
    // ---- memories
    let mut ms = we::MemorySection::new();
    let mut nmem_local = 0u32;
    let want = if f.multimem { r.below(3) } else { r.below(2) } as u32;
    let mut mem0_64 = false;
    for i in 0..want {
        if imp_mems + nmem_local >= 1 && !f.multimem { break; }
        let m64 = f.mem64 && r.chance(1, 2);
        let shared = f.threads && r.chance(1, 2);
        if imp_mems == 0 && i == 0 { mem0_64 = m64; }
        ms.memory(we::MemoryType { minimum: 1, maximum: if shared || r.chance(1, 2) { Some(4) } else { None }, memory64: m64, shared, page_size_log2: None });
        nmem_local += 1;
    }
    let nmems = imp_mems + nmem_local;
    // ---- tags
    let mut tg = we::TagSection::new();
    let ntag_local = if f.eh { lim(r, 2) as u32 } else { 0 };
    for _ in 0..ntag_local { tg.tag(we::TagType { kind: we::TagKind::Exception, func_type_idx: 0 }); }
    // ---- globals
    let mut gs = we::GlobalSection::new();
    let nglob = lim(r, 5) as u32;
    let mut gforms = vec![];
    for _ in 0..nglob {
        let mutable = r.chance(1, 2);
        let g = |vt: we::ValType| we::GlobalType { val_type: vt, mutable, shared: false };
        let form = r.below(15);
        gforms.push(form);
        match form {
            0 => { gs.global(g(we::ValType::I32), &we::ConstExpr::i32_const(r.next() as i32)); }
            1 => { gs.global(g(we::ValType::I64), &we::ConstExpr::i64_const(r.next() as i64)); }
            2 => { gs.global(g(we::ValType::F32), &we::ConstExpr::f32_const(we::Ieee32::from(f32::from_bits(r.next() as u32)))); }
            3 => { gs.global(g(we::ValType::F64), &we::ConstExpr::f64_const(we::Ieee64::from(f64::from_bits(r.next())))); }
            4 if f.simd => { gs.global(g(we::ValType::V128), &we::ConstExpr::v128_const(((r.next() as u128) << 64 | r.next() as u128) as i128)); }
            5 if imp_globals > 0 => { gs.global(g(we::ValType::I32), &we::ConstExpr::global_get(r.below(imp_globals as u64) as u32)); }
            6 => { gs.global(g(we::ValType::FUNCREF), &we::ConstExpr::ref_null(we::HeapType::FUNC)); }
            7 if nfuncs > 0 => { gs.global(g(we::ValType::FUNCREF), &we::ConstExpr::ref_func(r.below(nfuncs as u64) as u32)); }
            8 if f.gc => {
                let s = struct_idx.unwrap();
                gs.global(g(we::ValType::Ref(we::RefType { nullable: false, heap_type: we::HeapType::Concrete(s) })),
                          &we::ConstExpr::extended(vec![we::Instruction::StructNewDefault(s)]));
            }
            9 if f.gc => {
                let a = array_idx.unwrap();
                gs.global(g(we::ValType::Ref(we::RefType { nullable: false, heap_type: we::HeapType::Concrete(a) })),
                          &we::ConstExpr::extended(vec![we::Instruction::I32Const(3), we::Instruction::ArrayNewDefault(a)]));
            }
            10 if f.gc => {
                gs.global(g(we::ValType::Ref(abs_ref(we::AbstractHeapType::I31, false))),
                          &we::ConstExpr::extended(vec![we::Instruction::I32Const(7), we::Instruction::RefI31]));
            }
            11 if f.gc => {
                let a = array_idx.unwrap();
                gs.global(g(we::ValType::Ref(we::RefType { nullable: true, heap_type: we::HeapType::Concrete(a) })),
                          &we::ConstExpr::extended(vec![we::Instruction::I32Const(1), we::Instruction::I32Const(2), we::Instruction::ArrayNewFixed { array_type_index: a, array_size: 2 }]));
            }
            12 if f.gc => {
                let s = struct_idx.unwrap();
                gs.global(g(we::ValType::Ref(we::RefType { nullable: true, heap_type: we::HeapType::Concrete(s) })),
                          &we::ConstExpr::extended(vec![we::Instruction::I32Const(5), we::Instruction::RefNull(we::HeapType::Concrete(s)), we::Instruction::StructNew(s)]));
            }
            13 if f.extconst => {
                gs.global(g(we::ValType::I32), &we::ConstExpr::i32_const(r.below(100) as i32).with_i32_const(3).with_i32_add());
            }
            14 if f.extconst => {
                gs.global(g(we::ValType::I64), &we::ConstExpr::i64_const(r.below(100) as i64).with_i64_const(3).with_i64_mul());
            }
            _ => { gs.global(g(we::ValType::I32), &we::ConstExpr::i32_const(1)); }
        }
    }
    let nglobals = imp_globals + nglob;
    // ---- exports
    let mut ex = we::ExportSection::new();
    let mut nexp = 0;
    if nfuncs > 0 && r.chance(2, 3) { ex.export("f", we::ExportKind::Func, r.below(nfuncs as u64) as u32); nexp += 1; }
    if ntables > 0 && r.chance(1, 2) { ex.export("t", we::ExportKind::Table, 0); nexp += 1; }
    if nmems > 0 && r.chance(1, 2) { ex.export("m", we::ExportKind::Memory, nmems - 1); nexp += 1; }
    if nglobals > 0 && r.chance(1, 2) { ex.export("g", we::ExportKind::Global, r.below(nglobals as u64) as u32); nexp += 1; }
    if imp_tags + ntag_local > 0 && r.chance(1, 2) { ex.export("e", we::ExportKind::Tag, 0); nexp += 1; }
    // ---- start
    let all_ftypes: Vec<u32> = imp_funcs.iter().cloned().chain(loc_types.iter().map(|t| t.0)).collect();
    let nullary: Vec<u32> = all_ftypes.iter().enumerate().filter(|(_, t)| **t == 0).map(|(i, _)| i as u32).collect();
    let start = if !nullary.is_empty() && r.chance(1, 3) { Some(*r.pick(&nullary)) } else { None };
    // ---- elements
    let mut es = we::ElementSection::new();
    let nel = lim(r, 4);
    let fl = |r: &mut Rng| -> Vec<u32> { if nfuncs == 0 { vec![] } else { (0..r.below(3)).map(|_| r.below(nfuncs as u64) as u32).collect() } };
    let xl = |r: &mut Rng| -> Vec<we::ConstExpr> {
        (0..r.below(3)).map(|_| if nfuncs > 0 && r.chance(1, 2) { we::ConstExpr::ref_func(r.below(nfuncs as u64) as u32) } else { we::ConstExpr::ref_null(we::HeapType::FUNC) }).collect()
    };
    for _ in 0..nel {
        let off = if f.extconst && r.chance(1, 4) { we::ConstExpr::i32_const(0).with_i32_const(0).with_i32_add() } else { we::ConstExpr::i32_const(0) };
        match r.below(8) {
            0 if ntables > 0 => { let l = fl(r); es.active(None, &off, we::Elements::Functions(l.into())); }
            1 => { let l = fl(r); es.passive(we::Elements::Functions(l.into())); }
            2 if ntables > 0 => { let l = fl(r); es.active(Some(r.below(ntables as u64) as u32), &off, we::Elements::Functions(l.into())); }
            3 => { let l = fl(r); es.declared(we::Elements::Functions(l.into())); }
            4 if ntables > 0 => { let l = xl(r); es.active(None, &off, we::Elements::Expressions(we::RefType::FUNCREF, l.into())); }
            5 => { let l = xl(r); es.passive(we::Elements::Expressions(we::RefType::FUNCREF, l.into())); }
            6 if ntables > 0 => { let l = xl(r); es.active(Some(r.below(ntables as u64) as u32), &off, we::Elements::Expressions(we::RefType::FUNCREF, l.into())); }
            7 => { let l = xl(r); es.declared(we::Elements::Expressions(we::RefType::FUNCREF, l.into())); }
            _ => { let l = fl(r); es.passive(we::Elements::Functions(l.into())); }
        }
    }
    // ---- data
    let mut ds = we::DataSection::new();
    let ndata = lim(r, 3) as u32;
    for _ in 0..ndata {
        let bytes: Vec<u8> = (0..r.below(6)).map(|_| r.next() as u8).collect();
        if nmems > 0 && r.chance(2, 3) {
            let m = if imp_mems == 0 { r.below(nmems as u64) as u32 } else { 0 };
            // only memory 0 may be 64-bit in a way we track; later local memories: use i32 unless all are 64
            let is64 = m == 0 && imp_mems == 0 && mem0_64;
            if m != 0 && f.mem64 {
                ds.passive(bytes);
            } else {
                let off = if is64 { we::ConstExpr::i64_const(r.below(64) as i64) }
                    else if imp_globals > 0 && r.chance(1, 4) { we::ConstExpr::global_get(0) }
                    else if f.extconst && r.chance(1, 3) { we::ConstExpr::i32_const(1).with_i32_const(2).with_i32_add() }
                    else { we::ConstExpr::i32_const(r.below(64) as i32) };
                ds.active(m, &off, bytes);
            }
        } else {
            ds.passive(bytes);
        }
    }
    let data_count = ndata > 0 && r.chance(1, 2) || (ndata == 0 && r.chance(1, 8));
    // ---- code
    let mut cs = we::CodeSection::new();
    for t in &loc_types {
        let ng = r.below(4);
        let mut locals = vec![];
        for _ in 0..ng { locals.push((r.range(1, 3) as u32, *r.pick(&vals))); }
        let mut fun = we::Function::new(locals);
        for _ in 0..r.below(4) {
            match r.below(6) {
                0 => { fun.instruction(&we::Instruction::Nop); }
                1 => { fun.instruction(&we::Instruction::I32Const(r.next() as i32)); fun.instruction(&we::Instruction::Drop); }
                2 if nmems > 0 => { fun.instruction(&we::Instruction::MemorySize(nmems - 1)); fun.instruction(&we::Instruction::Drop); }
                3 if !nullary.is_empty() => { fun.instruction(&we::Instruction::Call(*r.pick(&nullary))); }
                4 => { fun.instruction(&we::Instruction::Block(we::BlockType::Empty)); fun.instruction(&we::Instruction::Nop); fun.instruction(&we::Instruction::End); }
                _ => { fun.instruction(&we::Instruction::I64Const(r.next() as i64)); fun.instruction(&we::Instruction::Drop); }
            }
        }
        if t.2 > 0 { fun.instruction(&we::Instruction::Unreachable); }
        fun.instruction(&we::Instruction::End);
        cs.function(&fun);
    }
    // ---- names
    let name_sec = {
        let mut ns = we::NameSection::new();
        if r.chance(2, 3) { ns.module("m"); }
        let mut fm = we::NameMap::new();
        for i in 0..nfuncs { if r.chance(3, 4) { fm.append(i, &format!("fn{i}")); } }
        if sh.name_oob { fm.append(nfuncs + r.below(3) as u32, "ghost"); }
        if nfuncs > 0 || sh.name_oob || r.chance(1, 2) { ns.functions(&fm); }
        if nloc > 0 && r.chance(1, 2) {
            let mut lm = we::IndirectNameMap::new();
            let mut inner = we::NameMap::new();
            inner.append(0, "l0");
            lm.append(imp_funcs.len() as u32, &inner);
            ns.locals(&lm);
            if r.chance(1, 2) { ns.labels(&lm); }
        }
        let mut one = we::NameMap::new();
        one.append(0, "x");
        if r.chance(1, 3) { ns.types(&one); }
        if ntables > 0 && r.chance(1, 2) { ns.tables(&one); }
        if nmems > 0 && r.chance(1, 2) { ns.memories(&one); }
        if nglobals > 0 && r.chance(1, 2) { ns.globals(&one); }
        if nel > 0 && r.chance(1, 2) { ns.elements(&one); }
        if ndata > 0 && r.chance(1, 2) { ns.data(&one); }
        if f.gc && r.chance(1, 2) {
            let mut fm2 = we::IndirectNameMap::new();
            fm2.append(struct_idx.unwrap(), &one);
            ns.fields(&fm2);
        }
        if imp_tags + ntag_local > 0 && r.chance(1, 2) { ns.tag(&one); }
        sec(&ns)
    };
    // ---- producers
    let prod_sec = sh.producers.map(|n| {
        let mut p = we::ProducersSection::new();
        let names = ["language", "processed-by", "sdk"];
        for i in 0..n {
            let mut fld = we::ProducersField::new();
            for j in 0..r.below(3) { fld.value(&format!("v{j}"), "1.0"); }
            let nm = if sh.producers_badname && i == 0 { "tool" } else { names[i as usize % 3] };
            p.field(nm, &fld);
        }
        sec(&p)
    });
    // ---- assemble in the canonical order, custom sections in between
    let some_custom = |r: &mut Rng, secs: &mut Secs| {
        if r.chance(1, 6) {
            let data: Vec<u8> = (0..r.below(5)).map(|_| r.next() as u8).collect();
            secs.push(custom(*r.pick(&["foo", "bar", "", "metadata.code.branch_hint", "dylink.0", "linking", "reloc.CODE", "core", "component-name"]), &data));
        }
    };
    let mut out: Secs = vec![];
    if sh.name_pos == NamePos::First { out.push(name_sec.clone()); }
    out.append(&mut secs); // type section
    some_custom(r, &mut out);
    if sh.name_pos == NamePos::BeforeImports { out.push(name_sec.clone()); }
    if has_imports { out.push(imports_sec); }
    if nloc > 0 || r.chance(1, 2) { out.push(sec(&fs)); }
    some_custom(r, &mut out);
    if ntab_local > 0 { out.push(sec(&tb)); }
    if nmem_local > 0 { out.push(sec(&ms)); }
    if ntag_local > 0 { out.push(sec(&tg)); }
    if nglob > 0 { out.push(sec(&gs)); }
    if nexp > 0 { out.push(sec(&ex)); }
    if let Some(s) = start { out.push((8, leb_v(s as u64))); }
    if nel > 0 { out.push(sec(&es)); }
    if data_count { out.push((12, leb_v(ndata as u64))); }
    some_custom(r, &mut out);
    if let (Some(p), true) = (&prod_sec, r.chance(1, 3)) { out.push(p.clone()); }
    if sh.name_pos == NamePos::BeforeCode { out.push(name_sec.clone()); }
    if nloc > 0 || out.iter().any(|s| s.0 == 3) { out.push(sec(&cs)); }
    if ndata > 0 || data_count { out.push(sec(&ds)); }
    some_custom(r, &mut out);
    if sh.name_pos == NamePos::End { out.push(name_sec.clone()); }
    if let Some(p) = &prod_sec { if !out.contains(p) { out.push(p.clone()); } }
    some_custom(r, &mut out);
    let _ = write!(d, "module[types={} imports={} funcs={}+{} tables={} mems={} tags={} globals={:?} elems={} data={} name={:?}{} producers={:?}{} feat={}{}{}{}{}{}{}]",
        ntypes, nimp, imp_funcs.len(), nloc, ntables, nmems, imp_tags + ntag_local, gforms, nel, ndata, sh.name_pos, if sh.name_oob { "+oob" } else { "" },
        sh.producers, if sh.producers_badname { "+badname" } else { "" },
        if f.gc { "G" } else { "" }, if f.eh { "E" } else { "" }, if f.simd { "S" } else { "" }, if f.threads { "T" } else { "" },
        if f.mem64 { "6" } else { "" }, if f.multimem { "M" } else { "" }, if f.extconst { "X" } else { "" });
    Built { secs: out, desc: d }
}

// ------------------------------------------------------------------------------------------------
// generator of small components

fn gen_component(r: &mut Rng, depth: u32, mutate_inner: bool, d: &mut String) -> Secs {
    let mut out: Secs = vec![];
    let n = r.range(0, 4);
    d.push_str("component[");
    let mut nmods = 0;
    for _ in 0..n {
        match r.below(7) {
            0 | 1 | 2 => {
                let mut sh = gen_shape(r);
                sh.small = true;
                let b = gen_module(r, &sh);
                let mut secs = b.secs;
                let mut bytes = assemble(&MOD_HDR, &secs);
                if mutate_inner && r.chance(1, 2) {
                    let m = mutate(r, &MOD_HDR, &mut secs, d);
                    bytes = m;
                }
                d.push_str("module ");
                out.push((1, bytes));
                nmods += 1;
            }
            3 | 4 if depth > 0 => {
                let inner = gen_component(r, depth - 1, mutate_inner, d);
                out.push((4, assemble(&COMP_HDR, &inner)));
            }
            5 => {
                let mut t = we::ComponentTypeSection::new();
                t.defined_type().primitive(we::PrimitiveValType::U32);
                if r.chance(1, 2) { t.function().params([("a", we::ComponentValType::Primitive(we::PrimitiveValType::String))]).result(None); }
                let mut v = vec![];
                we::Encode::encode(&t, &mut v);
                let mut p = 0;
                let _ = read_leb(&v, &mut p);
                out.push((7, v[p..].to_vec()));
                d.push_str("type ");
            }
            _ => {
                let data: Vec<u8> = (0..r.below(5)).map(|_| r.next() as u8).collect();
                out.push(custom(*r.pick(&["foo", "producers", "name", "component-name"]), &data));
                d.push_str("custom ");
            }
        }
    }
    if r.chance(1, 3) {
        let mut ns = we::ComponentNameSection::new();
        ns.component("c");
        let mut nm = we::NameMap::new();
        for i in 0..nmods { nm.append(i, &format!("m{i}")); }
        if r.chance(1, 2) { ns.core_modules(&nm); }
        if r.chance(1, 3) { ns.components(&nm); }
        if r.chance(1, 3) { ns.core_funcs(&nm); ns.types(&nm); }
        let c = ns.as_custom();
        out.push(custom(&c.name, &c.data));
        d.push_str("component-name ");
    }
    d.push(']');
    out
}

// ------------------------------------------------------------------------------------------------
// crafted sections

fn crafted(r: &mut Rng, d: &mut String) -> (u8, Vec<u8>) {
    let k = r.below(16);
    let _ = write!(d, "craft{} ", k);
    let namesec = |subs: Vec<(u8, Vec<u8>)>| {
        let mut b = vec![];
        for (id, body) in subs { b.push(id); leb(body.len() as u64, &mut b); b.extend_from_slice(&body); }
        custom("name", &b)
    };
    match k {
        0 => custom("producers", &[0]),
        1 => custom("producers", &[1, 4, b't', b'o', b'o', b'l', 0]),
        2 => custom("producers", &[1, 8, b'l', b'a', b'n', b'g', b'u', b'a', b'g', b'e', 1, 1, 0xff, 1, b'1']), // value name not UTF-8
        3 => custom("producers", &[2, 8, b'l', b'a', b'n', b'g', b'u', b'a', b'g', b'e']),                 // field cut short
        4 => custom("producers", &[]),
        5 => namesec(vec![(1, { let mut v = leb_v(1); leb(r.below(40), &mut v); v.extend_from_slice(&[1, b'z']); v })]), // function name, random index
        6 => namesec(vec![(1, vec![2, 0, 1, b'a'])]),                                                        // count 2, one entry
        7 => namesec(vec![(r.range(4, 11) as u8, vec![2, 0, 1, b'a'])]),                                     // plain map cut short
        8 => namesec(vec![(r.range(4, 11) as u8, vec![1, 0, 1, 0xff])]),                                     // plain map, name not UTF-8
        9 => namesec(vec![(*r.pick(&[2u8, 3, 10]), vec![1, 0, 1, 0, 1, 0xff])]),                              // indirect map, inner name not UTF-8
        10 => namesec(vec![(*r.pick(&[2u8, 3, 10]), vec![2, 0, 1, 0, 1, b'a'])]),                             // indirect map cut short
        11 => (13, vec![1, r.below(3) as u8, r.below(3) as u8]),                                             // tag section, attribute may be non-zero
        12 => (13, vec![2, 0, 0]),                                                                           // tag section cut short
        13 => (r.range(14, 40) as u8, vec![0]),                                                              // unknown section id
        14 => (8, leb_v(r.below(4))),                                                                        // (second) start section
        _ => {
            // a global section with one odd initialiser
            let init: Vec<u8> = match r.below(8) {
                0 => vec![0x41, 1, 0x41, 2, 0x6a, 0x0b],                       // i32.const 1 i32.const 2 i32.add end
                1 => vec![0xd0, 0xff, 0xff, 0xff, 0x00, 0x0b],                 // ref.null <concrete 2^21-1>
                2 => vec![0x41, 1, 0x0b, 0x0b],                                // end end
                3 => vec![0x02, 0x40, 0x0b, 0x0b],                             // block end end
                4 => vec![0x01, 0x0b],                                         // nop end
                5 => vec![0x41, 1],                                            // no end
                6 => vec![0xfb, 0x1c, 0x0b],                                   // ref.i31 end
                _ => vec![0x23, 0x00, 0x0b],                                   // global.get 0 end
            };
            let mut b = vec![1, 0x7f, 0];
            b.extend_from_slice(&init);
            (6, b)
        }
    }
}

// ------------------------------------------------------------------------------------------------
// mutations (on a section list; returns the final bytes)

fn mutate(r: &mut Rng, hdr: &[u8; 8], secs: &mut Secs, d: &mut String) -> Vec<u8> {
    let nm = 1 + r.below(3);
    let mut size_tweak: Option<(usize, i64)> = None; // (section, delta) applied to the encoded size at assembly
    let mut post: Vec<u8> = vec![];
    let mut truncate_to: Option<(u8, u64)> = None;
    for _ in 0..nm {
        let ns = secs.len();
        let k = r.below(15);
        match k {
            0 => { truncate_to = Some((0, r.next())); d.push_str("trunc-file "); }
            1 => { truncate_to = Some((1, r.next())); d.push_str("trunc-secboundary "); }
            2 if ns > 0 => {
                let i = r.below(ns as u64) as usize;
                let l = secs[i].1.len();
                let cut = r.below(l as u64 + 1) as usize;
                secs[i].1.truncate(cut);
                let _ = write!(d, "trunc-body(sec{} id{} at {}) ", i, secs[i].0, cut);
            }
            3 | 4 if ns > 0 => {
                let i = r.below(ns as u64) as usize;
                let l = secs[i].1.len();
                if l > 0 {
                    let p = r.below(l as u64) as usize;
                    let old = secs[i].1[p];
                    let new = match r.below(6) { 0 => old ^ (1 << r.below(8)), 1 => r.next() as u8, 2 => 0, 3 => 0xff, 4 => 0x0b, _ => old.wrapping_add(1) };
                    secs[i].1[p] = new;
                    let _ = write!(d, "flip(sec{} id{} @{} {:02x}->{:02x}) ", i, secs[i].0, p, old, new);
                }
            }
            5 if ns > 0 => {
                let i = r.below(ns as u64) as usize;
                let delta = *r.pick(&[-3i64, -2, -1, 1, 2, 3, 100, 1 << 20]);
                size_tweak = Some((i, delta));
                let _ = write!(d, "size{:+}(sec{}) ", delta, i);
            }
            6 if ns > 0 => {
                // tweak the leading vector count of a section body
                let i = r.below(ns as u64) as usize;
                let mut p = 0;
                if secs[i].0 != 0 {
                    if let Some(c) = read_leb(&secs[i].1, &mut p) {
                        let nc = match r.below(5) { 0 => c + 1, 1 => c.saturating_sub(1), 2 => c + 2, 3 => 0xffff_ffff, _ => 0 };
                        let mut b = leb_v(nc);
                        b.extend_from_slice(&secs[i].1[p..]);
                        secs[i].1 = b;
                        let _ = write!(d, "count{}->{}(sec{} id{}) ", c, nc, i, secs[i].0);
                    }
                }
            }
            7 if ns > 1 => {
                let i = r.below(ns as u64) as usize;
                let j = r.below(ns as u64) as usize;
                secs.swap(i, j);
                let _ = write!(d, "swap({},{}) ", i, j);
            }
            8 if ns > 0 => {
                let i = r.below(ns as u64) as usize;
                let s = secs[i].clone();
                let j = r.below(ns as u64 + 1) as usize;
                secs.insert(j, s);
                let _ = write!(d, "dup(sec{}->{}) ", i, j);
            }
            9 if ns > 0 => {
                // splice the body of a section of another generated module
                let sh = gen_shape(r);
                let other = gen_module(r, &sh).secs;
                let i = r.below(ns as u64) as usize;
                let same: Vec<&(u8, Vec<u8>)> = other.iter().filter(|s| s.0 == secs[i].0).collect();
                let src = if !same.is_empty() && r.chance(3, 4) { (*r.pick(&same)).clone() } else { r.pick(&other).clone() };
                let _ = write!(d, "splice(sec{} id{} <- body of id{}) ", i, secs[i].0, src.0);
                secs[i].1 = src.1;
            }
            10 | 11 => {
                let c = crafted(r, d);
                let j = r.below(ns as u64 + 1) as usize;
                secs.insert(j, c);
            }
            12 if ns > 0 => {
                let i = r.below(ns as u64) as usize;
                let s = secs.remove(i);
                let _ = write!(d, "del(sec{} id{}) ", i, s.0);
            }
            13 if ns > 0 => {
                // move a custom (name) section somewhere else
                let cust: Vec<usize> = (0..ns).filter(|i| secs[*i].0 == 0).collect();
                if !cust.is_empty() {
                    let i = *r.pick(&cust);
                    let s = secs.remove(i);
                    let j = r.below(secs.len() as u64 + 1) as usize;
                    secs.insert(j, s);
                    let _ = write!(d, "move-custom({}->{}) ", i, j);
                }
            }
            _ => {
                post = (0..r.range(1, 6)).map(|_| r.next() as u8).collect();
                d.push_str("trailing-bytes ");
            }
        }
    }
    let mut o = hdr.to_vec();
    let mut bounds = vec![o.len()];
    for (i, (id, body)) in secs.iter().enumerate() {
        o.push(*id);
        let mut l = body.len() as i64;
        if let Some((j, dl)) = size_tweak { if i == j { l = (l + dl).max(0); } }
        leb(l as u64, &mut o);
        o.extend_from_slice(body);
        bounds.push(o.len());
    }
    o.extend_from_slice(&post);
    match truncate_to {
        Some((0, x)) => { let n = (x % (o.len() as u64 + 1)) as usize; o.truncate(n); }
        Some((_, x)) => {
            let b = bounds[(x % bounds.len() as u64) as usize];
            let extra = ((x >> 32) % 4) as usize; // 0: at the boundary, 1: after the id, 2..3: inside the size / first bytes
            o.truncate((b + extra).min(o.len()));
        }
        None => {}
    }
    o
}

// ------------------------------------------------------------------------------------------------
// cases

fn hex(bts: &[u8]) -> String {
    let mut s = String::new();
    for (i, x) in bts.iter().enumerate() { if i >= 160 { let _ = write!(s, "..(+{})", bts.len() - i); break; } let _ = write!(s, "{:02x}", x); }
    s
}

/// hand-written witnesses (index 2^40 + k)
fn witnesses() -> Vec<(&'static str, Vec<u8>)> {
    let ty = (1u8, vec![1, 0x60, 0, 0]);
    let fun = (3u8, vec![1, 0]);
    let code = (10u8, vec![1, 2, 0, 0x0b]);
    let name_f0 = custom("name", &[1, 6, 1, 0, 3, b'f', b'n', b'0']);
    let m = |s: Vec<(u8, Vec<u8>)>| assemble(&MOD_HDR, &s);
    vec![
        ("D09a valid: name section (function 0 named) before the code section", m(vec![ty.clone(), fun.clone(), name_f0.clone(), code.clone()])),
        ("D09a valid: function-name index past the last function, name section last", m(vec![ty.clone(), fun.clone(), code.clone(), custom("name", &[1, 4, 1, 5, 1, b'g'])])),
        ("D09b valid: producers section with zero fields", m(vec![ty.clone(), custom("producers", &[0])])),
        ("D09c valid: producers field named `tool`", m(vec![custom("producers", &[1, 4, b't', b'o', b'o', b'l', 0])])),
        ("D09d valid: producers value that is not UTF-8", m(vec![custom("producers", &[1, 8, b'l', b'a', b'n', b'g', b'u', b'a', b'g', b'e', 1, 1, 0xff, 1, b'1'])])),
        ("D09e malformed: tag section whose attribute byte is 1", m(vec![ty.clone(), (13, vec![1, 1, 0])])),
        ("D09f valid (extended-const): (global i32 (i32.add (i32.const 1) (i32.const 2)))", m(vec![(6, vec![1, 0x7f, 0, 0x41, 1, 0x41, 2, 0x6a, 0x0b])])),
        ("D09f valid (extended-const): data offset i32.add", m(vec![(5, vec![1, 0, 1]), (11, vec![1, 0, 0x41, 1, 0x41, 2, 0x6a, 0x0b, 0])])),
        ("D09f invalid: (global i32 (nop))", m(vec![(6, vec![1, 0x7f, 0, 0x01, 0x0b])])),
        ("D09g invalid: function whose type index is not defined", m(vec![ty.clone(), (3, vec![1, 7]), code.clone()])),
        ("D09h invalid: function whose type is an array type", m(vec![(1, vec![1, 0x5e, 0x7f, 0]), fun.clone(), code.clone()])),
        ("D09i valid: type-name map with a name that is not UTF-8", m(vec![ty.clone(), custom("name", &[4, 4, 1, 0, 1, 0xff])])),
        ("D09j valid: local-name map cut short", m(vec![ty.clone(), custom("name", &[2, 3, 2, 0, 0])])),
        ("D09k component: component-name core-func map with a name that is not UTF-8", assemble(&COMP_HDR, &vec![custom("component-name", &[1, 5, 0, 0, 1, 0, 1, 0xff].to_vec())])),
        ("D09l truncated component: core module section longer than the file", { let mut v = COMP_HDR.to_vec(); v.extend_from_slice(&[1, 20]); v.extend_from_slice(&MOD_HDR); v }),
        ("guarded: local counts that sum past 2^32 are a reader error (too many locals)", m(vec![ty.clone(), fun.clone(), (10, vec![1, 14, 2, 0xff, 0xff, 0xff, 0xff, 0x0f, 0x7f, 0xff, 0xff, 0xff, 0xff, 0x0f, 0x7f, 0x0b])])),
        ("guarded: ref.null of a concrete type index >= 2^20 in a global initialiser is a reader error", m(vec![(6, vec![1, 0x70, 0, 0xd0, 0xff, 0xff, 0xff, 0x00, 0x0b])])),
        ("guarded: global initialiser without `end` is a reader error", m(vec![(6, vec![1, 0x7f, 0, 0x41, 1])])),
        ("guarded: global initialiser `block end end` is a reader error", m(vec![(6, vec![1, 0x7f, 0, 0x02, 0x40, 0x0b, 0x0b])])),
        ("fine: name section after the code section", m(vec![ty.clone(), fun.clone(), code.clone(), name_f0.clone()])),
        ("fine: producers section with one language field", m(vec![custom("producers", &[1, 8, b'l', b'a', b'n', b'g', b'u', b'a', b'g', b'e', 1, 1, b'C', 1, b'1'])])),
        ("fine: empty module", m(vec![])),
        ("fine: empty component", assemble(&COMP_HDR, &vec![])),
    ]
}

fn gen_input(r: &mut Rng, desc: &mut String, tags: &mut Vec<String>) -> Vec<u8> {
    let k = r.below(100);
    if k < 6 {
        // random strings
        let n = r.below(40) as usize;
        let mut v: Vec<u8> = (0..n).map(|_| r.next() as u8).collect();
        if r.chance(1, 2) { let h = if r.chance(2, 3) { MOD_HDR } else { COMP_HDR }; let l = (r.below(9) as usize).min(8); v.splice(0..0, h[..l].iter().cloned()); }
        desc.push_str("random-string ");
        tags.push("input:random".into());
        v
    } else if k < 20 {
        let sh = gen_shape(r);
        let bm = gen_module(r, &sh);
        desc.push_str(&bm.desc);
        tags.push("input:module-unmutated".into());
        assemble(&MOD_HDR, &bm.secs)
    } else if k < 80 {
        let sh = gen_shape(r);
        let mut bm = gen_module(r, &sh);
        desc.push_str(&bm.desc);
        desc.push_str(" mutated: ");
        tags.push("input:module-mutated".into());
        mutate(r, &MOD_HDR, &mut bm.secs, desc)
    } else if k < 86 {
        let mut secs = gen_component(r, 2, false, desc);
        let _ = &mut secs;
        tags.push("input:component-unmutated".into());
        assemble(&COMP_HDR, &secs)
    } else {
        let mi = r.chance(1, 2);
        let mut secs = gen_component(r, 2, mi, desc);
        desc.push_str(" mutated: ");
        tags.push("input:component-mutated".into());
        mutate(r, &COMP_HDR, &mut secs, desc)
    }
}

fn validates(bytes: &[u8]) -> bool {
    catch_unwind(AssertUnwindSafe(|| wp::Validator::new_with_features(wp::WasmFeatures::all()).validate_all(bytes).is_ok())).unwrap_or(false)
}

fn main() {
    let args = parse_args();
    install_hook();
    let explore = args.flags.iter().any(|f| f == "--explore");
    let wit = witnesses();
    let mut hist: BTreeMap<String, (u64, String)> = BTreeMap::new();
    let mut n_valid_panic = 0u64;
    let header = "From Coq Require Import List NArith.\nFrom Orca Require Import Model.ParseGlue Check.CheckParse.\nImport ListNotations.\nOpen Scope N_scope.\n";
    run_shards(&args, header, "pcase", "Eval vm_compute in (report_C03 cases).", |seed, idx| {
        let mut r = Rng::for_case(seed, idx);
        let mut desc = String::new();
        let mut tags = vec![];
        let bytes = if idx >= (1u64 << 40) {
            let (d, w) = &wit[((idx - (1u64 << 40)) as usize) % wit.len()];
            let _ = write!(desc, "witness: {} ", d);
            tags.push("input:witness".into());
            w.clone()
        } else {
            gen_input(&mut r, &mut desc, &mut tags)
        };
        let o_f = observe(|| wirm::Module::parse(&bytes, false));
        let o_t = observe(|| wirm::Module::parse(&bytes, true));
        let o_c = observe(|| wirm::Component::parse(&bytes, false));
        // the abstraction (under catch_unwind: a panic inside wasmparser would make the input unmodelled)
        let am = catch_unwind(AssertUnwindSafe(|| abs_module(wp::Parser::new(0), &bytes))).unwrap_or(Abs { evs: vec!["MUnmodelled".into()], past_header: false });
        let ac = catch_unwind(AssertUnwindSafe(|| { let mut evs = vec![]; abs_component(wp::Parser::new(0), &bytes, 0, &mut evs, 0); evs })).unwrap_or(vec!["CUnmodelled".into()]);
        let valid = validates(&bytes);
        let past = am.past_header || ac.first().map_or(false, |e| e != "CErr");
        tags.push(format!("past-header:{}", past));
        tags.push(format!("valid:{}", valid));
        for (nm, o) in [("module", &o_f), ("module-mm", &o_t), ("component", &o_c)] {
            match o {
                Obs::Ok => tags.push(format!("{}:ok", nm)),
                Obs::Err => tags.push(format!("{}:err", nm)),
                Obs::Panic(k, key) => {
                    tags.push(format!("{}:panic:{}", nm, k));
                    if valid { tags.push(format!("valid-input-panic:{}", k)); }
                    if explore {
                        let e = hist.entry(format!("{} {}", k, key)).or_insert((0, format!("idx={} valid={} {} :: {}", idx, valid, hex(&bytes), desc)));
                        e.0 += 1;
                        if valid && !e.1.contains("valid=true") { e.1 = format!("idx={} valid={} {} :: {}", idx, valid, hex(&bytes), desc); }
                    }
                }
            }
        }
        if valid && (matches!(o_f, Obs::Panic(..)) || matches!(o_c, Obs::Panic(..))) { n_valid_panic += 1; }
        let coq = format!("mkPCase (mkPInput [{}] [{}]) {} {} {}", am.evs.join("; "), ac.join("; "), o_f.coq(), o_t.coq(), o_c.coq());
        let d = format!("{}| {} bytes {} valid={} => Module::parse(false)={} Module::parse(true)={} Component::parse={}", desc, bytes.len(), hex(&bytes), valid, o_f.show(), o_t.show(), o_c.show());
        let nontrivial = past && bytes.len() > 8;
        Case { seed, idx, coq, desc: d, nontrivial, tags }
    });
    if explore {
        for (k, (n, w)) in &hist { eprintln!("{:6}  {}\n        {}", n, k, w); }
        eprintln!("valid inputs that panic: {}", n_valid_panic);
    }
}
