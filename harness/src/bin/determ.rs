// Determinism harness (C04): the same scenario is executed in k *separate child processes* (fresh RandomState
// hash seeds in each) and the encoded bytes are compared through two 64-bit hashes.
//
// Parent:  determ --prop C04 --seed S --n N --shards K --out DIR [--only I] [--extra ..]
//                 [--k 4] [--k-thorough 16 --thorough-n M] [--batch 25] [--jobs J]
//   derives the case list exactly as vharness::run_shards does, cuts it into batches, and for every batch spawns
//   k children `current_exe() --child <seed:idx,seed:idx,...>` (J at a time).  k = --k, or --k-thorough when
//   N >= --thorough-n (./check passes the same flags in both tiers; only N differs).
// Child:   re-derives every scenario of its batch from Rng::for_case(seed, idx) alone, runs it against the real
//   public API of wirm under catch_unwind and prints one line per scenario:  R <seed> <idx> <status> <hash>
//     status 0 = encoded (and encoded again when the scenario asks for it), 1 = panic during parse / the API calls,
//            2 = panic in the first encode, 3 = panic in the second encode (hash = hash of the first encoding);
//     hash   = FNV-1a-64(bytes) * 2^64 + a second multiplicative 64-bit hash(bytes), over the first encoding
//              followed (scenario d) by 0xFF and the second encoding.
//   The parent marks a scenario a child did not report (the child died) with status 9.
//
// Scenarios (everything from the one PRNG; the *generation* never looks at what the library returns, so parent and
// children derive the same scenario):
//   base   : type section of 1-5 function types over i32/i64/f32/f64, `() -> ()` first; in ~50% of the cases one or two
//            structurally equal copies of existing types are planted; imports of all five kinds interleaved; 0-3 helper
//            functions + the probe function F; globals (const / global.get / ref.func initialisers); memories; a table;
//            exports; start; element segments; active data.
//   kind 0 : instrumentation plan on F as in the lowering engine (all seven modes, all four API paths), biased so that
//            block-exit (mode Before of resolve_on_end[b]) and semantic-after (mode After) probes meet on one block and
//            several flagged branch probes are resolved on the same `end`; function entry / exit probes (the exit
//            wrapper type `() -> results(F)` is added through add_func_type inside encode).
//   kind 1 : edit history as in the re-indexing engine: additions / deletions / conversions in the function, global
//            and memory spaces, iterator-level add_global, export add / delete, add_data, then references injected in F.
//   kind 2 : 1-4 type additions: add_func_type whose returned id is then *used* (add_import_func / block type injected
//            in F), or FunctionBuilder::finish_module (adds the function's type); requests equal to a base type --
//            in particular to one of the planted duplicates (the D11 trigger) -- or fresh.
//   kind 3 : all of the above in one scenario.
//   second : (scenario d) one third of the scenarios encode the module a second time; both outputs are hashed.
// Emitted per case: kind, second, the base's type tokens, the tokens of every type the scenario asks the library to
// add (explicitly, through FunctionBuilder, or through the exit wrapper), and the k (status, hash) pairs.
use std::collections::HashMap;
use std::io::Write as _;
use std::panic::{catch_unwind, AssertUnwindSafe};
use vharness::wasmgen::*;
use vharness::*;
use wasmparser::{MemArg, Operator};
use wirm::ir::function::FunctionBuilder;
use wirm::ir::id::*;
use wirm::ir::module::module_globals::{Global, GlobalKind, LocalGlobal};
use wirm::ir::types::{InitExpr, InitInstr, Location, Value};
use wirm::iterator::iterator_trait::{IteratingInstrumenter, Iterator};
use wirm::iterator::module_iterator::ModuleIterator;
use wirm::opcode::{Inject, InjectAt, Instrumenter};
use wirm::{DataSegment, DataSegmentKind, DataType, Module, Opcode};

// ------------------------------------------------------------------------------------------------ scenario
#[derive(Clone, Copy, Debug, PartialEq)]
enum Vt { I32, I64, F32, F64 }
impl Vt {
    fn enc(&self) -> wasm_encoder::ValType { match self { Vt::I32 => wasm_encoder::ValType::I32, Vt::I64 => wasm_encoder::ValType::I64, Vt::F32 => wasm_encoder::ValType::F32, Vt::F64 => wasm_encoder::ValType::F64 } }
    fn dt(&self) -> DataType { match self { Vt::I32 => DataType::I32, Vt::I64 => DataType::I64, Vt::F32 => DataType::F32, Vt::F64 => DataType::F64 } }
    fn digit(&self) -> u64 { match self { Vt::I32 => 1, Vt::I64 => 2, Vt::F32 => 3, Vt::F64 => 4 } }
    fn show(&self) -> &'static str { match self { Vt::I32 => "i32", Vt::I64 => "i64", Vt::F32 => "f32", Vt::F64 => "f64" } }
}
type Sig = (Vec<Vt>, Vec<Vt>);
/// injective token of a function type: base-6 digits, 1-4 = value types, 5 = the arrow
fn sig_tok(s: &Sig) -> u64 {
    let mut t = 0u64;
    for v in &s.0 { t = t * 6 + v.digit(); }
    t = t * 6 + 5;
    for v in &s.1 { t = t * 6 + v.digit(); }
    t
}
fn show_sig(s: &Sig) -> String {
    format!("({})->({})", s.0.iter().map(|v| v.show()).collect::<Vec<_>>().join(","), s.1.iter().map(|v| v.show()).collect::<Vec<_>>().join(","))
}
fn gen_sig(r: &mut Rng) -> Sig {
    let vt = |r: &mut Rng| match r.below(4) { 0 => Vt::I32, 1 => Vt::I64, 2 => Vt::F32, _ => Vt::F64 };
    let np = r.below(3);
    let nr = r.below(2);
    ((0..np).map(|_| vt(r)).collect(), (0..nr).map(|_| vt(r)).collect())
}

#[derive(Clone, Copy, Debug, PartialEq)]
enum Sp { F, G, M }
impl Sp { fn code(&self) -> usize { match self { Sp::F => 0, Sp::G => 1, Sp::M => 2 } } }

/// a reference emitted as code: marker constant, then an operator naming entity `id` of space `sp`
#[derive(Clone, Debug)]
struct Ref { sp: Sp, id: u32, flavour: u32, id2: u32, mark: u32 }

#[derive(Clone, Debug)]
enum GInit { Const(i32), Get(u32), RefFunc(u32) }

#[derive(Clone, Debug)]
struct Base {
    types: Vec<Sig>,
    imports: Vec<(u8, u32)>,        // (kind 0 func / 1 global / 2 memory / 3 table / 4 tag, type index for func)
    funcs: Vec<(u32, Vec<Ref>)>,    // helper functions (after F): (type index, references in the body)
    f_ty: u32,                      // type index of the probe function F (the first local function)
    f_body: Vec<Op>,                // kinds 0 / 3: generated body ; otherwise empty (references only)
    f_refs: Vec<Ref>,
    f_locals: Vec<(u32, u32)>,
    globals: Vec<GInit>,
    mems: Vec<u64>,
    exports: Vec<(Sp, u32)>,
    start: Option<u32>,
    elems: Vec<Vec<u32>>,
    elem_exprs: Vec<Vec<u32>>,
    data: Vec<(u32, Option<u32>)>,  // (memory, offset given by imported global)
}

#[derive(Clone, Copy, Debug, PartialEq)]
enum Path { Iter, IterInjectAt, ModInject, ModInjectAt }

#[derive(Clone, Debug)]
enum TyRef { Base(u32), Ret(usize) }   // a base type index, or the id returned by the k-th AddType step

#[derive(Clone, Debug)]
enum TyUse { ImportFunc, BlockType, Unused }

#[derive(Clone, Debug)]
enum Step {
    Plan(Path, usize, Mode, Vec<Op>),
    Entry(Vec<Op>),
    Exit(Vec<Op>),
    /// a function-exit probe on helper function h (its wrapper type `() -> results(helper)` is added inside encode, like F's)
    ExitHelper(u32, Vec<Op>),
    AddType(Sig, TyUse),
    AddLocalF(Sig, u32, Vec<Ref>),
    AddLocalG(u32),
    AddLocalM(u64),
    AddImportF(TyRef, u32),
    AddImportG(u32),
    AddImportM(u32),
    Delete(Sp, u32),
    LocalToImport(u32, u32, u32),     // function id, fingerprint, type index
    ImportToLocal(u32, Sig, u32, Vec<Ref>),
    ItAddGlobal(u32),
    AddExport(Sp, u32, u32),
    DeleteExport(u32),
    AddData(u32, u32),
    InjectRefs(Vec<Ref>),
}

#[derive(Clone, Debug)]
struct Scn { kind: u8, second: bool, base: Base, steps: Vec<Step>, f_id: u32 }

impl Scn {
    /// every type the scenario asks the library to add: explicit requests, FunctionBuilder signatures, and the
    /// wrapper type `() -> results(F)` of a function-exit probe
    fn added_types(&self) -> Vec<Sig> {
        let mut v = vec![];
        for s in &self.steps {
            match s {
                Step::AddType(sig, _) => v.push(sig.clone()),
                Step::AddLocalF(sig, ..) => v.push(sig.clone()),
                Step::Exit(ops) if !ops.is_empty() => v.push((vec![], self.base.types[self.base.f_ty as usize].1.clone())),
                Step::ExitHelper(h, ops) if !ops.is_empty() => v.push((vec![], self.base.types[self.base.funcs[*h as usize].0 as usize].1.clone())),
                _ => {}
            }
        }
        v
    }
    fn base_has_dups(&self) -> bool {
        let t: Vec<u64> = self.base.types.iter().map(sig_tok).collect();
        (0..t.len()).any(|i| (0..i).any(|j| t[i] == t[j]))
    }
    fn d11(&self) -> bool {
        let t: Vec<u64> = self.base.types.iter().map(sig_tok).collect();
        self.added_types().iter().any(|s| t.iter().filter(|x| **x == sig_tok(s)).count() >= 2)
    }
}

fn gen_ref(r: &mut Rng, len: &[u32; 3], mark: &mut u32, bias: Option<Sp>) -> Option<Ref> {
    let sp = match bias { Some(s) if r.chance(2, 3) => s, _ => match r.below(4) { 0 | 1 => Sp::F, 2 => Sp::G, _ => Sp::M } };
    if len[sp.code()] == 0 { return None; }
    *mark += 1;
    Some(Ref { sp, id: r.below(len[sp.code()] as u64) as u32, flavour: r.below(8) as u32, id2: r.below(len[2].max(1) as u64) as u32, mark: *mark })
}

fn gen_scenario(seed: u64, idx: u64) -> Scn {
    let mut r = Rng::for_case(seed, idx);
    let r = &mut r;
    let kind = match r.below(20) { 0..=5 => 0u8, 6..=10 => 1, 11..=16 => 2, _ => 3 };
    let second = r.chance(1, 3);
    // ---- types ----
    let mut types: Vec<Sig> = vec![(vec![], vec![])];
    for _ in 0..r.below(5) {
        let s = gen_sig(r);
        if !types.contains(&s) { types.push(s); }
    }
    if r.chance(1, 2) {
        for _ in 0..1 + r.below(2) {
            let s = r.pick(&types).clone();
            let at = r.below(types.len() as u64 + 1) as usize;
            if at == 0 { types.push(s); } else { types.insert(at, s); }   // keep `() -> ()` at index 0
        }
    }
    let nty = types.len() as u32;
    // ---- imports / entities ----
    let mut imports = vec![];
    for _ in 0..r.below(6) {
        let k = match r.below(10) { 0 | 1 | 2 | 9 => 0u8, 3 | 4 => 1, 5 | 6 => 2, 7 => 3, _ => 4 };
        imports.push((k, if k == 0 { r.below(nty as u64) as u32 } else { 0 }));
    }
    let cnt = |k: u8| imports.iter().filter(|x| x.0 == k).count() as u32;
    let nimp = [cnt(0), cnt(1), cnt(2)];
    let nhelpers = r.below(4) as u32;
    let nglob = r.below(3) as u32;
    let nmem = r.below(3) as u32;
    let mut len = [nimp[0] + nhelpers + 1, nimp[1] + nglob, nimp[2] + nmem];
    let f_id = nimp[0];   // F is the first local function (the module iterator starts there)
    let mut mark = 0u32;
    let mut globals: Vec<GInit> = (0..nglob).map(|i| GInit::Const(500 + i as i32)).collect();
    if nimp[1] > 0 && r.chance(1, 2) { globals.push(GInit::Get(r.below(nimp[1] as u64) as u32)); len[1] += 1; }
    if r.chance(1, 3) { globals.push(GInit::RefFunc(r.below(len[0] as u64) as u32)); len[1] += 1; }
    let mems: Vec<u64> = (0..nmem).map(|i| 1 + i as u64).collect();
    let mut funcs = vec![];
    for _ in 0..nhelpers {
        let ty = r.below(nty as u64) as u32;
        let mut refs = vec![];
        for _ in 0..r.below(3) { if let Some(x) = gen_ref(r, &len, &mut mark, None) { refs.push(x); } }
        funcs.push((ty, refs));
    }
    let f_ty = r.below(nty as u64) as u32;
    let mut exports = vec![];
    for _ in 0..r.below(4) {
        let sp = match r.below(4) { 0 | 1 => Sp::F, 2 => Sp::G, _ => Sp::M };
        if len[sp.code()] > 0 { exports.push((sp, r.below(len[sp.code()] as u64) as u32)); }
    }
    // a start function must have type () -> () to be valid; the library does not care, the base stays valid
    let unit_funcs: Vec<u32> = (0..len[0]).filter(|i| {
        let ty = if *i < nimp[0] { imports.iter().filter(|x| x.0 == 0).nth(*i as usize).unwrap().1 } else if *i == f_id { f_ty } else { funcs[(*i - nimp[0] - 1) as usize].0 };
        types[ty as usize] == (vec![], vec![])
    }).collect();
    let start = if !unit_funcs.is_empty() && r.chance(1, 3) { Some(*r.pick(&unit_funcs)) } else { None };
    let mut elems = vec![];
    for _ in 0..r.below(3) { elems.push((0..1 + r.below(3)).map(|_| r.below(len[0] as u64) as u32).collect()); }
    let mut elem_exprs = vec![];
    if r.chance(1, 4) { elem_exprs.push((0..1 + r.below(2)).map(|_| r.below(len[0] as u64) as u32).collect()); }
    let mut data = vec![];
    if len[2] > 0 { for _ in 0..r.below(3) { data.push((r.below(len[2] as u64) as u32, if nimp[1] > 0 && r.chance(1, 3) { Some(r.below(nimp[1] as u64) as u32) } else { None })); } }
    // ---- F ----
    let with_plan = kind == 0 || kind == 3;
    let mut f_body = vec![];
    let mut f_locals = vec![];
    let mut f_refs = vec![];
    if with_plan {
        for _ in 0..r.below(3) { f_locals.push((1 + r.below(3) as u32, r.below(2) as u32)); }
        let mut budget = 4 + r.below(30) as i32;
        let maxdepth = 3 + r.below(3) as u32;
        gen_seq(r, 0, maxdepth, &mut budget, &mut f_body);
        gen_seq(r, 0, maxdepth, &mut budget, &mut f_body);
        f_body.push(Op::End);
    } else {
        for _ in 0..r.below(5) { if let Some(x) = gen_ref(r, &len, &mut mark, None) { f_refs.push(x); } }
    }
    let base = Base { types, imports, funcs, f_ty, f_body, f_refs, f_locals, globals, mems, exports, start, elems, elem_exprs, data };
    // ---- steps ----
    let mut steps = vec![];
    let mut fp = 1000u32;
    let nfp = |fp: &mut u32| { *fp += 1; *fp };
    let mut n_addtype = 0usize;
    let mut nexports = base.exports.len() as u32;
    let mut nimports_total = base.imports.len() as u32;
    let dup_toks: Vec<Sig> = base.types.iter().filter(|s| base.types.iter().filter(|x| x == s).count() >= 2).cloned().collect();
    let gen_req = |r: &mut Rng| -> Sig {
        match r.below(10) {
            0..=3 if !dup_toks.is_empty() => r.pick(&dup_toks).clone(),
            0..=4 => r.pick(&base.types).clone(),
            _ => gen_sig(r),
        }
    };
    if kind == 1 || kind == 3 {
        for _ in 0..1 + r.below(7) {
            let sp = match r.below(4) { 0 | 1 => Sp::F, 2 => Sp::G, _ => Sp::M };
            let si = sp.code();
            let st = match r.below(15) {
                0 | 1 => match sp {
                    Sp::F => {
                        let sig = if r.chance(1, 2) { (vec![], vec![]) } else { gen_req(r) };
                        let mut refs = vec![];
                        for _ in 0..r.below(3) { if let Some(x) = gen_ref(r, &len, &mut mark, None) { refs.push(x); } }
                        len[0] += 1;
                        Step::AddLocalF(sig, nfp(&mut fp), refs)
                    }
                    Sp::G => { len[1] += 1; Step::AddLocalG(nfp(&mut fp)) }
                    Sp::M => { len[2] += 1; Step::AddLocalM(1 + r.below(4)) }
                },
                2 | 3 => {
                    nimports_total += 1;
                    len[si] += 1;
                    match sp {
                        Sp::F => Step::AddImportF(TyRef::Base(r.below(nty as u64) as u32), nfp(&mut fp)),
                        Sp::G => Step::AddImportG(nfp(&mut fp)),
                        Sp::M => Step::AddImportM(nfp(&mut fp)),
                    }
                }
                4 | 5 => { if len[si] == 0 { continue; } let id = r.below(len[si] as u64) as u32; if sp == Sp::F && id == f_id { continue; } Step::Delete(sp, id) }
                6 | 7 => { let id = r.below(len[0] as u64) as u32; if id == f_id { continue; } nimports_total += 1; Step::LocalToImport(id, nfp(&mut fp), r.below(nty as u64) as u32) }
                8 | 9 => {
                    if nimports_total == 0 { continue; }
                    // mostly an import-section index that names a function import of the base
                    let fimps: Vec<u32> = (0..base.imports.len() as u32).filter(|i| base.imports[*i as usize].0 == 0).collect();
                    let k = if !fimps.is_empty() && !r.chance(1, 16) { *r.pick(&fimps) } else { r.below(nimports_total as u64) as u32 };
                    // the built function must have the import's type; imports added by the history have unknown types here
                    let sig = match base.imports.get(k as usize) { Some((0, ty)) if !r.chance(1, 10) => base.types[*ty as usize].clone(), _ => (vec![], vec![]) };
                    let mut refs = vec![];
                    for _ in 0..r.below(3) { if let Some(x) = gen_ref(r, &len, &mut mark, None) { refs.push(x); } }
                    Step::ImportToLocal(k, sig, nfp(&mut fp), refs)
                }
                10 => { len[1] += 1; Step::ItAddGlobal(nfp(&mut fp)) }
                11 => { if sp == Sp::G || len[si] == 0 { continue; } nexports += 1; Step::AddExport(sp, r.below(len[si] as u64) as u32, nfp(&mut fp)) }
                12 => { if nexports == 0 { continue; } Step::DeleteExport(r.below(nexports as u64) as u32) }
                13 => { if len[2] == 0 { continue; } Step::AddData(r.below(len[2] as u64) as u32, nfp(&mut fp)) }
                _ => { let sig = gen_req(r); n_addtype += 1; Step::AddType(sig, TyUse::ImportFunc) }
            };
            if matches!(st, Step::AddType(_, TyUse::ImportFunc)) { nimports_total += 1; len[0] += 1; }
            steps.push(st);
        }
        let mut refs = vec![];
        for _ in 0..1 + r.below(6) { if let Some(x) = gen_ref(r, &len, &mut mark, None) { refs.push(x); } }
        steps.push(Step::InjectRefs(refs));
    }
    if kind == 2 || kind == 3 {
        for _ in 0..1 + r.below(4) {
            let sig = gen_req(r);
            match r.below(10) {
                0..=3 => { len[0] += 1; steps.push(Step::AddLocalF(sig, nfp(&mut fp), vec![])); }
                4..=6 => { n_addtype += 1; len[0] += 1; steps.push(Step::AddType(sig, TyUse::ImportFunc)); }
                7 | 8 => { n_addtype += 1; steps.push(Step::AddType(sig, TyUse::BlockType)); }
                _ => { n_addtype += 1; steps.push(Step::AddType(sig, TyUse::Unused)); }
            }
            if n_addtype > 0 && r.chance(1, 4) { len[0] += 1; steps.push(Step::AddImportF(TyRef::Ret(r.below(n_addtype as u64) as usize), nfp(&mut fp))); }
        }
        if r.chance(1, 3) { let mut pid = 3000; steps.push(Step::Exit(gen_probe(r, &mut pid))); }
    }
    if with_plan {
        let body = &base.f_body;
        let path = match r.below(8) { 0 => Path::ModInject, 1 => Path::ModInjectAt, 2 | 3 => Path::IterInjectAt, _ => Path::Iter };
        let mut pid = 2000;
        // focus: block-exit (Before entry) and semantic-after (After entry) on one block, flagged branch probes
        let openers: Vec<usize> = (0..body.len()).filter(|i| matches!(body[*i], Op::Block(_) | Op::Loop(_) | Op::Else)).collect();
        let branches: Vec<usize> = (0..body.len()).filter(|i| body[*i].is_branchy()).collect();
        if !openers.is_empty() && r.chance(2, 3) {
            let idx = *r.pick(&openers);
            steps.push(Step::Plan(path, idx, Mode::BlockExit, gen_probe(r, &mut pid)));
            steps.push(Step::Plan(path, idx, Mode::SemanticAfter, gen_probe(r, &mut pid)));
            if r.chance(1, 2) { steps.push(Step::Plan(path, idx, Mode::BlockExit, gen_probe(r, &mut pid))); }
        }
        if !branches.is_empty() && r.chance(2, 3) {
            for _ in 0..1 + r.below(3) { steps.push(Step::Plan(path, *r.pick(&branches), Mode::SemanticAfter, gen_probe(r, &mut pid))); }
        }
        for _ in 0..r.below(7) {
            let idx = r.below(body.len() as u64) as usize;
            let op = &body[idx];
            let (blockish, branchy) = (op.is_blockish(), op.is_branchy());
            let mode = loop {
                let m = match r.below(10) { 0 | 1 => Mode::Before, 2 | 3 => Mode::After, 4 => Mode::Alternate, 5 | 6 => Mode::SemanticAfter, 7 => Mode::BlockEntry, 8 => Mode::BlockExit, _ => Mode::BlockAlt };
                let structural = blockish || matches!(op, Op::End);
                if m == Mode::Alternate && structural && !r.chance(1, 8) { continue; }
                let ok = match m { Mode::SemanticAfter => blockish || branchy, Mode::BlockEntry | Mode::BlockExit | Mode::BlockAlt => blockish, _ => true };
                if ok || r.chance(1, 40) { break m; }
            };
            let ops = if matches!(mode, Mode::Alternate | Mode::BlockAlt) && r.chance(1, 3) { vec![] } else { gen_probe(r, &mut pid) };
            steps.push(Step::Plan(path, idx, mode, ops));
        }
        if r.chance(1, 3) { steps.push(Step::Entry(gen_probe(r, &mut pid))); }
        if r.chance(1, 2) && !steps.iter().any(|s| matches!(s, Step::Exit(_))) { steps.push(Step::Exit(gen_probe(r, &mut pid))); }
        // exit probes on the helper functions too: several functions whose wrapper types are added during one encode
        if !base.funcs.is_empty() && r.chance(1, 2) {
            for h in 0..base.funcs.len() as u32 { if r.chance(2, 3) { steps.push(Step::ExitHelper(h, gen_probe(r, &mut pid))); } }
        }
    }
    Scn { kind, second, base, steps, f_id }
}

// ------------------------------------------------------------------------------------------------ base module
const MARK: u32 = 100000;
fn ref_enc(f: &mut wasm_encoder::Function, s: &Ref) {
    use wasm_encoder::Instruction as I;
    f.instruction(&I::I32Const((MARK + s.mark) as i32));
    f.instruction(&I::Drop);
    match s.sp {
        Sp::F => { f.instruction(&I::RefFunc(s.id)); f.instruction(&I::Drop); }
        Sp::G => { f.instruction(&I::GlobalGet(s.id)); f.instruction(&I::Drop); }
        Sp::M => {
            let ma = wasm_encoder::MemArg { offset: 0, align: 0, memory_index: s.id };
            match s.flavour % 4 {
                0 => { f.instruction(&I::I32Const(0)); f.instruction(&I::I32Load8U(ma)); f.instruction(&I::Drop); }
                1 => { f.instruction(&I::MemorySize(s.id)); f.instruction(&I::Drop); }
                2 => { f.instruction(&I::I32Const(0)); f.instruction(&I::I32Const(0)); f.instruction(&I::I32Store8(ma)); }
                _ => { f.instruction(&I::I32Const(0)); f.instruction(&I::I32Const(0)); f.instruction(&I::I32Const(0)); f.instruction(&I::MemoryFill(s.id)); }
            }
        }
    }
}
fn ref_ops(s: &Ref) -> Vec<Operator<'static>> {
    let mut v = vec![Operator::I32Const { value: (MARK + s.mark) as i32 }, Operator::Drop];
    let id = s.id;
    let ma = |al: u8| MemArg { align: al, max_align: al, offset: 0, memory: id };
    match s.sp {
        Sp::F => { if s.flavour % 5 == 4 { v.push(Operator::ReturnCall { function_index: id }); } else if s.flavour % 5 == 3 { v.push(Operator::RefFunc { function_index: id }); v.push(Operator::Drop); } else { v.push(Operator::Call { function_index: id }); } }
        Sp::G => { v.push(Operator::GlobalGet { global_index: id }); v.push(Operator::Drop); }
        Sp::M => match s.flavour % 8 {
            0 => { v.push(Operator::I32Const { value: 0 }); v.push(Operator::I32Load { memarg: ma(2) }); v.push(Operator::Drop); }
            1 => { v.push(Operator::MemorySize { mem: id }); v.push(Operator::Drop); }
            2 => { v.push(Operator::I32Const { value: 0 }); v.push(Operator::I64Const { value: 0 }); v.push(Operator::I64Store { memarg: ma(3) }); }
            3 => { v.push(Operator::I32Const { value: 0 }); v.push(Operator::I32Const { value: 0 }); v.push(Operator::I32Const { value: 0 }); v.push(Operator::MemoryFill { mem: id }); }
            4 => { v.push(Operator::I32Const { value: 0 }); v.push(Operator::I32Const { value: 0 }); v.push(Operator::I32Const { value: 0 }); v.push(Operator::MemoryCopy { dst_mem: id, src_mem: s.id2 }); }
            5 => { v.push(Operator::I32Const { value: 0 }); v.push(Operator::V128Load { memarg: ma(4) }); v.push(Operator::Drop); }
            6 => { v.push(Operator::I32Const { value: 0 }); v.push(Operator::I32AtomicLoad { memarg: ma(2) }); v.push(Operator::Drop); }
            _ => { v.push(Operator::I32Const { value: 0 }); v.push(Operator::MemoryGrow { mem: id }); v.push(Operator::Drop); }
        },
    }
    v
}

fn build(b: &Base) -> Vec<u8> {
    use wasm_encoder as we;
    let mut m = we::Module::new();
    let mut types = we::TypeSection::new();
    for (p, r) in &b.types { types.ty().function(p.iter().map(|v| v.enc()).collect::<Vec<_>>(), r.iter().map(|v| v.enc()).collect::<Vec<_>>()); }
    m.section(&types);
    let ntab_imp = b.imports.iter().filter(|x| x.0 == 3).count() as u32;
    if !b.imports.is_empty() {
        let mut is = we::ImportSection::new();
        for (n, (k, ty)) in b.imports.iter().enumerate() {
            let name = format!("i{n}");
            match k {
                0 => { is.import("env", &name, we::EntityType::Function(*ty)); }
                1 => { is.import("env", &name, we::EntityType::Global(we::GlobalType { val_type: we::ValType::I32, mutable: false, shared: false })); }
                2 => { is.import("env", &name, we::EntityType::Memory(we::MemoryType { minimum: 1, maximum: None, memory64: false, shared: false, page_size_log2: None })); }
                3 => { is.import("env", &name, we::EntityType::Table(we::TableType { element_type: we::RefType::FUNCREF, table64: false, minimum: 0, maximum: None, shared: false })); }
                _ => { is.import("env", &name, we::EntityType::Tag(we::TagType { kind: we::TagKind::Exception, func_type_idx: 0 })); }
            }
        }
        m.section(&is);
    }
    let mut fs = we::FunctionSection::new();
    fs.function(b.f_ty);
    for (ty, _) in &b.funcs { fs.function(*ty); }
    m.section(&fs);
    let mut ts = we::TableSection::new();
    ts.table(we::TableType { element_type: we::RefType::FUNCREF, table64: false, minimum: 64, maximum: None, shared: false });
    m.section(&ts);
    if !b.mems.is_empty() {
        let mut ms = we::MemorySection::new();
        for p in &b.mems { ms.memory(we::MemoryType { minimum: *p, maximum: None, memory64: false, shared: false, page_size_log2: None }); }
        m.section(&ms);
    }
    if !b.globals.is_empty() {
        let mut gs = we::GlobalSection::new();
        for g in &b.globals {
            match g {
                GInit::Const(v) => { gs.global(we::GlobalType { val_type: we::ValType::I32, mutable: true, shared: false }, &we::ConstExpr::i32_const(*v)); }
                GInit::Get(id) => { gs.global(we::GlobalType { val_type: we::ValType::I32, mutable: false, shared: false }, &we::ConstExpr::global_get(*id)); }
                GInit::RefFunc(id) => { gs.global(we::GlobalType { val_type: we::ValType::FUNCREF, mutable: false, shared: false }, &we::ConstExpr::ref_func(*id)); }
            }
        }
        m.section(&gs);
    }
    if !b.exports.is_empty() {
        let mut es = we::ExportSection::new();
        for (n, (sp, id)) in b.exports.iter().enumerate() {
            let kind = match sp { Sp::F => we::ExportKind::Func, Sp::G => we::ExportKind::Global, Sp::M => we::ExportKind::Memory };
            es.export(&format!("e{n}"), kind, *id);
        }
        m.section(&es);
    }
    if let Some(s) = b.start { m.section(&we::StartSection { function_index: s }); }
    if !b.elems.is_empty() || !b.elem_exprs.is_empty() {
        let mut es = we::ElementSection::new();
        for seg in &b.elems { es.active(Some(ntab_imp), &we::ConstExpr::i32_const(0), we::Elements::Functions(seg.clone().into())); }
        for seg in &b.elem_exprs {
            let ex: Vec<we::ConstExpr> = seg.iter().map(|n| we::ConstExpr::ref_func(*n)).collect();
            es.active(Some(ntab_imp), &we::ConstExpr::i32_const(32), we::Elements::Expressions(we::RefType::FUNCREF, ex.into()));
        }
        m.section(&es);
    }
    let mut code = we::CodeSection::new();
    {
        let locals: Vec<(u32, we::ValType)> = b.f_locals.iter().map(|(n, t)| (*n, tok_valtype_enc(*t))).collect();
        let mut f = we::Function::new(locals);
        if b.f_body.is_empty() {
            f.instruction(&we::Instruction::I32Const(799));
            f.instruction(&we::Instruction::Drop);
            for s in &b.f_refs { ref_enc(&mut f, s); }
            f.instruction(&we::Instruction::Unreachable);
            f.instruction(&we::Instruction::End);
        } else {
            for op in &b.f_body { f.instruction(&op.enc()); }
        }
        code.function(&f);
    }
    for (i, (_, refs)) in b.funcs.iter().enumerate() {
        let mut f = we::Function::new([]);
        f.instruction(&we::Instruction::I32Const(700 + i as i32));
        f.instruction(&we::Instruction::Drop);
        for s in refs { ref_enc(&mut f, s); }
        f.instruction(&we::Instruction::Unreachable);
        f.instruction(&we::Instruction::End);
        code.function(&f);
    }
    m.section(&code);
    if !b.data.is_empty() {
        let mut ds = we::DataSection::new();
        for (n, (mem, off)) in b.data.iter().enumerate() {
            let o = match off { None => we::ConstExpr::i32_const(0), Some(g) => we::ConstExpr::global_get(*g) };
            ds.active(*mem, &o, vec![n as u8, 1, 2, 3]);
        }
        m.section(&ds);
    }
    m.finish()
}

// ------------------------------------------------------------------------------------------------ execution (child)
fn memty(initial: u64) -> wasmparser::MemoryType { wasmparser::MemoryType { memory64: false, shared: false, initial, maximum: None, page_size_log2: None } }
fn dts(v: &[Vt]) -> Vec<DataType> { v.iter().map(|x| x.dt()).collect() }

fn apply(module: &mut Module<'static>, sc: &Scn) {
    let fid = sc.f_id;
    let mut rets: Vec<TypeID> = vec![];
    for st in &sc.steps {
        match st {
            Step::Plan(path, idx, mode, ops) => {
                let loc = Location::Module { func_idx: FunctionID(fid), instr_idx: *idx };
                match path {
                    Path::Iter => {
                        // walk to F's instruction idx
                        let mut it = ModuleIterator::new(module, &vec![]);
                        loop {
                            if let Location::Module { func_idx, instr_idx } = it.curr_loc().0 { if *func_idx == fid && instr_idx == *idx { break; } }
                            if it.next().is_none() { break; }
                        }
                        if ops.is_empty() && *mode == Mode::Alternate { it.empty_alternate(); }
                        else if ops.is_empty() && *mode == Mode::BlockAlt { it.empty_block_alt(); }
                        else { it.set_instrument_mode(mode.im()); for op in ops { it.inject(op.wp()); } }
                    }
                    Path::IterInjectAt => {
                        let mut it = ModuleIterator::new(module, &vec![]);
                        loop {
                            if let Location::Module { func_idx, .. } = it.curr_loc().0 { if *func_idx == fid { break; } }
                            if it.next().is_none() { break; }
                        }
                        if ops.is_empty() && *mode == Mode::Alternate { it.empty_alternate_at(loc); }
                        else if ops.is_empty() && *mode == Mode::BlockAlt { it.empty_block_alt_at(loc); }
                        else { for op in ops { it.inject_at(*idx, mode.im(), op.wp()); } }
                    }
                    Path::ModInject => {
                        let mut fm = module.functions.get_fn_modifier(FunctionID(fid)).unwrap();
                        if ops.is_empty() && *mode == Mode::Alternate { fm.empty_alternate_at(loc); }
                        else if ops.is_empty() && *mode == Mode::BlockAlt { fm.empty_block_alt_at(loc); }
                        else { fm.set_instrument_mode_at(mode.im(), loc); for op in ops { fm.inject(op.wp()); } }
                    }
                    Path::ModInjectAt => {
                        let mut fm = module.functions.get_fn_modifier(FunctionID(fid)).unwrap();
                        if ops.is_empty() && *mode == Mode::Alternate { fm.empty_alternate_at(loc); }
                        else if ops.is_empty() && *mode == Mode::BlockAlt { fm.empty_block_alt_at(loc); }
                        else { for op in ops { fm.inject_at(*idx, mode.im(), op.wp()); } }
                    }
                }
            }
            Step::Entry(ops) | Step::Exit(ops) => {
                let mut it = ModuleIterator::new(module, &vec![]);
                loop {
                    if let Location::Module { func_idx, .. } = it.curr_loc().0 { if *func_idx == fid { break; } }
                    if it.next().is_none() { break; }
                }
                if matches!(st, Step::Entry(_)) { it.func_entry(); } else { it.func_exit(); }
                for op in ops { it.inject(op.wp()); }
            }
            Step::ExitHelper(h, ops) => {
                let hfid = fid + 1 + *h;
                let mut it = ModuleIterator::new(module, &vec![]);
                let mut found = false;
                loop {
                    if let Location::Module { func_idx, .. } = it.curr_loc().0 { if *func_idx == hfid { found = true; break; } }
                    if it.next().is_none() { break; }
                }
                if found { it.func_exit(); for op in ops { it.inject(op.wp()); } }
            }
            Step::AddType(sig, usage) => {
                let id = module.types.add_func_type(&dts(&sig.0), &dts(&sig.1), None);
                rets.push(id);
                match usage {
                    TyUse::ImportFunc => { module.add_import_func("env".into(), format!("t{}", rets.len()), id); }
                    TyUse::BlockType => {
                        let mut fm = module.functions.get_fn_modifier(FunctionID(fid)).unwrap();
                        fm.before_at(Location::Module { func_idx: FunctionID(0), instr_idx: 0 });
                        fm.inject(Operator::Block { blockty: wasmparser::BlockType::FuncType(*id) });
                        fm.inject(Operator::Unreachable);
                        fm.inject(Operator::End);
                    }
                    TyUse::Unused => {}
                }
            }
            Step::AddLocalF(sig, fp, refs) => {
                let mut fb = FunctionBuilder::new(&dts(&sig.0), &dts(&sig.1));
                fb.i32_const(*fp as i32); fb.drop();
                for s in refs { for o in ref_ops(s) { fb.inject(o); } }
                fb.unreachable();
                fb.finish_module(module);
            }
            Step::AddLocalG(fp) => { module.add_global(InitExpr::new(vec![InitInstr::Value(Value::I32(*fp as i32))]), DataType::I32, false, false); }
            Step::AddLocalM(p) => { module.add_local_memory(memty(*p)); }
            Step::AddImportF(ty, fp) => {
                let id = match ty { TyRef::Base(i) => TypeID(*i), TyRef::Ret(k) => rets.get(*k).cloned().unwrap_or(TypeID(0)) };
                module.add_import_func("env".into(), format!("a{fp}"), id);
            }
            Step::AddImportG(fp) => { module.add_imported_global("env".into(), format!("a{fp}"), DataType::I32, false, false); }
            Step::AddImportM(fp) => { module.add_import_memory("env".into(), format!("a{fp}"), memty(1)); }
            Step::Delete(Sp::F, id) => module.delete_func(FunctionID(*id)),
            Step::Delete(Sp::G, id) => module.delete_global(GlobalID(*id)),
            Step::Delete(Sp::M, id) => module.delete_memory(MemoryID(*id)),
            Step::LocalToImport(id, fp, ty) => { module.convert_local_fn_to_import(FunctionID(*id), "env".into(), format!("c{fp}"), TypeID(*ty)); }
            Step::ImportToLocal(k, sig, fp, refs) => {
                let mut fb = FunctionBuilder::new(&dts(&sig.0), &dts(&sig.1));
                fb.i32_const(*fp as i32); fb.drop();
                for s in refs { for o in ref_ops(s) { fb.inject(o); } }
                fb.unreachable();
                fb.replace_import_in_module(module, ImportsID(*k));
            }
            Step::ItAddGlobal(fp) => {
                let mut it = ModuleIterator::new(module, &vec![]);
                it.add_global(Global::new(GlobalKind::Local(LocalGlobal { global_id: GlobalID(0), ty: wasmparser::GlobalType { content_type: wasmparser::ValType::I32, mutable: false, shared: false }, init_expr: InitExpr::new(vec![InitInstr::Value(Value::I32(*fp as i32))]) }), None));
            }
            Step::AddExport(Sp::F, id, fp) => module.exports.add_export_func(format!("x{fp}"), *id, None),
            Step::AddExport(_, id, fp) => module.exports.add_export_mem(format!("x{fp}"), *id, None),
            Step::DeleteExport(k) => module.exports.delete(ExportsID(*k)),
            Step::AddData(mem, fp) => {
                module.add_data(DataSegment { kind: DataSegmentKind::Active { memory_index: *mem, offset_expr: InitExpr::new(vec![InitInstr::Value(Value::I32(0))]) }, data: fp.to_le_bytes().to_vec(), tag: None });
            }
            Step::InjectRefs(refs) => {
                let mut fm = module.functions.get_fn_modifier(FunctionID(fid)).unwrap();
                fm.before_at(Location::Module { func_idx: FunctionID(0), instr_idx: 0 });
                for s in refs { for o in ref_ops(s) { fm.inject(o); } }
            }
        }
    }
}

fn hash2(h: &mut (u64, u64), bytes: &[u8]) {
    for b in bytes {
        h.0 ^= *b as u64;
        h.0 = h.0.wrapping_mul(0x100000001b3);
        h.1 = (h.1 ^ (*b as u64).wrapping_add(0x9E3779B97F4A7C15)).wrapping_mul(0xD6E8FEB86659FD93).rotate_left(29);
    }
}
fn hash_val(h: (u64, u64)) -> u128 { ((h.0 as u128) << 64) | h.1 as u128 }

/// (status, hash, first encoding) -- the bytes are only used by the parent's `--dump` aid
fn run_scenario(sc: &Scn) -> (u64, u128, Option<Vec<u8>>) {
    let bytes: &'static [u8] = Box::leak(build(&sc.base).into_boxed_slice());
    let mut h = (0xcbf29ce484222325u64, 0x2545F4914F6CDD1Du64);
    let m = catch_unwind(AssertUnwindSafe(|| {
        let mut module = Module::parse(bytes, true).expect("parse");
        apply(&mut module, sc);
        module
    }));
    let mut module = match m { Ok(m) => m, Err(_) => return (1, 0, None) };
    let a = match catch_unwind(AssertUnwindSafe(|| module.encode())) { Ok(a) => a, Err(_) => return (2, 0, None) };
    hash2(&mut h, &a);
    if sc.second {
        match catch_unwind(AssertUnwindSafe(|| module.encode())) {
            Ok(b) => { hash2(&mut h, &[0xFF]); hash2(&mut h, &b); }
            Err(_) => return (3, hash_val(h), Some(a)),
        }
    }
    (0, hash_val(h), Some(a))
}

fn parse_ids(spec: &str) -> Vec<(u64, u64)> {
    spec.split(',').filter(|s| !s.is_empty()).map(|p| { let mut it = p.split(':'); (it.next().unwrap().parse().unwrap(), it.next().unwrap().parse().unwrap()) }).collect()
}

fn child(spec: &str) {
    if std::env::var("VH_DEBUG").is_err() { std::panic::set_hook(Box::new(|_| {})); }
    let out = std::io::stdout();
    for (seed, idx) in parse_ids(spec) {
        let sc = gen_scenario(seed, idx);
        let (st, h, _) = run_scenario(&sc);
        let mut o = out.lock();
        let _ = writeln!(o, "R {} {} {} {}", seed, idx, st, h);
        let _ = o.flush();
    }
}

// ------------------------------------------------------------------------------------------------ parent
fn flag_val(flags: &[String], name: &str) -> Option<u64> {
    flags.iter().position(|f| f == name).and_then(|p| flags.get(p + 1)).and_then(|v| v.parse().ok())
}

fn show_steps(sc: &Scn) -> String {
    sc.steps.iter().map(|s| match s {
        Step::Plan(p, i, m, o) => format!("plan[{:?}] @{} {:?} [{}]", p, i, m, show_ops(o)),
        Step::Entry(o) => format!("fn_entry [{}]", show_ops(o)),
        Step::Exit(o) => format!("fn_exit [{}]", show_ops(o)),
        Step::ExitHelper(h, o) => format!("fn_exit(helper {}) [{}]", h, show_ops(o)),
        Step::AddType(s, u) => format!("add_func_type {} use={:?}", show_sig(s), u),
        Step::AddLocalF(s, fp, refs) => format!("FunctionBuilder{} fp={} refs={}", show_sig(s), fp, refs.len()),
        Step::ImportToLocal(k, s, fp, refs) => format!("replace_import #{} {} fp={} refs={}", k, show_sig(s), fp, refs.len()),
        Step::InjectRefs(refs) => format!("inject_refs [{}]", refs.iter().map(|x| format!("{:?}{}", x.sp, x.id)).collect::<Vec<_>>().join(" ")),
        other => format!("{:?}", other),
    }).collect::<Vec<_>>().join("; ")
}

fn main() {
    let argv: Vec<String> = std::env::args().collect();
    if let Some(p) = argv.iter().position(|a| a == "--child") {
        child(argv.get(p + 1).map(|s| s.as_str()).unwrap_or(""));
        return;
    }
    let args = parse_args();
    let mut k = flag_val(&args.flags, "--k").unwrap_or(4) as usize;
    if let (Some(kt), Some(tn)) = (flag_val(&args.flags, "--k-thorough"), flag_val(&args.flags, "--thorough-n")) {
        if args.only.is_none() && args.n as u64 >= tn { k = kt as usize; }
    }
    let k = k.max(2);
    let batch = flag_val(&args.flags, "--batch").unwrap_or(25).max(1) as usize;
    let jobs = flag_val(&args.flags, "--jobs").unwrap_or_else(|| std::thread::available_parallelism().map(|n| n.get() as u64).unwrap_or(4).min(16)).max(1) as usize;
    // the case list, exactly as run_shards derives it
    let mut ids: Vec<(u64, u64)> = vec![];
    if let Some(i) = args.only { ids.push((args.seed, i)); } else {
        ids.extend(args.extra.iter().cloned());
        ids.extend((0..args.n as u64).map(|i| (args.seed, i)));
    }
    let exe = std::env::current_exe().unwrap_or_else(|_| std::path::PathBuf::from(&argv[0]));
    // work items: (batch number, child number)
    let chunks: Vec<Vec<(u64, u64)>> = ids.chunks(batch).map(|c| c.to_vec()).collect();
    let work: Vec<(usize, usize)> = (0..chunks.len()).flat_map(|b| (0..k).map(move |j| (b, j))).collect();
    let next = std::sync::atomic::AtomicUsize::new(0);
    let results: std::sync::Mutex<HashMap<(u64, u64, usize), (u64, u128)>> = std::sync::Mutex::new(HashMap::new());
    let spawn_failed = std::sync::atomic::AtomicBool::new(false);
    std::thread::scope(|s| {
        for _ in 0..jobs {
            s.spawn(|| loop {
                let w = next.fetch_add(1, std::sync::atomic::Ordering::SeqCst);
                if w >= work.len() { break; }
                let (b, j) = work[w];
                let spec = chunks[b].iter().map(|(s, i)| format!("{s}:{i}")).collect::<Vec<_>>().join(",");
                match std::process::Command::new(&exe).arg("--child").arg(&spec).stdin(std::process::Stdio::null()).stderr(std::process::Stdio::null()).output() {
                    Err(_) => { spawn_failed.store(true, std::sync::atomic::Ordering::SeqCst); }
                    Ok(o) => {
                        let text = String::from_utf8_lossy(&o.stdout);
                        let mut res = results.lock().unwrap();
                        for l in text.lines() {
                            let p: Vec<&str> = l.split(' ').collect();
                            if p.len() == 5 && p[0] == "R" {
                                if let (Ok(s), Ok(i), Ok(st), Ok(h)) = (p[1].parse::<u64>(), p[2].parse::<u64>(), p[3].parse::<u64>(), p[4].parse::<u128>()) {
                                    res.insert((s, i, j), (st, h));
                                }
                            }
                        }
                    }
                }
            });
        }
    });
    if spawn_failed.load(std::sync::atomic::Ordering::SeqCst) {
        eprintln!("determ: could not spawn a child process ({})", exe.display());
        std::process::exit(1);
    }
    let results = results.into_inner().unwrap();
    let dump = args.flags.iter().any(|f| f == "--dump");
    let header = "From Coq Require Import List NArith.\nImport ListNotations.\nFrom Orca Require Import HashOrder CheckDeterm.\nOpen Scope N_scope.";
    let footer = format!("Eval vm_compute in (report_{} cases).", args.prop);
    run_shards(&args, header, "dcase", &footer, |seed, idx| {
        let sc = gen_scenario(seed, idx);
        let obs: Vec<(u64, u128)> = (0..k).map(|j| results.get(&(seed, idx, j)).cloned().unwrap_or((9, 0))).collect();
        let base_toks: Vec<u64> = sc.base.types.iter().map(sig_tok).collect();
        let added: Vec<u64> = sc.added_types().iter().map(sig_tok).collect();
        let l = |v: &Vec<u64>| format!("[{}]", v.iter().map(|x| x.to_string()).collect::<Vec<_>>().join("; "));
        let coq = format!("mkDC {} {} {} {} [{}]", sc.kind, coq_bool(sc.second), l(&base_toks), l(&added),
                          obs.iter().map(|(s, h)| format!("({s}, {h})")).collect::<Vec<_>>().join("; "));
        let nondet = obs.iter().any(|o| *o != obs[0]);
        let b = &sc.base;
        let mut desc = format!(
            "kind={} second={} types=[{}] dup_types={} d11_input={} imports={:?} helpers={:?} F=func{}:type{} globals={:?} mems={:?} exports={:?} start={:?} elems={:?}/{:?} data={:?} body=[{}] steps=[{}] => k={} obs={}",
            sc.kind, sc.second, b.types.iter().map(show_sig).collect::<Vec<_>>().join(" "), sc.base_has_dups(), sc.d11(), b.imports,
            b.funcs.iter().map(|f| f.0).collect::<Vec<_>>(), sc.f_id, b.f_ty, b.globals, b.mems, b.exports, b.start, b.elems, b.elem_exprs, b.data,
            show_ops(&b.f_body), show_steps(&sc), k,
            obs.iter().map(|(s, h)| if *s == 0 { format!("{:032x}", h) } else { format!("status{}:{:x}", s, h) }).collect::<Vec<_>>().join(" "));
        if nondet { desc.push_str(" NONDETERMINISTIC"); }
        if dump {
            // testing aid: what this (the parent) process itself produces
            let (st, h, bytes) = run_scenario(&sc);
            desc.push_str(&format!(" | parent: status={} hash={:032x} valid={:?}", st, h, bytes.as_ref().map(|b| validates(b))));
        }
        let nplan = sc.steps.iter().filter(|s| matches!(s, Step::Plan(..))).count();
        let both_modes = {
            // a block opener carrying a block-exit (Before entry) and a semantic-after (After entry) probe
            let mut bx = vec![]; let mut sa = vec![];
            for s in &sc.steps { if let Step::Plan(_, i, m, _) = s { if *m == Mode::BlockExit { bx.push(*i); } if *m == Mode::SemanticAfter { sa.push(*i); } } }
            bx.iter().any(|i| sa.contains(i))
        };
        let mut tags = vec![format!("kind={}", sc.kind), format!("second={}", sc.second), format!("dup_base={}", sc.base_has_dups()), format!("d11_input={}", sc.d11()),
                            format!("nondeterministic={}", nondet), format!("k={}", k)];
        for (s, _) in &obs { tags.push(format!("child_status={}", s)); }
        if nplan > 0 { tags.push("has_plan".into()); }
        if both_modes { tags.push("before_and_after_entry_on_one_block".into()); }
        for s in &sc.steps {
            tags.push(format!("step={}", match s {
                Step::Plan(_, _, m, _) => format!("plan_{:?}", m), Step::Entry(_) => "fn_entry".into(), Step::Exit(_) => "fn_exit".into(), Step::ExitHelper(..) => "fn_exit_helper".into(),
                Step::AddType(_, u) => format!("add_func_type_{:?}", u), Step::AddLocalF(..) => "FunctionBuilder".into(), Step::AddLocalG(_) => "add_global".into(),
                Step::AddLocalM(_) => "add_local_memory".into(), Step::AddImportF(TyRef::Base(_), _) => "add_import_func".into(), Step::AddImportF(TyRef::Ret(_), _) => "add_import_func_returned_type".into(),
                Step::AddImportG(_) => "add_imported_global".into(), Step::AddImportM(_) => "add_import_memory".into(), Step::Delete(sp, _) => format!("delete_{:?}", sp),
                Step::LocalToImport(..) => "convert_local_fn_to_import".into(), Step::ImportToLocal(..) => "replace_import_in_module".into(), Step::ItAddGlobal(_) => "iterator_add_global".into(),
                Step::AddExport(..) => "add_export".into(), Step::DeleteExport(_) => "delete_export".into(), Step::AddData(..) => "add_data".into(), Step::InjectRefs(_) => "inject_refs".into(),
            }));
        }
        Case { seed, idx, coq, desc, nontrivial: !sc.steps.is_empty(), tags }
    });
}
