// Correspondence harness of the component engine (C27): component round trip at any nesting depth.
//
// A component is abstracted to a tree of sections (coq/Model/Comp.v):
//   Items(kind, item tokens) | Mod(token, custom tokens) | Custom(token) | Start(token)
//   | Names(entries of the component-name section) | Comp(children)
// Item tokens are the hash-consed *raw bytes* of each section item, module tokens the hash-consed
// wasmprinter text of the core module, name entries (subsection kind, hash-consed (index, name)).
// The input and the output of `Component::parse(..).encode()` are decoded with the same decoder
// (which does its own, correct, nesting bookkeeping), and the payload sequence that
// `wasmparser::Parser::parse_all` really yields for the input is handed to Coq as well so that the
// model's `stream` is checked against the real parser on every case.
use std::collections::HashMap;
use std::panic::{catch_unwind, AssertUnwindSafe};
use vharness::*;
use wasmparser::{Encoding, Parser, Payload};

#[path = "../compgen.rs"]
mod comp_gen;

#[derive(Clone, PartialEq, Debug)]
pub enum Node {
    Items(u8, Vec<u64>),
    Mod(u64, Vec<u64>),
    Custom(u64),
    Start(u64),
    Names(Vec<(u64, u64)>),
    Comp(Vec<Node>),
}
pub const IKINDS: [&str; 8] = ["IAlias", "ICoreType", "ICompType", "IImport", "IExport", "ICoreInst", "ICompInst", "ICanon"];
const IK_ALIAS: u8 = 0;
const IK_CORETYPE: u8 = 1;
const IK_COMPTYPE: u8 = 2;
const IK_IMPORT: u8 = 3;
const IK_EXPORT: u8 = 4;
const IK_COREINST: u8 = 5;
const IK_COMPINST: u8 = 6;
const IK_CANON: u8 = 7;

/// per-case hash-consing of opaque contents to small numbers (1, 2, 3, ...)
pub struct Toks {
    map: HashMap<Vec<u8>, u64>,
}
impl Toks {
    fn new() -> Toks { Toks { map: HashMap::new() } }
    fn get(&mut self, class: u8, bytes: &[u8]) -> u64 {
        let mut k = vec![class];
        k.extend_from_slice(bytes);
        let n = self.map.len() as u64 + 1;
        *self.map.entry(k).or_insert(n)
    }
}

/// tokens of the items of one section: hash-consed raw bytes of each item.  `canon`: for imports and exports the
/// token is taken from the parsed item instead (name, kind, index, type reference), because the binary format has
/// two spellings of an extern name (prefix byte 0x00 and the legacy 0x01) that denote the same import / export.
fn items_of<'a, T: wasmparser::FromReader<'a> + std::fmt::Debug>(rd: wasmparser::SectionLimited<'a, T>, all: &[u8], base: usize, class: u8, canon: bool, toks: &mut Toks) -> Result<Vec<u64>, String> {
    let end = rd.range().end;
    let mut offs = vec![];
    let mut dbg = vec![];
    for it in rd.into_iter_with_offsets() {
        let (o, x) = it.map_err(|e| e.to_string())?;
        offs.push(o);
        if canon { dbg.push(format!("{:?}", x)); }
    }
    offs.push(end);
    Ok((0..offs.len() - 1).map(|i| if canon { toks.get(class, dbg[i].as_bytes()) } else { toks.get(class, &all[offs[i] - base..offs[i + 1] - base]) }).collect())
}

fn module_token(bytes: &[u8], toks: &mut Toks) -> u64 {
    match wasmprinter::print_bytes(bytes) {
        Ok(s) => toks.get(100, s.as_bytes()),
        Err(_) => toks.get(101, bytes),
    }
}
fn module_customs(bytes: &[u8], toks: &mut Toks) -> Vec<u64> {
    let mut v = vec![];
    for p in Parser::new(0).parse_all(bytes) {
        if let Ok(Payload::CustomSection(c)) = p { v.push(custom_token(&c, toks)); }
    }
    v
}
fn custom_token(c: &wasmparser::CustomSectionReader, toks: &mut Toks) -> u64 {
    let mut k = c.name().as_bytes().to_vec();
    k.push(0);
    k.extend_from_slice(c.data());
    toks.get(102, &k)
}
fn name_entries(rd: wasmparser::ComponentNameSectionReader, toks: &mut Toks) -> Result<Vec<(u64, u64)>, String> {
    use wasmparser::ComponentName as CN;
    let mut es = vec![];
    for sub in rd {
        let sub = sub.map_err(|e| e.to_string())?;
        let (k, map) = match sub {
            CN::Component { name, .. } => { es.push((0, toks.get(103, name.as_bytes()))); continue; }
            CN::CoreFuncs(m) => (1, m),
            CN::CoreTables(m) => (2, m),
            CN::CoreMemories(m) => (3, m),
            CN::CoreTags(m) => (4, m),
            CN::CoreGlobals(m) => (5, m),
            CN::CoreTypes(m) => (6, m),
            CN::CoreModules(m) => (7, m),
            CN::CoreInstances(m) => (8, m),
            CN::Funcs(m) => (9, m),
            CN::Values(m) => (10, m),
            CN::Types(m) => (11, m),
            CN::Components(m) => (12, m),
            CN::Instances(m) => (13, m),
            CN::Unknown { ty, data, .. } => { let mut k = vec![ty]; k.extend_from_slice(data); es.push((99, toks.get(105, &k))); continue; }
        };
        for n in map {
            let n = n.map_err(|e| e.to_string())?;
            let mut key = n.index.to_le_bytes().to_vec();
            key.extend_from_slice(n.name.as_bytes());
            es.push((k, toks.get(104, &key)));
        }
    }
    Ok(es)
}

/// What one component-level payload means for the abstraction (shared by the tree decoder and the
/// payload-stream dump).  `all`/`base`: the byte slice the ranges of this parser refer to.
enum Abs { Version, End, Sec(u8, Vec<u64>), Module(std::ops::Range<usize>), Component(std::ops::Range<usize>), Custom(u64), Start(u64), Names(Vec<(u64, u64)>), Other }
fn abstract_payload(p: Payload, all: &[u8], base: usize, toks: &mut Toks) -> Result<Abs, String> {
    Ok(match p {
        Payload::Version { .. } => Abs::Version,
        Payload::End(_) => Abs::End,
        Payload::ComponentAliasSection(r) => Abs::Sec(IK_ALIAS, items_of(r, all, base, 10, false, toks)?),
        Payload::CoreTypeSection(r) => Abs::Sec(IK_CORETYPE, items_of(r, all, base, 11, false, toks)?),
        Payload::ComponentTypeSection(r) => Abs::Sec(IK_COMPTYPE, items_of(r, all, base, 12, false, toks)?),
        Payload::ComponentImportSection(r) => Abs::Sec(IK_IMPORT, items_of(r, all, base, 13, true, toks)?),
        Payload::ComponentExportSection(r) => Abs::Sec(IK_EXPORT, items_of(r, all, base, 14, true, toks)?),
        Payload::InstanceSection(r) => Abs::Sec(IK_COREINST, items_of(r, all, base, 15, false, toks)?),
        Payload::ComponentInstanceSection(r) => Abs::Sec(IK_COMPINST, items_of(r, all, base, 16, false, toks)?),
        Payload::ComponentCanonicalSection(r) => Abs::Sec(IK_CANON, items_of(r, all, base, 17, false, toks)?),
        Payload::ModuleSection { unchecked_range, .. } => Abs::Module(unchecked_range),
        Payload::ComponentSection { unchecked_range, .. } => Abs::Component(unchecked_range),
        Payload::ComponentStartSection { range, .. } => Abs::Start(toks.get(18, &all[range.start - base..range.end - base])),
        Payload::CustomSection(c) => match c.as_known() {
            wasmparser::KnownCustom::ComponentName(rd) => Abs::Names(name_entries(rd, toks)?),
            _ => Abs::Custom(custom_token(&c, toks)),
        },
        Payload::UnknownSection { id, .. } => return Err(format!("unknown section {id}")),
        _ => Abs::Other,
    })
}

/// Decode the section tree of a component.  Nested bodies are decoded recursively from their byte
/// ranges; their inline payloads are skipped by counting *every* nested opening (correct nesting).
pub fn decode_comp(bytes: &[u8], toks: &mut Toks) -> Result<Vec<Node>, String> {
    let mut out = vec![];
    let mut open = 0usize; // nested bodies currently open below this level
    let mut first = true;
    for p in Parser::new(0).parse_all(bytes) {
        let p = p.map_err(|e| e.to_string())?;
        if first {
            first = false;
            match &p { Payload::Version { encoding: Encoding::Component, .. } => {} _ => return Err("not a component".into()) }
        }
        if open > 0 {
            match p {
                Payload::ModuleSection { .. } | Payload::ComponentSection { .. } => open += 1,
                Payload::End(_) => open -= 1,
                _ => {}
            }
            continue;
        }
        match abstract_payload(p, bytes, 0, toks)? {
            Abs::Sec(k, items) => out.push(Node::Items(k, items)),
            Abs::Module(r) => { open = 1; out.push(Node::Mod(module_token(&bytes[r.clone()], toks), module_customs(&bytes[r], toks))); }
            Abs::Component(r) => { open = 1; out.push(Node::Comp(decode_comp(&bytes[r], toks)?)); }
            Abs::Custom(t) => out.push(Node::Custom(t)),
            Abs::Start(t) => out.push(Node::Start(t)),
            Abs::Names(es) => out.push(Node::Names(es)),
            Abs::Version | Abs::End | Abs::Other => {}
        }
    }
    Ok(out)
}

/// The payload sequence `parse_all` really yields for the whole binary, flattened to numbers exactly like
/// `Comp.flatcode (Comp.stream t)`.  Inside a core module only Version, custom sections and End are kept
/// (every other module-level payload is ignored by parse_comp whatever its stack says).
pub fn real_stream(bytes: &[u8], toks: &mut Toks) -> Result<Vec<u64>, String> {
    let mut out = vec![];
    let mut encs: Vec<Encoding> = vec![];
    for p in Parser::new(0).parse_all(bytes) {
        let p = p.map_err(|e| e.to_string())?;
        if let Payload::Version { encoding, .. } = &p { encs.push(*encoding); }
        let in_module = encs.last() == Some(&Encoding::Module);
        let is_end = matches!(p, Payload::End(_));
        if in_module {
            match p {
                Payload::Version { .. } => out.push(0),
                Payload::End(_) => out.push(1),
                Payload::CustomSection(c) => { out.push(5); out.push(custom_token(&c, toks)); }
                _ => {}
            }
        } else {
            match abstract_payload(p, bytes, 0, toks)? {
                Abs::Version => out.push(0),
                Abs::End => out.push(1),
                Abs::Sec(k, items) => { out.push(2); out.push(k as u64); out.push(items.len() as u64); out.extend(items); }
                Abs::Module(r) => { out.push(3); out.push(module_token(&bytes[r], toks)); }
                Abs::Component(_) => out.push(4),
                Abs::Custom(t) => { out.push(5); out.push(t); }
                Abs::Start(t) => { out.push(6); out.push(t); }
                Abs::Names(es) => { out.push(7); out.push(es.len() as u64); for (k, t) in es { out.push(k); out.push(t); } }
                Abs::Other => out.push(9),
            }
        }
        if is_end { encs.pop(); }
    }
    Ok(out)
}

/// The table [sf] of the model (token of a component-type item |-> token of the item as wrappers.rs re-encodes it)
/// described two deviations of wrappers.rs from wasm-encoder's RoundtripReencoder: D28 (a payload-less `stream`
/// declared inside a type declaration came back as `future`) and D29 (an explicit core rec group inside an instance
/// type / nested component type came back as separate types).  Both are repaired in /repo ("fix:" commits), so the
/// table is empty: the model re-encodes every item to itself, and any deviation of the real output is a mismatch.
pub fn collect_sf(_bytes: &[u8], _toks: &mut Toks) -> (Vec<(u64, u64)>, Vec<(u64, u64)>) {
    (vec![], vec![])
}

pub fn coq_nodes(v: &[Node], keep_customs: bool) -> String {
    coq_list(v, |n| match n {
        Node::Items(k, it) => format!("NItems {} {}", IKINDS[*k as usize], coq_list(it, |x| x.to_string())),
        Node::Mod(t, cs) => format!("NMod {} {}", t, if keep_customs { coq_list(cs, |x| x.to_string()) } else { "[]".to_string() }),
        Node::Custom(t) => format!("NCustom {}", t),
        Node::Start(t) => format!("NStart {}", t),
        Node::Names(es) => format!("NNames {}", coq_list(es, |(k, t)| format!("({k}, {t})"))),
        Node::Comp(c) => format!("NComp {}", coq_nodes(c, keep_customs)),
    })
}
pub fn show_nodes(v: &[Node]) -> String {
    v.iter().map(|n| match n {
        Node::Items(k, it) => format!("{}{:?}", &IKINDS[*k as usize][1..], it),
        Node::Mod(t, _) => format!("Mod#{t}"),
        Node::Custom(t) => format!("Custom#{t}"),
        Node::Start(t) => format!("Start#{t}"),
        Node::Names(es) => format!("Names{:?}", es),
        Node::Comp(c) => format!("Comp({})", show_nodes(c)),
    }).collect::<Vec<_>>().join(" ")
}
/// nesting depth: root = 0, a module or component directly inside the root = 1, ...
pub fn depth(v: &[Node]) -> u32 {
    v.iter().map(|n| match n { Node::Mod(..) => 1, Node::Comp(c) => 1 + depth(c), _ => 0 }).max().unwrap_or(0)
}
fn count_nodes(v: &[Node]) -> usize { v.iter().map(|n| match n { Node::Comp(c) => 1 + count_nodes(c), _ => 1 }).sum() }

pub enum Obs { Panic, ParseErr, Tree(Vec<Node>, bool), Undecodable }

pub fn run_wirm(bytes: &[u8], toks: &mut Toks) -> (Obs, Option<Vec<u8>>) {
    let r = catch_unwind(AssertUnwindSafe(|| {
        match wirm::Component::parse(bytes, false) {
            Ok(mut c) => Some(c.encode()),
            Err(_) => None,
        }
    }));
    match r {
        Err(_) => (Obs::Panic, None),
        Ok(None) => (Obs::ParseErr, None),
        Ok(Some(out)) => match decode_comp(&out, toks) {
            Ok(t) => { let v = validates(&out); (Obs::Tree(t, v), Some(out)) }
            Err(_) => (Obs::Undecodable, Some(out)),
        },
    }
}

pub fn validates(bytes: &[u8]) -> bool {
    wasmparser::Validator::new_with_features(wasmparser::WasmFeatures::all()).validate_all(bytes).is_ok()
}

/// one case from component bytes
fn case_of(seed: u64, idx: u64, label: &str, bytes: &[u8], extra_tags: Vec<String>) -> Case {
    let mut toks = Toks::new();
    let valid_in = validates(bytes);
    let tree = decode_comp(bytes, &mut toks).unwrap_or_default();
    let stream = real_stream(bytes, &mut toks).unwrap_or_default();
    let (obs, out) = run_wirm(bytes, &mut toks);
    let obs_s = match &obs {
        Obs::Panic => "OPanic".to_string(),
        Obs::ParseErr => "OErr".to_string(),
        Obs::Undecodable => "OUndecodable".to_string(),
        Obs::Tree(t, v) => format!("(OTree {} {})", coq_nodes(t, false), coq_bool(*v)),
    };
    let (sf, cls) = collect_sf(bytes, &mut toks);
    let coq = format!("mkCase {} {} {} {} {} {}", coq_nodes(&tree, true), coq_bool(valid_in), coq_list(&sf, |(a, b)| format!("({a}, {b})")), coq_list(&cls, |(a, b)| format!("({a}, {b})")), coq_list(&stream, |x| x.to_string()), obs_s);
    let d = depth(&tree);
    let obs_d = match &obs {
        Obs::Panic => "PANIC".to_string(),
        Obs::ParseErr => "PARSE-ERROR".to_string(),
        Obs::Undecodable => "UNDECODABLE OUTPUT".to_string(),
        Obs::Tree(t, v) => format!("{} valid={}", show_nodes(t), v),
    };
    let desc = format!("{} depth={} valid_in={} in: {} => out: {}", label, d, valid_in, show_nodes(&tree), obs_d);
    let mut tags = vec![format!("depth={}", d), format!("nodes_bucket={}", count_nodes(&tree) / 10 * 10), format!("valid_in={}", valid_in)];
    tags.push(format!("obs={}", match &obs { Obs::Panic => "panic", Obs::ParseErr => "parse_err", Obs::Undecodable => "undecodable", Obs::Tree(_, true) => "tree_valid", Obs::Tree(_, false) => "tree_invalid" }));
    tags.extend(extra_tags);
    let _ = out;
    Case { seed, idx, coq, desc, nontrivial: d >= 1 && count_nodes(&tree) >= 3, tags }
}

/// top-level `(component ...)` forms of a .wast script (text-level extraction: strings, `;;` and `(; ;)`
/// comments are honoured); forms wrapped in assert_* directives are not taken
pub fn wast_components(src: &str) -> Vec<String> {
    let b = src.as_bytes();
    let mut out = vec![];
    let mut i = 0;
    let mut depth = 0i32;
    let mut start = 0usize;
    while i < b.len() {
        match b[i] {
            b'"' => { i += 1; while i < b.len() && b[i] != b'"' { if b[i] == b'\\' { i += 1; } i += 1; } }
            b';' if i + 1 < b.len() && b[i + 1] == b';' => { while i < b.len() && b[i] != b'\n' { i += 1; } }
            b'(' if i + 1 < b.len() && b[i + 1] == b';' => {
                let mut d = 1; i += 2;
                while i < b.len() && d > 0 {
                    if b[i] == b'(' && i + 1 < b.len() && b[i + 1] == b';' { d += 1; i += 1; }
                    else if b[i] == b';' && i + 1 < b.len() && b[i + 1] == b')' { d -= 1; i += 1; }
                    i += 1;
                }
                continue;
            }
            b'(' => { if depth == 0 { start = i; } depth += 1; }
            b')' => {
                depth -= 1;
                if depth == 0 {
                    let form = &src[start..=i];
                    let head = form[1..].trim_start();
                    if head.starts_with("component") && !head.starts_with("component instance") && !head.starts_with("component definition") {
                        let rest = head["component".len()..].trim_start();
                        // skip `(component $x binary "...")` / quote forms: wat handles binary; quote is fine too
                        let _ = rest;
                        out.push(form.to_string());
                    }
                }
            }
            _ => {}
        }
        i += 1;
    }
    out
}

fn fixtures() -> Vec<(String, Vec<u8>)> {
    let mut v = vec![];
    fn walk(dir: &std::path::Path, acc: &mut Vec<std::path::PathBuf>) {
        if let Ok(rd) = std::fs::read_dir(dir) {
            let mut es: Vec<_> = rd.filter_map(|e| e.ok()).map(|e| e.path()).collect();
            es.sort();
            for p in es { if p.is_dir() { walk(&p, acc); } else { acc.push(p); } }
        }
    }
    let mut files = vec![];
    walk(std::path::Path::new("/repo/tests"), &mut files);
    for f in files {
        let name = f.strip_prefix("/repo/tests").unwrap().display().to_string();
        let is_component = |b: &[u8]| b.len() >= 8 && &b[0..4] == b"\0asm" && b[6] == 1;
        match f.extension().and_then(|e| e.to_str()) {
            Some("wasm") => { if let Ok(b) = std::fs::read(&f) { if is_component(&b) { v.push((name, b)); } } }
            Some("wat") => {
                if let Ok(s) = std::fs::read_to_string(&f) {
                    if s.contains("(component") { if let Ok(b) = catch_unwind(|| wat::parse_str(&s)) { if let Ok(b) = b { if is_component(&b) { v.push((name, b)); } } } }
                }
            }
            Some("wast") => {
                if let Ok(s) = std::fs::read_to_string(&f) {
                    for (n, form) in wast_components(&s).into_iter().enumerate() {
                        if let Ok(Ok(b)) = catch_unwind(|| wat::parse_str(&form)) { if is_component(&b) { v.push((format!("{}#{}", name, n), b)); } }
                    }
                }
            }
            _ => {}
        }
    }
    v
}

pub const FIXTURE_BASE: u64 = 1 << 40;
pub const WITNESS_BASE: u64 = 1 << 41;

fn main() {
    let args = parse_args();
    if let Some(p) = args.flags.iter().position(|f| f == "--wat") {
        // debugging aid: comp --wat FILE prints the observation for one text component
        let s = std::fs::read_to_string(&args.flags[p + 1]).unwrap();
        let b = wat::parse_str(&s).unwrap();
        let c = case_of(0, 0, "wat", &b, vec![]);
        println!("{}\n{}", c.desc, c.coq);
        return;
    }
    let header = "From Coq Require Import List NArith.\nImport ListNotations.\nFrom Orca Require Import Comp CheckComp.\nOpen Scope N_scope.";
    let footer = format!("Eval vm_compute in (report_{} cases).", args.prop);
    let fx = fixtures();
    let wit = comp_gen::witnesses();
    let witb = comp_gen::witnesses_bytes();
    if args.flags.iter().any(|f| f == "--list-fixtures") {
        for (i, (n, b)) in fx.iter().enumerate() { println!("{} {} {} valid={}", i, n, b.len(), validates(b)); }
        return;
    }
    // the fixtures and witnesses are appended after the generated cases unless a single case is asked for
    let mut a2 = Args { prop: args.prop.clone(), seed: args.seed, n: args.n, shards: args.shards, out: args.out.clone(), only: args.only, extra: args.extra.clone(), flags: args.flags.clone() };
    if a2.only.is_none() && !args.flags.iter().any(|f| f == "--no-fixtures") {
        for i in 0..(wit.len() + witb.len()) as u64 { a2.extra.push((0, WITNESS_BASE + i)); }
        for i in 0..fx.len() as u64 { a2.extra.push((0, FIXTURE_BASE + i)); }
    }
    run_shards(&a2, header, "ccase", &footer, |seed, idx| {
        if idx >= WITNESS_BASE + wit.len() as u64 {
            let (name, b) = &witb[(idx - WITNESS_BASE) as usize - wit.len()];
            return case_of(seed, idx, &format!("witness {}", name), b, vec!["src=witness".into()]);
        }
        if idx >= WITNESS_BASE {
            let (name, wat_text) = &wit[(idx - WITNESS_BASE) as usize];
            let b = wat::parse_str(wat_text).expect("witness assembles");
            return case_of(seed, idx, &format!("witness {}", name), &b, vec!["src=witness".into()]);
        }
        if idx >= FIXTURE_BASE {
            let (name, b) = &fx[(idx - FIXTURE_BASE) as usize];
            return case_of(seed, idx, &format!("fixture {}", name), b, vec!["src=fixture".into()]);
        }
        let mut r = Rng::for_case(seed, idx);
        let (bytes, gtags) = comp_gen::gen_valid_component(&mut r);
        let mut tags = vec!["src=generated".to_string()];
        tags.extend(gtags);
        case_of(seed, idx, "generated", &bytes, tags)
    });
}
