// Correspondence harness of the types engine (C13).
// Base: a module whose type section has 0-6 rec groups (implicit single types and explicit groups of 0-3
// members; func / struct / array; sub types, finality, shared; packed fields; references to other types),
// in 45% of the cases with structurally equal types planted, plus 0-2 local functions.  Then 1-8 additions
// through every public type-adding call:
//   0 add_func_type   1 add_func_type_with_params   2 add_array_type   3 add_array_type_with_params
//   4 add_struct_type 5 add_struct_type_with_params 6 FunctionBuilder::finish_module (adds the function's type)
// biased towards repeating an earlier request (possibly through a different call) and towards types the base
// already has.  Observed: the iteration order of module.types.types right after parse (what ModuleTypes::new
// saw), the returned type ids (path 6: the type index of the built function in the encoded function section),
// and the decoded type section (rec groups with their SubTypes).
use std::panic::{catch_unwind, AssertUnwindSafe};
use vharness::*;
use wirm::ir::function::FunctionBuilder;
use wirm::ir::id::TypeID;
use wirm::ir::types::Tag;
use wirm::{DataType, Module};

#[derive(Clone, Debug, PartialEq)]
struct CT { kind: u32, xs: Vec<u32>, ys: Vec<u32>, sup: Option<u32>, fin: bool, sh: bool }

fn tok_dt(t: u32) -> DataType {
    match t {
        0 => DataType::I32, 1 => DataType::I64, 2 => DataType::F32, 3 => DataType::F64, 4 => DataType::V128,
        5 => DataType::FuncRefNull, 6 => DataType::ExternRefNull, 7 => DataType::FuncRef, 8 => DataType::ExternRef,
        9 => DataType::AnyNull, 10 => DataType::EqNull, 11 => DataType::I31Null, 12 => DataType::StructNull,
        13 => DataType::ArrayNull, 14 => DataType::Any, 15 => DataType::NoneNull,
        20 => DataType::I8, 21 => DataType::I16,
        t if t >= 1000 => DataType::Module { ty_id: (t - 1000) / 2, nullable: (t - 1000) % 2 == 1 },
        _ => DataType::I32,
    }
}
fn tok_val(t: u32) -> wasm_encoder::ValType {
    use wasm_encoder::{AbstractHeapType as A, HeapType, RefType, ValType as V};
    let r = |nullable, ty| V::Ref(RefType { nullable, heap_type: HeapType::Abstract { shared: false, ty } });
    match t {
        0 => V::I32, 1 => V::I64, 2 => V::F32, 3 => V::F64, 4 => V::V128,
        5 => r(true, A::Func), 6 => r(true, A::Extern), 7 => r(false, A::Func), 8 => r(false, A::Extern),
        9 => r(true, A::Any), 10 => r(true, A::Eq), 11 => r(true, A::I31), 12 => r(true, A::Struct),
        13 => r(true, A::Array), 14 => r(false, A::Any), 15 => r(true, A::None),
        t if t >= 1000 => V::Ref(RefType { nullable: (t - 1000) % 2 == 1, heap_type: HeapType::Concrete((t - 1000) / 2) }),
        _ => V::I32,
    }
}
fn tok_storage(t: u32) -> wasm_encoder::StorageType {
    match t { 20 => wasm_encoder::StorageType::I8, 21 => wasm_encoder::StorageType::I16, t => wasm_encoder::StorageType::Val(tok_val(t)) }
}
fn val_tok(t: wasmparser::ValType) -> u32 {
    use wasmparser::{AbstractHeapType as A, HeapType, UnpackedIndex, ValType as V};
    match t {
        V::I32 => 0, V::I64 => 1, V::F32 => 2, V::F64 => 3, V::V128 => 4,
        V::Ref(r) => match r.heap_type() {
            HeapType::Abstract { shared: false, ty } => match (r.is_nullable(), ty) {
                (true, A::Func) => 5, (true, A::Extern) => 6, (false, A::Func) => 7, (false, A::Extern) => 8,
                (true, A::Any) => 9, (true, A::Eq) => 10, (true, A::I31) => 11, (true, A::Struct) => 12,
                (true, A::Array) => 13, (false, A::Any) => 14, (true, A::None) => 15,
                _ => 900,
            },
            HeapType::Concrete(UnpackedIndex::Module(k)) => 1000 + 2 * k + r.is_nullable() as u32,
            _ => 901,
        },
    }
}
fn storage_tok(t: wasmparser::StorageType) -> u32 {
    match t { wasmparser::StorageType::I8 => 20, wasmparser::StorageType::I16 => 21, wasmparser::StorageType::Val(v) => val_tok(v) }
}

fn enc_sub(t: &CT) -> wasm_encoder::SubType {
    use wasm_encoder as we;
    let inner = match t.kind {
        0 => we::CompositeInnerType::Func(we::FuncType::new(t.xs.iter().map(|x| tok_val(*x)).collect::<Vec<_>>(), t.ys.iter().map(|x| tok_val(*x)).collect::<Vec<_>>())),
        1 => we::CompositeInnerType::Array(we::ArrayType(we::FieldType { element_type: tok_storage(t.xs[0]), mutable: t.ys[0] == 1 })),
        _ => we::CompositeInnerType::Struct(we::StructType { fields: t.xs.iter().zip(t.ys.iter()).map(|(x, m)| we::FieldType { element_type: tok_storage(*x), mutable: *m == 1 }).collect::<Vec<_>>().into_boxed_slice() }),
    };
    we::SubType { is_final: t.fin, supertype_idx: t.sup, composite_type: we::CompositeType { inner, shared: t.sh } }
}
fn dec_sub(s: &wasmparser::SubType) -> CT {
    use wasmparser::CompositeInnerType as C;
    let (kind, xs, ys) = match &s.composite_type.inner {
        C::Func(f) => (0, f.params().iter().map(|t| val_tok(*t)).collect(), f.results().iter().map(|t| val_tok(*t)).collect()),
        C::Array(a) => (1, vec![storage_tok(a.0.element_type)], vec![a.0.mutable as u32]),
        C::Struct(st) => (2, st.fields.iter().map(|f| storage_tok(f.element_type)).collect(), st.fields.iter().map(|f| f.mutable as u32).collect()),
        C::Cont(_) => (3, vec![], vec![]),
    };
    CT { kind, xs, ys, sup: s.supertype_idx.map(|p| p.as_module_index().unwrap_or(u32::MAX)), fin: s.is_final, sh: s.composite_type.shared }
}
/// decoded type section (rec groups) and the type indices of the function section
fn decode(bytes: &[u8]) -> Option<(Vec<(bool, Vec<CT>)>, Vec<u32>)> {
    let mut groups = vec![];
    let mut funcs = vec![];
    for p in wasmparser::Parser::new(0).parse_all(bytes) {
        match p.ok()? {
            wasmparser::Payload::TypeSection(rd) => for rg in rd { let rg = rg.ok()?; groups.push((rg.is_explicit_rec_group(), rg.types().map(dec_sub).collect())); },
            wasmparser::Payload::FunctionSection(rd) => for f in rd { funcs.push(f.ok()?); },
            _ => {}
        }
    }
    Some((groups, funcs))
}

fn gen_val(r: &mut Rng, ntypes: u32) -> u32 {
    if ntypes > 0 && r.chance(1, 6) { 1000 + 2 * r.below(ntypes as u64) as u32 + r.below(2) as u32 }
    else if r.chance(3, 4) { r.below(7) as u32 } else { r.below(16) as u32 }
}
fn gen_storage(r: &mut Rng, ntypes: u32) -> u32 { if r.chance(1, 5) { 20 + r.below(2) as u32 } else { gen_val(r, ntypes) } }
/// a random type; `ntypes` bounds the indices it may mention
fn gen_ct(r: &mut Rng, ntypes: u32, fancy: bool) -> CT {
    let kind = match r.below(10) { 0..=4 => 0, 5..=7 => 2, _ => 1 };
    let (xs, ys) = match kind {
        0 => ((0..r.below(4)).map(|_| gen_val(r, ntypes)).collect(), (0..r.below(3)).map(|_| gen_val(r, ntypes)).collect()),
        1 => (vec![gen_storage(r, ntypes)], vec![r.below(2) as u32]),
        _ => { let n = r.below(4); ((0..n).map(|_| gen_storage(r, ntypes)).collect(), (0..n).map(|_| r.below(2) as u32).collect()) }
    };
    if fancy {
        let sup = if ntypes > 0 && r.chance(1, 3) { Some(r.below(ntypes as u64) as u32) } else { None };
        CT { kind, xs, ys, sup, fin: !r.chance(2, 5), sh: r.chance(1, 8) }
    } else { CT { kind, xs, ys, sup: None, fin: true, sh: false } }
}

struct TCase { base: Vec<(bool, Vec<CT>)>, funcs: Vec<u32>, ops: Vec<(u32, CT, bool)> }

fn gen_case(r: &mut Rng) -> TCase {
    let dups = r.chance(45, 100);
    let ngroups = r.below(7);
    let mut base: Vec<(bool, Vec<CT>)> = vec![];
    let mut flat: Vec<CT> = vec![];
    for _ in 0..ngroups {
        let explicit = r.chance(3, 10);
        let n = if explicit { r.below(4) as usize } else { 1 };
        let mut g = vec![];
        for _ in 0..n {
            let t = if dups && !flat.is_empty() && r.chance(2, 5) { r.pick(&flat).clone() } else { let fancy = r.chance(1, 2); gen_ct(r, flat.len() as u32 + n as u32, fancy) };
            g.push(t);
        }
        flat.extend(g.iter().cloned());
        base.push((explicit, g));
    }
    let fts: Vec<u32> = flat.iter().enumerate().filter(|(_, t)| t.kind == 0).map(|(i, _)| i as u32).collect();
    let funcs: Vec<u32> = if fts.is_empty() { vec![] } else { (0..r.below(3)).map(|_| *r.pick(&fts)).collect() };
    let nops = r.range(1, 8);
    let mut ops: Vec<(u32, CT, bool)> = vec![];
    let mut cur = flat.len() as u32;
    for _ in 0..nops {
        let choice = r.below(100);
        let (path, t) = if choice < 30 && !ops.is_empty() {
            // repeat an earlier request, through the same call or through the other call of the same kind
            let (p, t, _) = r.pick(&ops).clone();
            let plain = t.sup.is_none() && t.fin && !t.sh;
            let p2 = if p == 6 { if r.chance(1, 2) { 6 } else { r.below(2) as u32 } } else if plain && r.chance(1, 2) { p ^ 1 } else { p };
            (p2, t)
        } else if choice < 50 && !flat.is_empty() {
            // ask for a type the base already has
            let t = r.pick(&flat).clone();
            let plain = t.sup.is_none() && t.fin && !t.sh;
            let p = t.kind * 2 + if plain && r.chance(1, 2) { 0 } else { 1 };
            (if p == 0 && r.chance(1, 4) { 6 } else { p }, t)
        } else if choice < 68 && (!flat.is_empty() || !ops.is_empty()) {
            // a NEAR duplicate: a type of the base / an earlier request changed in exactly one attribute (one field's
            // mutability or type, one field more or fewer, finality, sharing, the supertype): it must get a new id
            let mut t = if !ops.is_empty() && (flat.is_empty() || r.chance(1, 2)) { r.pick(&ops).1.clone() } else { r.pick(&flat).clone() };
            let mut fancy = !(t.sup.is_none() && t.fin && !t.sh);
            match r.below(6) {
                0 | 1 if t.kind != 0 && !t.ys.is_empty() => { let i = r.below(t.ys.len() as u64) as usize; t.ys[i] ^= 1; }
                2 if !t.xs.is_empty() => { let i = r.below(t.xs.len() as u64) as usize; t.xs[i] = if t.kind == 0 { gen_val(r, 0) } else { gen_storage(r, 0) }; }
                3 if t.kind == 2 => { if !t.xs.is_empty() && r.chance(1, 2) { t.xs.pop(); t.ys.pop(); } else { t.xs.push(gen_storage(r, 0)); t.ys.push(r.below(2) as u32); } }
                4 => { t.fin = !t.fin; fancy = true; }
                5 => { t.sh = !t.sh; fancy = true; }
                _ => { if t.kind == 0 { t.ys.push(gen_val(r, 0)); } else if !t.ys.is_empty() { t.ys[0] ^= 1; } }
            }
            let p = t.kind * 2 + fancy as u32;
            (p, t)
        } else {
            let fancy = r.chance(1, 2);
            let mut t = gen_ct(r, cur + 1, fancy);
            if fancy && r.chance(1, 40) { t.sup = Some(1048576 + r.below(5) as u32); }
            let p = t.kind * 2 + fancy as u32;
            (if p == 0 && r.chance(1, 3) { 6 } else { p }, t)
        };
        // the calls without super/final/shared arguments cannot express them
        let t = if path % 2 == 0 { CT { sup: None, fin: true, sh: false, ..t } } else { t };
        ops.push((path, t, r.chance(1, 4)));
        cur += 1;
    }
    TCase { base, funcs, ops }
}

fn build_module(c: &TCase) -> Vec<u8> {
    use wasm_encoder as we;
    let mut m = we::Module::new();
    if !c.base.is_empty() {
        let mut ts = we::TypeSection::new();
        for (explicit, g) in &c.base {
            if *explicit { ts.ty().rec(g.iter().map(enc_sub).collect::<Vec<_>>()); } else { ts.ty().subtype(&enc_sub(&g[0])); }
        }
        m.section(&ts);
    }
    if !c.funcs.is_empty() {
        let mut fs = we::FunctionSection::new();
        for f in &c.funcs { fs.function(*f); }
        m.section(&fs);
        let mut cs = we::CodeSection::new();
        for _ in &c.funcs { let mut f = we::Function::new(vec![]); f.instruction(&we::Instruction::Unreachable); f.instruction(&we::Instruction::End); cs.function(&f); }
        m.section(&cs);
    }
    m.finish()
}

struct Obs { order: Vec<u32>, res: Option<(Vec<u32>, Vec<(bool, Vec<CT>)>)> }

fn run_case(c: &TCase) -> Obs {
    let bytes = build_module(c);
    let res = catch_unwind(AssertUnwindSafe(|| {
        let mut module = Module::parse(&bytes, false).expect("parse");
        let order: Vec<u32> = module.types.types.keys().map(|k| **k).collect();
        let mut ids: Vec<Result<u32, usize>> = vec![];   // Ok(type id) or Err(position among the built functions)
        let mut built = 0;
        for (path, t, tagged) in &c.ops {
            let tag = if *tagged { Some(Tag::new(vec![7, 7])) } else { None };
            let xs: Vec<DataType> = t.xs.iter().map(|x| tok_dt(*x)).collect();
            let ys: Vec<DataType> = t.ys.iter().map(|x| tok_dt(*x)).collect();
            let muts: Vec<bool> = t.ys.iter().map(|m| *m == 1).collect();
            let sup = t.sup.map(TypeID);
            let id = match path {
                0 => Ok(*module.types.add_func_type(&xs, &ys, tag)),
                1 => Ok(*module.types.add_func_type_with_params(&xs, &ys, sup, t.fin, t.sh, tag)),
                2 => Ok(*module.types.add_array_type(xs[0], muts[0], tag)),
                3 => Ok(*module.types.add_array_type_with_params(xs[0], muts[0], sup, t.fin, t.sh, tag)),
                4 => Ok(*module.types.add_struct_type(xs.clone(), muts.clone(), tag)),
                5 => Ok(*module.types.add_struct_type_with_params(xs.clone(), muts.clone(), sup, t.fin, t.sh, tag)),
                _ => { let fb = FunctionBuilder::new(&xs, &ys); fb.finish_module(&mut module); built += 1; Err(built - 1) }
            };
            ids.push(id);
        }
        (order, ids, module.encode())
    }));
    match res {
        Err(_) => Obs { order: vec![], res: None },
        Ok((order, ids, out)) => {
            let res = decode(&out).and_then(|(groups, funcs)| {
                let mut v = vec![];
                for id in &ids { v.push(match id { Ok(i) => *i, Err(k) => *funcs.get(c.funcs.len() + *k)? }); }
                Some((v, groups))
            });
            Obs { order, res }
        }
    }
}

fn coq_ct(t: &CT) -> String {
    format!("(mkT {} {} {} {} {} {})", t.kind, coq_list(&t.xs, |x| x.to_string()), coq_list(&t.ys, |x| x.to_string()), coq_opt(&t.sup, |x| x.to_string()), coq_bool(t.fin), coq_bool(t.sh))
}
fn coq_groups(g: &[(bool, Vec<CT>)]) -> String { coq_list(g, |(e, ts)| format!("({}, {})", coq_bool(*e), coq_list(ts, coq_ct))) }
fn show_ct(t: &CT) -> String {
    format!("{}{:?}{:?}{}{}{}", ["func", "array", "struct", "cont"][t.kind as usize], t.xs, t.ys, t.sup.map(|s| format!(" sub {s}")).unwrap_or_default(), if t.fin { "" } else { " open" }, if t.sh { " shared" } else { "" })
}
fn show_groups(g: &[(bool, Vec<CT>)]) -> String { g.iter().map(|(e, ts)| format!("{}({})", if *e { "rec" } else { "" }, ts.iter().map(show_ct).collect::<Vec<_>>().join(", "))).collect::<Vec<_>>().join(" ") }

fn main() {
    let args = parse_args();
    let header = "From Coq Require Import List NArith.\nImport ListNotations.\nFrom Orca Require Import Types CheckTypes.\nOpen Scope N_scope.";
    let footer = format!("Eval vm_compute in (report_{} cases).", args.prop);
    run_shards(&args, header, "tcase", &footer, |seed, idx| {
        let mut r = Rng::for_case(seed, idx);
        let c = gen_case(&mut r);
        let o = run_case(&c);
        let flat: Vec<CT> = c.base.iter().flat_map(|g| g.1.iter().cloned()).collect();
        // when the run panicked before the order could be read, any order will do for the model's verdict "panic"
        let order: Vec<u32> = if o.res.is_none() && o.order.is_empty() { (0..flat.len() as u32).collect() } else { o.order.clone() };
        let obs_s = match &o.res { None => "None".to_string(), Some((ids, gs)) => format!("(Some ({}, {}))", coq_list(ids, |x| x.to_string()), coq_groups(gs)) };
        let coq = format!("mkTC {} {} {} {}", coq_groups(&c.base), coq_list(&order, |x| x.to_string()),
            coq_list(&c.ops, |(p, t, _)| format!("({}, {})", p, coq_ct(t))), obs_s);
        let desc = format!("base=[{}] funcs={:?} iteration_order={:?} ops=[{}] => {}", show_groups(&c.base), c.funcs, order,
            c.ops.iter().map(|(p, t, tag)| format!("{}:{}{}", p, show_ct(t), if *tag { " tagged" } else { "" })).collect::<Vec<_>>().join("; "),
            match &o.res { None => "PANIC/undecodable".to_string(), Some((ids, gs)) => format!("ids={:?} types=[{}]", ids, show_groups(gs)) });
        let has_dups = (0..flat.len()).any(|i| (0..i).any(|j| flat[i] == flat[j]));
        let req: Vec<CT> = c.ops.iter().map(|(_, t, _)| t.clone()).collect();
        let mut tags = vec![format!("base_groups={}", c.base.len()), format!("n_ops={}", c.ops.len()), format!("base_has_equal_types={}", has_dups),
            format!("obs={}", if o.res.is_some() { "encoded" } else { "panicked" })];
        if c.base.iter().any(|g| g.0) { tags.push("explicit_rec_group".into()); }
        if c.base.iter().any(|g| g.0 && g.1.is_empty()) { tags.push("empty_rec_group".into()); }
        if flat.iter().any(|t| t.sup.is_some()) { tags.push("base_subtype".into()); }
        if (0..req.len()).any(|i| (0..i).any(|j| req[i] == req[j])) { tags.push("request_repeated".into()); }
        if req.iter().any(|t| flat.contains(t)) { tags.push("request_equals_base_type".into()); }
        if req.iter().any(|t| flat.iter().filter(|b| *b == t).count() > 1) { tags.push("request_equals_duplicated_base_type".into()); }
        if req.iter().any(|t| t.sup.map(|s| s >= 1048576).unwrap_or(false)) { tags.push("super_ge_2^20".into()); }
        for (p, _, _) in &c.ops { tags.push(format!("path={}", p)); }
        Case { seed, idx, coq, desc, nontrivial: !c.ops.is_empty(), tags }
    });
}
