// Correspondence harness of the opcode-helpers engine (C24).
// One case = one helper of wirm::opcode::{Opcode, MacroOpcode} called on a real injection target with sampled
// immediates; the observation is what was injected: either the wasmparser::Operator value found in the
// FunctionBuilder's body (mode 0, any immediates), or the operators decoded by wasmparser from
// Module::encode's / Component::encode's output (modes 1-4: FunctionBuilder+finish_module, ModuleIterator,
// FunctionModifier, ComponentIterator over a component that embeds the base module; index
// immediates that the encoder re-maps must then name existing entities of the base module).
// Operators are numbered by their position in wasmparser's for_each_operator! expansion; the list of
// (variant, field names) in that order and the list of helper names of the call table below are printed
// into every cases file, and Coq compares both with the translator's tables (Check/CheckHelpers.v:
// tables_agree) -- a helper added to /repo/src/opcode.rs but missing here makes every case a mismatch.
use std::panic::{catch_unwind, AssertUnwindSafe};
use vharness::*;
use wasmparser::{MemArg, Operator};
use wirm::ir::function::FunctionBuilder;
use wirm::ir::id::{DataSegmentID, ElementID, FieldID, FunctionID, GlobalID, LocalID, TypeID};
use wirm::ir::module::module_types::{AbstractHeapType, HeapType};
use wirm::ir::types::{BlockType, DataType, Location};
use wirm::iterator::component_iterator::ComponentIterator;
use wirm::iterator::iterator_trait::IteratingInstrumenter;
use wirm::iterator::module_iterator::ModuleIterator;
use wirm::opcode::{Inject, Instrumenter, MacroOpcode, Opcode};
use wirm::{Component, Module};

// ---------------------------------------------------------------------------------------------
// arguments
#[derive(Clone, Debug)]
enum Arg { Z(i128), Mem(MemArg), Bt(BlockType, i128), Ht(HeapType, i128) }
impl Arg {
    fn u32(&self) -> u32 { match self { Arg::Z(z) => *z as u32, _ => panic!("arg kind") } }
    fn u64(&self) -> u64 { match self { Arg::Z(z) => *z as u64, _ => panic!("arg kind") } }
    fn i32(&self) -> i32 { match self { Arg::Z(z) => *z as i32, _ => panic!("arg kind") } }
    fn i64(&self) -> i64 { match self { Arg::Z(z) => *z as i64, _ => panic!("arg kind") } }
    fn coq(&self) -> String {
        match self {
            Arg::Z(z) | Arg::Bt(_, z) | Arg::Ht(_, z) => format!("VZ {}", coq_z(*z)),
            Arg::Mem(m) => format!("VMem {} {} {} {}", m.align, m.max_align, m.offset, m.memory),
        }
    }
    fn show(&self) -> String {
        match self {
            Arg::Z(z) => format!("{z} (0x{:x})", *z as u64),
            Arg::Bt(b, z) => format!("{b:?} [token {z}]"),
            Arg::Ht(h, z) => format!("{h:?} [token {z}]"),
            Arg::Mem(m) => format!("{m:?}"),
        }
    }
}
macro_rules! arg {
    (fid, $a:expr) => { FunctionID($a.u32()) }; (lid, $a:expr) => { LocalID($a.u32()) }; (gid, $a:expr) => { GlobalID($a.u32()) };
    (tid, $a:expr) => { TypeID($a.u32()) }; (fld, $a:expr) => { FieldID($a.u32()) }; (did, $a:expr) => { DataSegmentID($a.u32()) };
    (eid, $a:expr) => { ElementID($a.u32()) };
    (u32, $a:expr) => { $a.u32() }; (mem, $a:expr) => { $a.u32() }; (fun32, $a:expr) => { $a.u32() };
    (u64, $a:expr) => { $a.u64() }; (i32, $a:expr) => { $a.i32() }; (i64, $a:expr) => { $a.i64() };
    // the float is handed over as a float: from_bits keeps every bit, NaN payloads and the signalling bit included
    (f32, $a:expr) => { f32::from_bits($a.u32()) }; (f64, $a:expr) => { f64::from_bits($a.u64()) };
    (memarg, $a:expr) => { match $a { Arg::Mem(m) => *m, _ => panic!("arg kind") } };
    (bt, $a:expr) => { match $a { Arg::Bt(b, _) => *b, _ => panic!("arg kind") } };
    (ht, $a:expr) => { match $a { Arg::Ht(h, _) => h.clone(), _ => panic!("arg kind") } };
}
// the call table: helper name (parameter kinds).  Written out once from the signatures in src/opcode.rs.
macro_rules! helpers {
    ($( $name:ident ( $($k:ident),* ) ),* $(,)?) => {
        const HELPER_NAMES: &[&str] = &[$(stringify!($name)),*];
        const HELPER_KINDS: &[&[&str]] = &[$( &[$(stringify!($k)),*] ),*];
        #[allow(unused_assignments, unused_mut, unused_variables)]
        fn call_helper<'a, T: Opcode<'a> + MacroOpcode<'a>>(t: &mut T, hid: usize, a: &[Arg]) {
            let mut n = 0usize;
            $( if hid == n { let mut i = 0usize; t.$name($( { let v = arg!($k, &a[i]); i += 1; v } ),*); return; } n += 1; )*
            panic!("no helper {hid}");
        }
    };
}
helpers! {
    call(fid), return_stmt(), nop(), unreachable(), select(), if_stmt(bt), else_stmt(), end(), block(bt), loop_stmt(bt),
    br(u32), br_if(u32), local_get(lid), local_set(lid), local_tee(lid), i32_const(i32), i32_add(), i32_sub(),
    i32_mul(), i32_div_signed(), i32_div_unsigned(), i32_rem_unsigned(), i32_rem_signed(), i32_and(), i32_or(),
    i32_xor(), i32_shl(), i32_shr_signed(), i32_shr_unsigned(), i32_rotl(), i32_rotr(), i32_eq(), i32_eqz(), i32_ne(),
    i32_lt_unsigned(), i32_lt_signed(), i32_gt_unsigned(), i32_gt_signed(), i32_lte_unsigned(), i32_lte_signed(),
    i32_gte_unsigned(), i32_gte_signed(), i32_wrap_i64(), i32_extend_8s(), i32_extend_16s(), i32_trunc_f32s(),
    i32_trunc_f32u(), i32_trunc_f64s(), i32_trunc_f64u(), i32_reinterpret_f32(), i64_const(i64), i64_add(), i64_sub(),
    i64_mul(), i64_div_signed(), i64_div_unsigned(), i64_rem_unsigned(), i64_rem_signed(), i64_and(), i64_or(),
    i64_xor(), i64_shl(), i64_shr_signed(), i64_shr_unsigned(), i64_rotl(), i64_rotr(), i64_eq(), i64_eqz(), i64_ne(),
    i64_lt_unsigned(), i64_lt_signed(), i64_gt_unsigned(), i64_gt_signed(), i64_lte_unsigned(), i64_lte_signed(),
    i64_gte_unsigned(), i64_gte_signed(), i64_extend_i32u(), i64_extend_i32s(), i64_trunc_f32s(), i64_trunc_f32u(),
    i64_trunc_f64s(), i64_trunc_f64u(), i64_reinterpret_f64(), f32_const(f32), f32_abs(), f32_ceil(), f32_floor(),
    f32_trunc(), f32_sqrt(), f32_add(), f32_sub(), f32_mul(), f32_div(), f32_min(), f32_max(), f32_eq(), f32_ne(),
    f32_gt(), f32_ge(), f32_lt(), f32_le(), f32_convert_i32s(), f32_convert_i32u(), f32_convert_i64s(),
    f32_convert_i64u(), f32_demote_f64(), f32_reinterpret_i32(), f32_copysign(), f64_const(f64), f64_abs(), f64_ceil(),
    f64_floor(), f64_trunc(), f64_sqrt(), f64_add(), f64_sub(), f64_mul(), f64_div(), f64_min(), f64_max(), f64_eq(),
    f64_ne(), f64_gt(), f64_ge(), f64_lt(), f64_le(), f64_reinterpret_i64(), f64_promote_f32(), f64_convert_i32s(),
    f64_convert_i32u(), f64_convert_i64s(), f64_convert_i64u(), f64_copysign(), memory_init(u32, mem), memory_size(mem),
    memory_grow(mem), memory_fill(mem), memory_copy(mem, mem), memory_discard(mem), data_drop(u32), drop(),
    i32_load8_s(memarg), i32_load8_u(memarg), i32_load16_s(memarg), i32_load16_u(memarg), i32_load(memarg),
    i32_store(memarg), i32_store8(memarg), i32_store16(memarg), i64_load8_s(memarg), i64_load8_u(memarg),
    i64_load16_s(memarg), i64_load16_u(memarg), i64_load32_s(memarg), i64_load32_u(memarg), i64_load(memarg),
    i64_store(memarg), f32_load(memarg), f32_store(memarg), f64_load(memarg), f64_store(memarg), global_get(gid),
    global_set(gid), ref_null(ht), ref_is_null(), ref_func(fun32), ref_eq(), ref_as_non_null(), struct_new(tid),
    struct_new_default(tid), struct_get(tid, fld), struct_get_s(tid, fld), struct_get_u(tid, fld), struct_set(tid, fld),
    array_new(tid), array_new_default(tid), array_new_fixed(tid, u32), array_new_data(tid, did),
    array_new_elem(tid, eid), array_get(tid), array_get_s(tid), array_get_u(tid), array_set(tid), array_len(),
    array_fill(tid), array_copy(tid, tid), array_init_data(tid, did), array_init_elem(tid, eid), ref_test(ht),
    ref_test_null(ht), ref_cast(ht), ref_cast_null(ht), any_convert_extern(), extern_convert_any(), ref_i31(),
    i31_get_s(), i31_get_u(), u32_const(u32), u64_const(u64),
}

// ---------------------------------------------------------------------------------------------
// tokens of block types / heap types (what "the same type" means for an opaque immediate)
const ABS: [(AbstractHeapType, wasmparser::AbstractHeapType); 14] = {
    use wasmparser::AbstractHeapType as W; use AbstractHeapType as A;
    [(A::Func, W::Func), (A::Extern, W::Extern), (A::Any, W::Any), (A::None, W::None), (A::NoExtern, W::NoExtern), (A::NoFunc, W::NoFunc), (A::Eq, W::Eq),
     (A::Struct, W::Struct), (A::Array, W::Array), (A::I31, W::I31), (A::Exn, W::Exn), (A::NoExn, W::NoExn), (A::Cont, W::Cont), (A::NoCont, W::NoCont)]
};
fn wp_heap_tok(h: &wasmparser::HeapType) -> i128 {
    match h {
        wasmparser::HeapType::Abstract { shared, ty } => { let i = ABS.iter().position(|p| p.1 == *ty).unwrap() as i128; -(1 + 2 * i + *shared as i128) }
        wasmparser::HeapType::Concrete(wasmparser::UnpackedIndex::Module(i)) => *i as i128,
        wasmparser::HeapType::Concrete(wasmparser::UnpackedIndex::RecGroup(i)) => (1i128 << 32) + *i as i128,
        #[allow(unreachable_patterns)]
        _ => 1i128 << 40,
    }
}
fn wp_valtype_code(v: &wasmparser::ValType) -> i128 {
    match v {
        wasmparser::ValType::I32 => 0, wasmparser::ValType::I64 => 1, wasmparser::ValType::F32 => 2, wasmparser::ValType::F64 => 3, wasmparser::ValType::V128 => 4,
        wasmparser::ValType::Ref(r) => { let h = wp_heap_tok(&r.heap_type()); if h >= 0 { 1000 + 2 * h + r.is_nullable() as i128 } else { 16 + 2 * (-h - 1) + r.is_nullable() as i128 } }
    }
}
fn wp_block_tok(b: &wasmparser::BlockType) -> i128 {
    match b { wasmparser::BlockType::Empty => -1, wasmparser::BlockType::FuncType(i) => *i as i128, wasmparser::BlockType::Type(v) => -(2 + wp_valtype_code(v)) }
}
// value types whose wirm DataType has one meaning in both directions: numbers, v128, and the abstract reference
// types written `X` (non-null) / `XNull` (nullable).  DataType::FuncRef / ExternRef are left out on purpose: the parser
// maps (ref func) to FuncRef but the conversion back yields the nullable funcref (a value-type finding outside C24).
fn datatypes() -> Vec<(DataType, i128)> {
    let r = |abs: usize, nullable: bool| 16 + 2 * (2 * abs as i128) + nullable as i128;
    vec![(DataType::I32, 0), (DataType::I64, 1), (DataType::F32, 2), (DataType::F64, 3), (DataType::V128, 4),
         (DataType::FuncRefNull, r(0, true)), (DataType::ExternRefNull, r(1, true)),
         (DataType::Any, r(2, false)), (DataType::AnyNull, r(2, true)), (DataType::None, r(3, false)), (DataType::NoneNull, r(3, true)),
         (DataType::NoExtern, r(4, false)), (DataType::NoExternNull, r(4, true)), (DataType::NoFunc, r(5, false)), (DataType::NoFuncNull, r(5, true)),
         (DataType::Eq, r(6, false)), (DataType::EqNull, r(6, true)), (DataType::Struct, r(7, false)), (DataType::StructNull, r(7, true)),
         (DataType::Array, r(8, false)), (DataType::ArrayNull, r(8, true)), (DataType::I31, r(9, false)), (DataType::I31Null, r(9, true)),
         (DataType::Exn, r(10, false)), (DataType::NoExn, r(11, false)), (DataType::Cont, r(12, false)), (DataType::NoCont, r(13, false))]
}

// ---------------------------------------------------------------------------------------------
// operators -> (code, immediates)
trait Imm { fn flat(&self, direct: bool, out: &mut Vec<i128>); }
impl Imm for u32 { fn flat(&self, _: bool, o: &mut Vec<i128>) { o.push(*self as i128) } }
impl Imm for u8 { fn flat(&self, _: bool, o: &mut Vec<i128>) { o.push(*self as i128) } }
impl Imm for i32 { fn flat(&self, _: bool, o: &mut Vec<i128>) { o.push(*self as i128) } }
impl Imm for i64 { fn flat(&self, _: bool, o: &mut Vec<i128>) { o.push(*self as i128) } }
impl Imm for wasmparser::Ieee32 { fn flat(&self, _: bool, o: &mut Vec<i128>) { o.push(self.bits() as i128) } }
impl Imm for wasmparser::Ieee64 { fn flat(&self, _: bool, o: &mut Vec<i128>) { o.push(self.bits() as i128) } }
impl Imm for MemArg { fn flat(&self, direct: bool, o: &mut Vec<i128>) { o.push(self.align as i128); if direct { o.push(self.max_align as i128) } o.push(self.offset as i128); o.push(self.memory as i128) } }
impl Imm for wasmparser::BlockType { fn flat(&self, _: bool, o: &mut Vec<i128>) { o.push(wp_block_tok(self)) } }
impl Imm for wasmparser::HeapType { fn flat(&self, _: bool, o: &mut Vec<i128>) { o.push(wp_heap_tok(self)) } }
// field types no helper produces: a marker that can never equal an expected immediate list
macro_rules! opaque_imm { ($($t:ty),*) => { $( impl Imm for $t { fn flat(&self, _: bool, o: &mut Vec<i128>) { o.push(-(1i128 << 100)) } } )* } }
opaque_imm!(wasmparser::Ordering, wasmparser::ResumeTable, wasmparser::V128, wasmparser::TryTable, wasmparser::BrTable<'_>, wasmparser::ValType, wasmparser::RefType, Vec<wasmparser::ValType>, [u8; 16], wasmparser::Handle, wasmparser::ContType);

macro_rules! define_flat {
    ($( @$proposal:ident $op:ident $({ $($arg:ident: $argty:ty),* })? => $visit:ident ($($ann:tt)*))*) => {
        const OP_SIGS: &[(&str, &[&str])] = &[ $( (stringify!($op), &[ $($(stringify!($arg)),*)? ]) ),* ];
        #[allow(unused_variables)]
        fn flat_op(op: &Operator, direct: bool) -> (&'static str, Vec<i128>) {
            let mut v: Vec<i128> = vec![];
            let name = match op { $( Operator::$op $({ $($arg),* })? => { $($( $arg.flat(direct, &mut v); )*)? stringify!($op) } )* #[allow(unreachable_patterns)] _ => "?" };
            (name, v)
        }
    };
}
wasmparser::for_each_operator!(define_flat);
fn op_code(name: &str) -> i128 { OP_SIGS.iter().position(|s| s.0 == name).map(|p| p as i128).unwrap_or(-1) }
fn observe(op: &Operator, direct: bool) -> (i128, Vec<i128>) { let (n, v) = flat_op(op, direct); (op_code(n), v) }

// ---------------------------------------------------------------------------------------------
// base module of the end-to-end modes: 1 imported + 3 local functions (F = function 1: [nop, end]), 3 memories, 4 globals,
// 2 passive data segments, 1 element segment, 3 types
const N_FUNCS: u64 = 4; const N_GLOBALS: u64 = 4; const N_MEMS: u64 = 3;
fn base_module() -> Vec<u8> {
    use wasm_encoder as we;
    let mut m = we::Module::new();
    let mut types = we::TypeSection::new();
    types.ty().function(vec![], vec![]);
    types.ty().function(vec![we::ValType::I32], vec![we::ValType::I32]);
    types.ty().function(vec![we::ValType::I64, we::ValType::F32], vec![]);
    m.section(&types);
    let mut is = we::ImportSection::new();
    is.import("env", "f", we::EntityType::Function(0));
    m.section(&is);
    let mut funcs = we::FunctionSection::new();
    for _ in 0..3 { funcs.function(0); }
    m.section(&funcs);
    let mut tables = we::TableSection::new();
    tables.table(we::TableType { element_type: we::RefType::FUNCREF, minimum: 1, maximum: None, table64: false, shared: false });
    m.section(&tables);
    let mut mems = we::MemorySection::new();
    for _ in 0..N_MEMS { mems.memory(we::MemoryType { minimum: 1, maximum: None, memory64: false, shared: false, page_size_log2: None }); }
    m.section(&mems);
    let mut globals = we::GlobalSection::new();
    for k in 0..N_GLOBALS { globals.global(we::GlobalType { val_type: we::ValType::I32, mutable: true, shared: false }, &we::ConstExpr::i32_const(k as i32)); }
    m.section(&globals);
    let mut elems = we::ElementSection::new();
    elems.passive(we::Elements::Functions(std::borrow::Cow::Borrowed(&[1])));
    m.section(&elems);
    m.section(&we::DataCountSection { count: 2 });
    let mut code = we::CodeSection::new();
    for _ in 0..3 { let mut f = we::Function::new(vec![]); f.instruction(&we::Instruction::Nop); f.instruction(&we::Instruction::End); code.function(&f); }
    m.section(&code);
    let mut data = we::DataSection::new();
    data.passive(vec![1u8, 2]); data.passive(vec![3u8]);
    m.section(&data);
    m.finish()
}

/// operators of local function number `which` (position in the code section; usize::MAX = the last one) of an encoded module
fn decode_function(bytes: &[u8], which: usize) -> Option<Vec<(i128, Vec<i128>)>> {
    let mut parser = wasmparser::Parser::new(0);
    parser.set_features(wasmparser::WasmFeatures::all());
    let mut bodies = vec![];
    for p in parser.parse_all(bytes) {
        if let wasmparser::Payload::CodeSectionEntry(b) = p.ok()? { bodies.push(b); }
    }
    let b = if which == usize::MAX { bodies.last()? } else { bodies.get(which)? };
    let mut rd = b.get_operators_reader().ok()?;
    let mut out = vec![];
    while !rd.eof() { let op = rd.read().ok()?; out.push(observe(&op, false)); }
    Some(out)
}

// what has to surround the helper's operators so that the body's frames still close (the operators reader checks that)
fn wrapping(name: &str) -> (Vec<Operator<'static>>, Vec<Operator<'static>>) {
    let e = wasmparser::BlockType::Empty;
    match name {
        "if_stmt" | "block" | "loop_stmt" => (vec![], vec![Operator::End]),
        "else_stmt" => (vec![Operator::If { blockty: e }], vec![Operator::End]),
        "end" => (vec![Operator::Block { blockty: e }], vec![]),
        _ => (vec![], vec![]),
    }
}

fn run_case(hid: usize, mode: u64, args: &[Arg]) -> Option<Vec<(i128, Vec<i128>)>> {
    let name = HELPER_NAMES[hid];
    catch_unwind(AssertUnwindSafe(|| {
        if mode == 0 {
            let mut fb = FunctionBuilder::new(&[], &[]);
            call_helper(&mut fb, hid, args);
            let n = fb.body.num_instructions;
            return Some((0..n).map(|i| observe(fb.body.get_op(i), true)).collect::<Vec<_>>());
        }
        let bytes = base_module();
        let (pre, post) = wrapping(name);
        if mode == 4 {
            let mut c = wasm_encoder::Component::new();
            c.section(&wasm_encoder::RawSection { id: 1, data: &bytes });     // core module section
            let cbytes = c.finish();
            let mut comp = Component::parse(&cbytes, true).expect("parse component");
            {
                let mut it = ComponentIterator::new(&mut comp, std::collections::HashMap::new());
                it.before();                                                    // module 0, first local function, instruction 0
                for o in &pre { it.inject(o.clone()); }
                call_helper(&mut it, hid, args);
                for o in &post { it.inject(o.clone()); }
            }
            let out = comp.encode();
            let ops = decode_function(&out, 0)?;
            let cut = post.len() + 2;
            if ops.len() < pre.len() + cut { return None; }
            return Some(ops[pre.len()..ops.len() - cut].to_vec());
        }
        let mut module = Module::parse(&bytes, false).expect("parse");
        let (which, tail) = match mode {
            1 => {
                let mut fb = FunctionBuilder::new(&[], &[]);
                for o in &pre { fb.inject(o.clone()); }
                call_helper(&mut fb, hid, args);
                for o in &post { fb.inject(o.clone()); }
                fb.finish_module(&mut module);
                (usize::MAX, 1)            // finish_module appends the final end
            }
            2 => {
                let mut it = ModuleIterator::new(&mut module, &vec![]);
                it.before_at(Location::Module { func_idx: FunctionID(1), instr_idx: 0 });
                for o in &pre { it.inject(o.clone()); }
                call_helper(&mut it, hid, args);
                for o in &post { it.inject(o.clone()); }
                (0, 2)                     // the original [nop, end]
            }
            _ => {
                let mut fm = module.functions.get_fn_modifier(FunctionID(1)).expect("modifier");
                fm.before_at(Location::Module { func_idx: FunctionID(1), instr_idx: 0 });
                for o in &pre { fm.inject(o.clone()); }
                call_helper(&mut fm, hid, args);
                for o in &post { fm.inject(o.clone()); }
                (0, 2)
            }
        };
        let out = module.encode();
        let ops = decode_function(&out, which)?;
        let cut = post.len() + tail;
        if ops.len() < pre.len() + cut { return None; }
        Some(ops[pre.len()..ops.len() - cut].to_vec())
    })).ok().flatten()
}

// ---------------------------------------------------------------------------------------------
// sampling
fn f32_patterns() -> Vec<u32> {
    vec![0, 0x8000_0000, 0x3f80_0000, 0xbf80_0000, 0x7f80_0000, 0xff80_0000, 0x7fc0_0000, 0xffc0_0000, 0x7f80_0001, 0xff80_0001, 0x7fa0_0000,
         0x7fbf_ffff, 0x7fff_ffff, 0xffff_ffff, 0x7fc0_0001, 0x0000_0001, 0x007f_ffff, 0x0080_0000, 0x7f7f_ffff, 0x8000_0001]
}
fn f64_patterns() -> Vec<u64> {
    vec![0, 0x8000_0000_0000_0000, 0x3ff0_0000_0000_0000, 0xbff0_0000_0000_0000, 0x7ff0_0000_0000_0000, 0xfff0_0000_0000_0000, 0x7ff8_0000_0000_0000,
         0xfff8_0000_0000_0000, 0x7ff0_0000_0000_0001, 0xfff0_0000_0000_0001, 0x7ff4_0000_0000_0000, 0x7ff7_ffff_ffff_ffff, 0x7fff_ffff_ffff_ffff,
         0xffff_ffff_ffff_ffff, 0x7ff8_0000_0000_0001, 1, 0x000f_ffff_ffff_ffff, 0x0010_0000_0000_0000, 0x7fef_ffff_ffff_ffff, 0x7ff0_0000_8000_0000]
}
fn gen_u32(r: &mut Rng) -> u32 {
    const E: [u32; 10] = [0, 1, 2, 0x7f, 0x80, 0x7fff_ffff, 0x8000_0000, 0x8000_0001, 0xffff_fffe, 0xffff_ffff];
    match r.below(4) { 0 | 1 => *r.pick(&E), 2 => r.next() as u32, _ => (r.next() as u32) >> r.below(32) }
}
fn gen_u64(r: &mut Rng) -> u64 {
    const E: [u64; 14] = [0, 1, 0x7fff_ffff, 0x8000_0000, 0xffff_ffff, 0x1_0000_0000, 0x1_0000_0001, 0x7fff_ffff_ffff_ffff, 0x8000_0000_0000_0000,
                          0x8000_0000_0000_0001, 0xffff_ffff_0000_0000, 0xffff_ffff_7fff_ffff, 0xffff_ffff_ffff_fffe, 0xffff_ffff_ffff_ffff];
    match r.below(4) { 0 | 1 => *r.pick(&E), 2 => r.next(), _ => r.next() >> r.below(64) }
}
fn gen_f32(r: &mut Rng) -> u32 {
    match r.below(6) {
        0 | 1 => *r.pick(&f32_patterns()),
        2 => 0x7f80_0000 | ((r.next() as u32) & 0x807f_ffff) | (1 << r.below(23)),   // a NaN (either sign, quiet or signalling) with a random payload
        3 => 0x7f80_0000 | ((r.next() as u32) & 0x803f_ffff) | (1 << r.below(22)),   // a signalling NaN with a random payload
        _ => r.next() as u32,
    }
}
fn gen_f64(r: &mut Rng) -> u64 {
    match r.below(6) {
        0 | 1 => *r.pick(&f64_patterns()),
        2 => 0x7ff0_0000_0000_0000 | (r.next() & 0x800f_ffff_ffff_ffff) | (1 << r.below(52)),
        3 => 0x7ff0_0000_0000_0000 | (r.next() & 0x8007_ffff_ffff_ffff) | (1 << r.below(51)),
        _ => r.next(),
    }
}
fn gen_arg(r: &mut Rng, kind: &str, e2e: bool) -> Arg {
    match kind {
        "fid" | "fun32" => Arg::Z(if e2e { r.below(N_FUNCS) as i128 } else { gen_u32(r) as i128 }),
        "gid" => Arg::Z(if e2e { r.below(N_GLOBALS) as i128 } else { gen_u32(r) as i128 }),
        "mem" => Arg::Z(if e2e { r.below(N_MEMS) as i128 } else { gen_u32(r) as i128 }),
        "lid" | "tid" | "fld" | "did" | "eid" | "u32" => Arg::Z(gen_u32(r) as i128),
        "u64" => Arg::Z(gen_u64(r) as i128),
        "i32" => Arg::Z(gen_u32(r) as i32 as i128),
        "i64" => Arg::Z(gen_u64(r) as i64 as i128),
        "f32" => Arg::Z(gen_f32(r) as i128),
        "f64" => Arg::Z(gen_f64(r) as i128),
        "memarg" => Arg::Mem(MemArg {
            // the binary format keeps the alignment exponent in the low 6 bits of a flags word (bit 6 = "a memory index follows"),
            // so the end-to-end modes use the 64 representable exponents; the direct mode takes any u8
            align: if e2e { r.below(64) as u8 } else { *r.pick(&[0u8, 1, 2, 3, 4, 15, 16, 63, 64, 127, 128, 255]) },
            max_align: *r.pick(&[0u8, 1, 2, 3, 4, 7, 8, 255]),
            offset: gen_u64(r),
            memory: if e2e { r.below(N_MEMS) as u32 } else { gen_u32(r) },
        }),
        "bt" => match r.below(4) {
            0 => Arg::Bt(BlockType::Empty, -1),
            1 => { let i = gen_u32(r); Arg::Bt(BlockType::FuncType(TypeID(i)), i as i128) }
            _ => { let (d, code) = r.pick(&datatypes()).clone(); Arg::Bt(BlockType::Type(d), -(2 + code)) }
        },
        "ht" => match r.below(4) {
            0 => { let i = if e2e { gen_u32(r) >> 12 } else { gen_u32(r) }; Arg::Ht(HeapType::Concrete(wasmparser::UnpackedIndex::Module(i)), i as i128) }
            1 if !e2e => { let i = gen_u32(r); Arg::Ht(HeapType::Concrete(wasmparser::UnpackedIndex::RecGroup(i)), (1i128 << 32) + i as i128) }
            _ => { let k = r.below(14) as usize; let shared = r.chance(1, 3); Arg::Ht(HeapType::Abstract { shared, ty: ABS[k].0.clone() }, -(1 + 2 * k as i128 + shared as i128)) }
        },
        k => panic!("unknown parameter kind {k}"),
    }
}

fn coq_str_list(v: &[&str]) -> String { format!("[{}]", v.iter().map(|s| format!("\"{s}\"")).collect::<Vec<_>>().join("; ")) }

fn main() {
    let args = parse_args();
    let mut header = String::from("From Coq Require Import List NArith ZArith String.\nImport ListNotations.\nFrom Orca Require Import HelperLang CheckHelpers.\nOpen Scope string_scope.\nOpen Scope N_scope.\n");
    header.push_str(&format!("Definition harness_helpers : list string := {}.\n", coq_str_list(HELPER_NAMES)));
    header.push_str(&format!("Definition harness_ops : list (string * list string) := [{}].",
        OP_SIGS.iter().map(|(n, fs)| format!("(\"{n}\", {})", coq_str_list(fs))).collect::<Vec<_>>().join("; ")));
    let footer = format!("Eval vm_compute in (report_{} harness_helpers harness_ops cases).", args.prop);
    // every helper is swept through every mode first; afterwards the cases go to the helpers with immediates, with
    // extra weight on the constant helpers (float bit patterns, two's-complement reinterpretation)
    let with_imm: Vec<usize> = (0..HELPER_NAMES.len()).filter(|h| !HELPER_KINDS[*h].is_empty()).collect();
    let by_name = |names: &[&str]| -> Vec<usize> { names.iter().filter_map(|n| HELPER_NAMES.iter().position(|h| h == n)).collect() };
    let floats = by_name(&["f32_const", "f64_const"]);
    let ints = by_name(&["i32_const", "i64_const", "u32_const", "u64_const"]);
    let nh = HELPER_NAMES.len() as u64;
    run_shards(&args, &header, "hcase", &footer, |seed, idx| {
        let mut r = Rng::for_case(seed, idx);
        // the first 5 * nh indices sweep every helper through every mode; afterwards random helpers with immediates
        let (hid, mode) = if idx < 5 * nh { ((idx % nh) as usize, idx / nh) } else {
            let pool = match r.below(10) { 0 | 1 | 2 if !floats.is_empty() => &floats, 3 | 4 if !ints.is_empty() => &ints, _ => &with_imm };
            (*r.pick(pool), r.below(5))
        };
        let kinds = HELPER_KINDS[hid];
        let a: Vec<Arg> = kinds.iter().map(|k| gen_arg(&mut r, k, mode != 0)).collect();
        let obs = run_case(hid, mode, &a);
        let obs_s = coq_opt(&obs, |ops| coq_list(ops, |(c, imms)| format!("({}, {})", c, coq_list(imms, |z| coq_z(*z)))));
        let coq = format!("mkH {} {} {} {}", hid, mode, coq_list(&a, |x| format!("({})", x.coq())), obs_s);
        let desc = format!("{}({}) via {} => {}", HELPER_NAMES[hid], a.iter().map(|x| x.show()).collect::<Vec<_>>().join(", "),
            ["Operator value in FunctionBuilder body", "FunctionBuilder+finish_module+encode", "ModuleIterator+encode", "FunctionModifier+encode", "ComponentIterator+Component::encode"][mode as usize],
            match &obs { None => "PANIC/UNDECODABLE".to_string(), Some(ops) => ops.iter().map(|(c, v)| format!("{}{:?}", OP_SIGS.get(*c as usize).map(|s| s.0).unwrap_or("?"), v)).collect::<Vec<_>>().join(" ") });
        let mut tags = vec![format!("mode={mode}"), format!("arity={}", kinds.len()), format!("obs={}", if obs.is_some() { "observed" } else { "none" })];
        for k in kinds { tags.push(format!("kind={k}")); }
        for x in &a {
            if let Arg::Z(z) = x { if *z as u64 == 0x8000_0000 || *z as u64 == 0xffff_ffff || *z as u64 == u64::MAX || *z as u64 == 1u64 << 63 { tags.push("edge_value".into()); } }
        }
        if kinds.iter().any(|k| *k == "f32") { let b = a[0].u32(); if b & 0x7f80_0000 == 0x7f80_0000 && b & 0x007f_ffff != 0 { tags.push(if b & 0x0040_0000 == 0 { "f32_signalling_nan".into() } else { "f32_quiet_nan".into() }); } }
        if kinds.iter().any(|k| *k == "f64") { let b = a[0].u64(); if b & 0x7ff0_0000_0000_0000 == 0x7ff0_0000_0000_0000 && b & 0x000f_ffff_ffff_ffff != 0 { tags.push(if b & 0x0008_0000_0000_0000 == 0 { "f64_signalling_nan".into() } else { "f64_quiet_nan".into() }); } }
        Case { seed, idx, coq, desc, nontrivial: !kinds.is_empty(), tags }
    });
}
