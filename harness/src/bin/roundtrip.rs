// Correspondence harness of the round-trip half of the parse engine: C02 (an unmodified round trip preserves the
// module content) and C01 (an unmodified parse-then-encode yields a valid module).  One run serves both
// (`--prop C02` / `--prop C01` only selects the report evaluated by Coq).
//
// Input  : a *valid* core module over the feature profiles of the quantifier of C01 -- MVP, multi-value, reference
//          types, bulk memory, SIMD, tail calls, GC types, exceptions (try_table / exnref), threads, memory64,
//          multi-memory (parsed with the flag) -- and never extended-const.  A profile set is drawn, a module is
//          generated as WebAssembly text (`gen_wat`: entities and function bodies from per-feature snippet
//          libraries plus a small typed expression generator, all identifiers named so that the assembler emits a
//          full name section) and assembled with wat 1.259; with small probability the binary is then decorated
//          (extra custom sections, producers sections, the name section moved before the code / import section).
//          Every input must pass wasmparser's Validator with *exactly* the features of its profile set, otherwise
//          it is redrawn.  Indices >= 2^40 are the hand-written seeds corpus/roundtrip/*.wat (first line
//          `;; features: a,b`).
// Driven : wirm::Module::parse(&bytes, multi_memory_flag) and Module::encode(), each under catch_unwind.
// Emitted: the payload abstraction of the input (parseabs.rs, as for C03) and the parse / encode observations;
//          validity of input and output (same feature set); per item kind the hashes of the wasmprinter text of every
//          item (custom sections stripped first so that names do not leak into the text) for input and output; the
//          decoded name maps of all twelve kinds as (kind, index, sub-index, name hash); the ordered list of
//          non-name custom sections (name hash, data hash); the value types that go through wirm's DataType (type
//          section, locals) together with what the *real* conversions DataType::from / wasm_encoder::ValType::from
//          make of them (this validates the generated tables of Gen/GenDataTypeConv.v on every run).
use std::fmt::Write as _;
use std::panic::{catch_unwind, AssertUnwindSafe};
use vharness::*;
use wasmparser as wp;
#[path = "../parseabs.rs"]
mod parseabs;
use parseabs::*;

// ------------------------------------------------------------------------------------------------
// profiles

#[derive(Clone, Copy, Debug, Default, PartialEq)]
struct Prof { mv: bool, rt: bool, bulk: bool, simd: bool, tail: bool, gc: bool, eh: bool, thr: bool, m64: bool, mm: bool }

impl Prof {
    fn features(&self) -> wp::WasmFeatures {
        use wp::WasmFeatures as F;
        let mut f = F::WASM1;
        if self.mv { f |= F::MULTI_VALUE; }
        if self.rt { f |= F::REFERENCE_TYPES | F::BULK_MEMORY; }
        if self.bulk { f |= F::BULK_MEMORY; }
        if self.simd { f |= F::SIMD; }
        if self.tail { f |= F::TAIL_CALL; }
        if self.gc { f |= F::GC | F::FUNCTION_REFERENCES | F::REFERENCE_TYPES | F::BULK_MEMORY; }
        if self.eh { f |= F::EXCEPTIONS | F::REFERENCE_TYPES | F::BULK_MEMORY; }
        if self.thr { f |= F::THREADS; }
        if self.m64 { f |= F::MEMORY64; }
        if self.mm { f |= F::MULTI_MEMORY; }
        f
    }
    fn refs(&self) -> bool { self.rt || self.gc || self.eh }
    fn show(&self) -> String {
        let mut v = vec!["mvp"];
        if self.mv { v.push("multivalue"); }
        if self.rt { v.push("reftypes"); }
        if self.bulk { v.push("bulk"); }
        if self.simd { v.push("simd"); }
        if self.tail { v.push("tailcall"); }
        if self.gc { v.push("gc"); }
        if self.eh { v.push("exceptions"); }
        if self.thr { v.push("threads"); }
        if self.m64 { v.push("memory64"); }
        if self.mm { v.push("multimemory"); }
        v.join("+")
    }
    fn parse(s: &str) -> Prof {
        let mut p = Prof::default();
        for w in s.split(',') {
            match w.trim() {
                "multivalue" => p.mv = true, "reftypes" => p.rt = true, "bulk" => p.bulk = true, "simd" => p.simd = true, "tailcall" => p.tail = true,
                "gc" => p.gc = true, "exceptions" => p.eh = true, "threads" => p.thr = true, "memory64" => p.m64 = true, "multimemory" => p.mm = true,
                _ => {}
            }
        }
        p
    }
}

fn gen_prof(r: &mut Rng) -> Prof {
    let mut p = Prof::default();
    match r.below(10) {
        0 => {}                                   // plain MVP
        1 | 2 | 3 => {                            // exactly one proposal
            match r.below(10) { 0 => p.mv = true, 1 => p.rt = true, 2 => p.bulk = true, 3 => p.simd = true, 4 => p.tail = true, 5 => p.gc = true, 6 => p.eh = true, 7 => p.thr = true, 8 => p.m64 = true, _ => p.mm = true }
        }
        _ => {                                    // a random mix
            p.mv = r.chance(1, 2); p.rt = r.chance(1, 2); p.bulk = r.chance(1, 2); p.simd = r.chance(1, 3); p.tail = r.chance(1, 3);
            p.gc = r.chance(1, 3); p.eh = r.chance(1, 3); p.thr = r.chance(1, 4); p.m64 = r.chance(1, 5); p.mm = r.chance(1, 4);
        }
    }
    p
}

// ------------------------------------------------------------------------------------------------
// generator of WebAssembly text

struct G<'a> {
    r: &'a mut Rng,
    p: Prof,
    has_mem: bool,
    mem64: bool,         // memory $mem is 64-bit
    has_mem2: bool,
    has_tab: bool,
    has_imp_glob: bool,
    exn_types: bool,     // use exnref in function types / locals (D10)
    nfun_nullary: u32,   // number of `$n<k>` functions of type $t0 (callable from anywhere)
    uniq: u32,
}

impl<'a> G<'a> {
    fn k(&mut self, n: u64) -> u64 { self.r.below(n) }
    fn addr(&mut self) -> String { let a = self.k(64) * 8; if self.mem64 { format!("(i64.const {})", a) } else { format!("(i32.const {})", a) } }
    fn i32c(&mut self) -> String { let v = self.r.next() as i32; format!("(i32.const {})", if self.r.chance(1, 2) { v % 100 } else { v }) }
    fn fresh(&mut self, p: &str) -> String { self.uniq += 1; format!("${}{}", p, self.uniq) }

    /// typed expressions over the parameters `$p0 : i32`, `$p1 : i64` and the locals `$l0 : i32`, `$l1 : f64`
    fn e_i32(&mut self, d: u32) -> String {
        if d == 0 { return match self.k(4) { 0 => "(local.get $p0)".into(), 1 => "(local.get $l0)".into(), 2 => "(global.get $g0)".into(), _ => self.i32c() }; }
        match self.k(13) {
            0 => format!("(i32.add {} {})", self.e_i32(d - 1), self.e_i32(d - 1)),
            1 => format!("(i32.{} {} {})", ["sub", "mul", "and", "xor", "shl", "shr_u", "rotl", "lt_s", "ge_u", "ne"][self.k(10) as usize], self.e_i32(d - 1), self.e_i32(d - 1)),
            2 => format!("(i32.eqz {})", self.e_i32(d - 1)),
            3 => format!("(i32.wrap_i64 {})", self.e_i64(d - 1)),
            4 => format!("(i64.{} {} {})", ["eq", "lt_u", "gt_s"][self.k(3) as usize], self.e_i64(d - 1), self.e_i64(d - 1)),
            5 => format!("(f64.{} {} {})", ["lt", "ge", "eq"][self.k(3) as usize], self.e_f64(d - 1), self.e_f64(d - 1)),
            6 if self.has_mem => { let a = self.addr(); let o = self.k(3) * 4; format!("(i32.{} offset={} {})", ["load", "load8_u", "load16_s"][self.k(3) as usize], o, a) }
            7 => format!("(select {} {} {})", self.e_i32(d - 1), self.e_i32(d - 1), self.e_i32(d - 1)),
            8 => format!("(if (result i32) {} (then {}) (else {}))", self.e_i32(d - 1), self.e_i32(d - 1), self.e_i32(d - 1)),
            9 => { let l = self.fresh("b"); format!("(block {} (result i32) (br_if {} {} {}) (drop) {})", l, l, self.e_i32(d - 1), self.e_i32(d - 1), self.e_i32(d - 1)) }
            10 => format!("(i32.trunc_f64_s {})", "(f64.const 3.5)"),
            11 => format!("(local.tee $l0 {})", self.e_i32(d - 1)),
            _ => format!("(i32.{} {})", ["clz", "ctz", "popcnt"][self.k(3) as usize], self.e_i32(d - 1)),
        }
    }
    fn e_i64(&mut self, d: u32) -> String {
        if d == 0 { return match self.k(3) { 0 => "(local.get $p1)".into(), 1 => format!("(i64.const {})", self.r.next() as i64), _ => format!("(i64.const {})", self.k(100) as i64 - 50) }; }
        match self.k(5) {
            0 => format!("(i64.{} {} {})", ["add", "sub", "mul", "or", "shr_s"][self.k(5) as usize], self.e_i64(d - 1), self.e_i64(d - 1)),
            1 => format!("(i64.extend_i32_{} {})", ["s", "u"][self.k(2) as usize], self.e_i32(d - 1)),
            2 if self.has_mem => { let a = self.addr(); format!("(i64.load32_u {})", a) }
            3 => format!("(i64.reinterpret_f64 {})", self.e_f64(d - 1)),
            _ => format!("(i64.{} {})", ["clz", "popcnt"][self.k(2) as usize], self.e_i64(d - 1)),
        }
    }
    fn e_f64(&mut self, d: u32) -> String {
        if d == 0 {
            return match self.k(5) { 0 => "(local.get $l1)".into(), 1 => "(f64.const nan:0x4000000000001)".into(), 2 => "(f64.const -0x0p+0)".into(), 3 => "(f64.const inf)".into(), _ => format!("(f64.const {}.{})", self.k(1000), self.k(100)) };
        }
        match self.k(5) {
            0 => format!("(f64.{} {} {})", ["add", "sub", "mul", "div", "min", "copysign"][self.k(6) as usize], self.e_f64(d - 1), self.e_f64(d - 1)),
            1 => format!("(f64.{} {})", ["sqrt", "neg", "abs", "floor", "nearest"][self.k(5) as usize], self.e_f64(d - 1)),
            2 => format!("(f64.convert_i32_{} {})", ["s", "u"][self.k(2) as usize], self.e_i32(d - 1)),
            3 => format!("(f64.promote_f32 (f32.demote_f64 {}))", self.e_f64(d - 1)),
            _ => format!("(f64.reinterpret_i64 {})", self.e_i64(d - 1)),
        }
    }

    /// a stack-neutral statement in a function with $p0 $p1 $l0 $l1
    fn stmt(&mut self, d: u32) -> String {
        let p = self.p;
        for _ in 0..8 {
            let s = match self.k(34) {
                0 => format!("(drop {})", self.e_i32(2)),
                1 => format!("(local.set $l0 {})", self.e_i32(2)),
                2 => format!("(local.set $l1 {})", self.e_f64(2)),
                3 => format!("(global.set $g0 {})", self.e_i32(1)),
                4 if self.has_mem => { let a = self.addr(); format!("(i32.store offset={} {} {})", self.k(4) * 4, a, self.e_i32(1)) }
                5 if self.has_mem => { let a = self.addr(); format!("(i64.store16 {} {})", a, self.e_i64(1)) }
                6 if d > 0 => { let l = self.fresh("L"); format!("(block {} {} (br_if {} {}) {})", l, self.stmt(d - 1), l, self.e_i32(1), self.stmt(d - 1)) }
                7 if d > 0 => { let l = self.fresh("L"); format!("(loop {} {} (br_if {} (i32.const 0)))", l, self.stmt(d - 1), l) }
                8 if d > 0 => format!("(if {} (then {}) (else {}))", self.e_i32(1), self.stmt(d - 1), self.stmt(d - 1)),
                9 if d > 0 => { let (a, b2) = (self.fresh("L"), self.fresh("L")); format!("(block {} (block {} (br_table {} {} {} {})))", a, b2, b2, a, b2, self.e_i32(1)) }
                10 if self.nfun_nullary > 0 => format!("(call $n{})", self.k(self.nfun_nullary as u64)),
                11 => "(nop)".into(),
                12 if self.has_mem => { if self.mem64 { "(drop (memory.grow (i64.const 0)))".into() } else { "(drop (memory.size))".into() } }
                13 if self.has_tab && self.nfun_nullary > 0 => format!("(call_indirect $tab (type $t0) (i32.const {}))", self.k(2)),
                // ---- proposals
                14 if p.simd && self.has_mem => {
                    let a = self.addr();
                    match self.k(6) {
                        0 => format!("(v128.store {} (i8x16.add (v128.const i32x4 1 2 3 {}) (v128.load offset=16 {})))", a, self.k(99), a),
                        1 => format!("(drop (i32x4.extract_lane {} (v128.load32_splat {})))", self.k(4), a),
                        2 => format!("(v128.store64_lane 1 {} (f64x2.splat {}))", a, self.e_f64(1)),
                        3 => format!("(drop (i8x16.bitmask (v128.load8_lane 5 {} (v128.const i64x2 -1 {}))))", a, self.k(1000)),
                        4 => format!("(drop (v128.any_true (i8x16.shuffle 0 1 2 3 4 5 6 7 8 9 10 11 12 13 14 {} (v128.const f32x4 nan:0x200001 -0x0p+0 inf 1.5) (v128.load {}))))", 15 + self.k(17), a),
                        _ => format!("(drop (i16x8.all_true (i32x4.trunc_sat_f32x4_u (f32x4.sqrt (v128.load64_zero {})))))", a),
                    }
                }
                15 if p.simd => format!("(drop (f32x4.extract_lane 1 (v128.bitselect (v128.const i16x8 1 2 3 4 5 6 7 8) (i64x2.splat {}) (v128.not (v128.const i8x16 0 1 2 3 4 5 6 7 8 9 10 11 12 13 14 15)))))", self.e_i64(1)),
                16 if (p.bulk || p.rt || p.gc || p.eh) && self.has_mem => {
                    let (a, b2) = (self.addr(), self.addr());
                    let n = if self.mem64 { "(i64.const 4)" } else { "(i32.const 4)" };
                    match self.k(3) {
                        0 => format!("(memory.copy {} {} {})", a, b2, n),
                        1 => format!("(memory.fill {} (i32.const 7) {})", a, n),
                        _ => format!("(memory.init $dp {} (i32.const 0) (i32.const 2))", a),
                    }
                }
                17 if p.refs() && self.has_tab => match self.k(6) {
                    0 => "(table.set $tab (i32.const 0) (ref.null func))".into(),
                    1 => "(drop (ref.is_null (table.get $tab (i32.const 1))))".into(),
                    2 => "(drop (table.grow $tab (ref.null func) (i32.const 1)))".into(),
                    3 => "(drop (table.size $tab))".into(),
                    4 => "(table.fill $tab (i32.const 0) (ref.null func) (i32.const 1))".into(),
                    _ => "(table.copy $tab $tab (i32.const 0) (i32.const 1) (i32.const 1))".into(),
                },
                18 if p.refs() => match self.k(3) {
                    0 => "(drop (select (result funcref) (ref.null func) (ref.func $decl) (i32.const 1)))".into(),
                    1 => "(drop (ref.is_null (ref.null extern)))".into(),
                    _ => "(drop (ref.func $decl))".into(),
                },
                19 if p.gc => match self.k(8) {
                    0 => format!("(drop (struct.get $node $val (struct.new $node {} (ref.null $node))))", self.e_i32(1)),
                    1 => "(drop (array.len (array.new_default $bytes (i32.const 3))))".into(),
                    2 => format!("(drop (array.get_u $bytes (array.new_fixed $bytes 2 (i32.const 1) (i32.const 2)) (i32.const {})))", self.k(2)),
                    3 => "(drop (ref.test (ref $leaf) (struct.new_default $node)))".into(),
                    4 => format!("(drop (i31.get_{} (ref.i31 {})))", ["s", "u"][self.k(2) as usize], self.e_i32(1)),
                    5 => "(drop (ref.cast (ref null $node) (global.get $gnode)))".into(),
                    6 => "(call_ref $t0 (ref.func $decl))".into(),
                    _ => { let l = self.fresh("L"); format!("(block {} (br_on_null {} (global.get $gnode)) (drop))", l, l) }
                },
                20 if p.eh => match self.k(if p.mv { 4 } else { 3 }) {
                    0 => { let l = self.fresh("H"); format!("(drop (block {} (result i32) (try_table (catch $ex {}) (throw $ex {})) (i32.const 0)))", l, l, self.e_i32(1)) }
                    1 => { let l = self.fresh("H"); format!("(block {} (try_table (catch_all {}) {}))", l, l, self.stmt(0)) }
                    2 => { let l = self.fresh("H"); format!("(drop (block {} (result exnref) (try_table (catch_all_ref {}) {}) (ref.null exn)))", l, l, self.stmt(0)) }
                    _ => { let l = self.fresh("H"); format!("(block {} (result i32 exnref) (try_table (catch_ref $ex {}) (nop)) (i32.const 1) (ref.null exn)) (drop) (drop)", l, l) }
                },
                21 if p.thr && self.has_mem => {
                    let a = self.addr();
                    match self.k(6) {
                        0 => format!("(i32.atomic.store {} {})", a, self.e_i32(1)),
                        1 => format!("(drop (i64.atomic.load offset=8 {}))", a),
                        2 => format!("(drop (i32.atomic.rmw.add {} (i32.const 1)))", a),
                        3 => format!("(drop (i64.atomic.rmw16.cmpxchg_u {} (i64.const 0) (i64.const 1)))", a),
                        4 => "(atomic.fence)".into(),
                        _ => format!("(drop (memory.atomic.notify {} (i32.const 1)))", a),
                    }
                }
                22 if p.mm && self.has_mem2 => match self.k(if p.bulk || p.rt || p.gc || p.eh { 6 } else { 4 }) {
                    // copies BETWEEN the two memories ($mem may be 64-bit, $mem2 never is: the operand types then differ per memory)
                    4 => format!("(memory.copy $mem2 $mem (i32.const 0) {} (i32.const 4))", self.addr()),
                    5 => format!("(memory.copy $mem $mem2 {} (i32.const 0) (i32.const 4))", self.addr()),
                    0 => format!("(i32.store $mem2 (i32.const 0) {})", self.e_i32(1)),
                    1 => "(drop (memory.size $mem2))".into(),
                    2 => "(drop (memory.grow $mem2 (i32.const 0)))".into(),
                    _ => "(drop (i64.load8_u $mem2 offset=3 (i32.const 1)))".into(),
                },
                23 if p.mv => match self.k(3) {
                    0 => format!("(call $swap {} {}) (drop) (drop)", self.e_i32(1), self.e_i64(1)),
                    1 => format!("(block (result i32 i64) {} {}) (drop) (drop)", self.e_i32(1), self.e_i64(1)),
                    _ => format!("{} (if (param i32) (result i32 i32) (i32.const 1) (then (i32.const 2)) (else (i32.const 3))) (drop) (drop)", self.e_i32(1)),
                },
                24 if self.has_imp_glob => "(drop (global.get $ig))".into(),
                _ => continue,
            };
            return s;
        }
        "(nop)".into()
    }
}

fn gen_wat(r: &mut Rng, p: Prof) -> String {
    let has_mem = r.chance(4, 5) || p.simd || p.thr || p.m64 || p.mm;
    let mut g = G { r, p, has_mem, mem64: p.m64 && has_mem, has_mem2: false, has_tab: false, has_imp_glob: false, exn_types: false, nfun_nullary: 0, uniq: 0 };
    g.has_mem2 = p.mm && g.has_mem;
    g.has_tab = g.r.chance(2, 3) || p.tail;
    g.has_imp_glob = g.r.chance(1, 2);
    g.exn_types = p.eh && g.r.chance(1, 6);
    let mut f: Vec<String> = vec![];
    // types
    f.push("(type $t0 (func))".into());
    f.push("(type $body (func (param i32 i64) (result i32)))".into());
    if p.mv { f.push("(type $swap_t (func (param i32 i64) (result i64 i32)))".into()); }
    if p.gc {
        f.push("(rec (type $node (sub (struct (field $val (mut i32)) (field $next (ref null $node))))) (type $bytes (array (mut i8))))".into());
        f.push("(type $leaf (sub final $node (struct (field $val (mut i32)) (field $next (ref null $node)) (field $tagf i16))))".into());
        if g.r.chance(1, 2) { f.push("(type $vec (array (ref null $node)))".into()); }
        if g.r.chance(1, 2) { f.push("(type $gcf (func (param (ref null $node) anyref eqref i31ref structref arrayref nullref nullfuncref nullexternref (ref $bytes)) (result (ref null $leaf))))".into()); }
    }
    if p.gc && g.r.chance(1, 2) {
        // every non-nullable abstract reference type (all DataType variants without the Null suffix)
        f.push(format!("(type $gcf2 (func (param (ref func) (ref extern) (ref any) (ref eq) (ref i31) (ref struct) (ref array) (ref none) (ref nofunc) (ref noextern){}) (result (ref $node) (ref null $t0))))",
            if p.eh { " (ref exn) (ref noexn)" } else { "" }));
        if !p.mv { let l = f.len() - 1; f[l] = f[l].replace(" (result (ref $node) (ref null $t0))", " (result (ref $node))"); }
    }
    if p.refs() && g.r.chance(1, 2) { f.push("(type $rf (func (param externref funcref) (result funcref)))".into()); }
    if p.simd && g.r.chance(1, 2) { f.push("(type $vf (func (param v128 f32) (result v128)))".into()); }
    if g.exn_types { f.push("(type $exf (func (param exnref) (result exnref)))".into()); }
    for i in 0..g.k(3) {
        let pool = ["i32", "i64", "f32", "f64"];
        let ps: Vec<&str> = (0..g.k(4)).map(|_| *g.r.pick(&pool)).collect();
        let rs: Vec<&str> = (0..g.k(if p.mv { 3 } else { 2 })).map(|_| *g.r.pick(&pool)).collect();
        f.push(format!("(type $x{} (func{}{}))", i, if ps.is_empty() { String::new() } else { format!(" (param {})", ps.join(" ")) }, if rs.is_empty() { String::new() } else { format!(" (result {})", rs.join(" ")) }));
    }
    // imports
    let n_imp_f = g.k(3) as u32;
    for i in 0..n_imp_f { f.push(format!("(import \"env\" \"f{}\" (func $n{} (type $t0)))", i, i)); }
    g.nfun_nullary = n_imp_f;
    if g.has_imp_glob { f.push("(import \"env\" \"ig\" (global $ig i32))".into()); }
    let imp_tab = g.has_tab && g.r.chance(1, 3);
    if imp_tab { f.push("(import \"env\" \"tab\" (table $tab 4 funcref))".into()); }
    let imp_mem = g.has_mem && g.r.chance(1, 4);
    let memty = |g: &mut G, shared_ok: bool| -> String {
        let shared = shared_ok && g.p.thr && g.r.chance(1, 2);
        let max = shared || g.r.chance(1, 2);
        format!("{}{}{}{}", if g.mem64 { "i64 " } else { "" }, 1 + g.k(2), if max { " 8" } else { "" }, if shared { " shared" } else { "" })
    };
    if imp_mem { let t = memty(&mut g, true); f.push(format!("(import \"env\" \"mem\" (memory $mem {}))", t)); }
    if p.eh && g.r.chance(1, 2) { f.push("(import \"env\" \"itag\" (tag $itag (type $t0)))".into()); }
    // memories, tables, tags, globals
    if g.has_mem && !imp_mem { let t = memty(&mut g, true); f.push(format!("(memory $mem {})", t)); }
    if g.has_mem2 { f.push(format!("(memory $mem2 {}{})", 1 + g.k(2), if g.r.chance(1, 2) { " 4" } else { "" })); }
    if g.has_tab && !imp_tab {
        if p.gc && g.r.chance(1, 3) { f.push("(table $tab 4 8 funcref (ref.null func))".into()); } else { f.push(format!("(table $tab 4{} funcref)", if g.r.chance(1, 2) { " 8" } else { "" })); }
    }
    if p.refs() && g.r.chance(1, 2) { f.push("(table $xtab 2 externref)".into()); }
    if p.eh { f.push("(tag $ex (param i32))".into()); if g.r.chance(1, 2) { f.push("(tag $ex2 (param i32 i64))".into()); } }
    f.push(format!("(global $g0 (mut i32) {})", g.i32c()));
    for i in 0..g.k(4) {
        let s = match g.k(12) {
            0 => format!("(global $c{} i64 (i64.const {}))", i, g.r.next() as i64),
            1 => format!("(global $c{} (mut f32) (f32.const nan:0x{:x}))", i, 1 + g.k(0x7f_fffe)),
            2 => format!("(global $c{} f64 (f64.const -0x1.{:x}p+{}))", i, g.k(0xffff), g.k(100)),
            3 if g.has_imp_glob => format!("(global $c{} i32 (global.get $ig))", i),
            4 if p.simd => format!("(global $c{} (mut v128) (v128.const i64x2 {} {}))", i, g.r.next() as i64, g.r.next() as i64),
            5 if p.refs() => format!("(global $c{} (mut funcref) (ref.null func))", i),
            6 if p.refs() => format!("(global $c{} funcref (ref.func $decl))", i),
            7 if p.refs() => format!("(global $c{} externref (ref.null extern))", i),
            8 if p.gc => format!("(global $c{} (ref $bytes) (array.new_fixed $bytes 2 (i32.const 1) (i32.const {})))", i, g.k(200)),
            9 if p.gc => format!("(global $c{} (ref i31) (ref.i31 {}))", i, g.i32c()),
            10 if p.gc => format!("(global $c{} (ref null $leaf) (struct.new $leaf (i32.const 1) (ref.null $node) (i32.const 2)))", i),
            11 if p.eh => format!("(global $c{} exnref (ref.null exn))", i),
            _ => format!("(global $c{} f32 (f32.const {}.5))", i, g.k(100)),
        };
        f.push(s);
    }
    if p.gc { f.push("(global $gnode (ref null $node) (struct.new_default $node))".into()); }
    // functions
    f.push("(func $decl (type $t0))".into());
    let nloc_nullary = 1 + g.k(2) as u32;
    let first_local_nullary = g.nfun_nullary;
    let total_nullary = g.nfun_nullary + nloc_nullary;
    if p.mv { f.push("(func $swap (type $swap_t) (local.get 1) (local.get 0))".into()); }
    // nullary helpers may only call earlier ones (no unbounded recursion is required for validity, but keep it tidy)
    for i in 0..nloc_nullary {
        let id = first_local_nullary + i;
        g.nfun_nullary = id; // callable: $n0 .. $n{id-1}
        let mut body = String::new();
        for _ in 0..g.k(3) { let s = g.stmt(1); body.push_str(&s); body.push(' '); }
        f.push(format!("(func $n{} (type $t0) (local $p0 i32) (local $p1 i64) (local $l0 i32) (local $l1 f64){} {})", id, if g.r.chance(1, 3) { " (local f32 f32) (local i64)" } else { "" }, body));
    }
    g.nfun_nullary = total_nullary;
    let nbody = 1 + g.k(3);
    for i in 0..nbody {
        let mut body = String::new();
        for _ in 0..g.k(5) { let s = g.stmt(2); body.push_str(&s); body.push(' '); }
        let extra = match g.k(6) {
            0 if p.simd => " (local $v v128)",
            1 if p.refs() => " (local $fr funcref) (local externref externref)",
            2 if p.gc => " (local $nn (ref null $node)) (local anyref) (local (ref null $bytes) (ref null $bytes))",
            3 if g.exn_types => " (local $exl exnref) (local nullexnref)",
            4 => " (local i64 i64 i64) (local f32)",
            _ => "",
        };
        let ret = if p.tail && g.r.chance(1, 2) && i > 0 {
            if g.has_tab && g.r.chance(1, 2) { format!("(return_call_indirect $tab (type $body) {} (local.get $p1) (i32.const 0))", g.e_i32(1)) } else { format!("(return_call $f{} {} (local.get $p1))", i - 1, g.e_i32(1)) }
        } else if g.r.chance(1, 8) { "(unreachable)".into() } else if g.r.chance(1, 8) { format!("(return {})", g.e_i32(1)) } else { g.e_i32(2) };
        f.push(format!("(func $f{} (type $body) (param $p0 i32) (param $p1 i64) (result i32) (local $l0 i32) (local $l1 f64){} {}{})", i, extra, body, ret));
    }
    if g.exn_types { f.push("(func $exid (type $exf) (local $x exnref) (local.set $x (local.get 0)) (local.get $x))".into()); }
    if p.simd && f.iter().any(|s| s.starts_with("(type $vf")) { f.push("(func $vfun (type $vf) (f32x4.replace_lane 2 (local.get 0) (local.get 1)))".into()); }
    if p.refs() && f.iter().any(|s| s.starts_with("(type $rf")) { f.push("(func $rfun (type $rf) (local.get 1))".into()); }
    // exports, start
    f.push("(export \"f0\" (func $f0))".into());
    if g.has_mem && g.r.chance(1, 2) { f.push("(export \"memory\" (memory $mem))".into()); }
    if g.has_mem2 && g.r.chance(1, 2) { f.push("(export \"memory2\" (memory $mem2))".into()); }
    if g.has_tab && g.r.chance(1, 2) { f.push("(export \"table\" (table $tab))".into()); }
    if g.r.chance(1, 2) { f.push("(export \"g0\" (global $g0))".into()); }
    if p.eh && g.r.chance(1, 2) { f.push("(export \"ex\" (tag $ex))".into()); }
    if g.r.chance(1, 3) { f.push(format!("(start $n{})", first_local_nullary)); }
    // elements
    if p.refs() { f.push("(elem $edecl declare func $decl)".into()); }
    if g.has_tab {
        f.push(format!("(elem $e0 (table $tab) (i32.const 0) func $f0 $n{})", first_local_nullary));
        if p.refs() || p.bulk {
            if g.r.chance(1, 2) { f.push("(elem $e1 func $decl $f0)".into()); }
        }
        if p.refs() {
            if g.r.chance(1, 2) { f.push("(elem $e2 (table $tab) (offset (i32.const 2)) funcref (ref.func $decl) (ref.null func))".into()); }
            if g.r.chance(1, 2) { f.push("(elem $e3 funcref (ref.null func) (ref.func $f0))".into()); }
            if g.r.chance(1, 2) { f.push("(elem $e4 declare funcref (ref.func $f0))".into()); }
        }
    }
    // data
    if g.has_mem {
        let off = if g.mem64 { "(i64.const 8)" } else if g.has_imp_glob && g.r.chance(1, 3) { "(global.get $ig)" } else { "(i32.const 8)" };
        f.push(format!("(data $d0 {} \"{}\")", off, ["hello", "\\00\\ff\\7f", "", "a\\\"b"][g.k(4) as usize]));
        if g.has_mem2 && g.r.chance(1, 2) { f.push("(data $d2 (memory $mem2) (i32.const 0) \"second\")".into()); }
    }
    if f.iter().any(|s| s.contains("memory.init $dp")) || ((p.bulk || p.refs()) && g.r.chance(1, 2)) { f.push("(data $dp \"passive\")".into()); }
    // keep the order of definition of the text but let the assembler order the sections
    format!("(module $m{}\n  {})", g.k(100), f.join("\n  "))
}

// ------------------------------------------------------------------------------------------------
// decoration at the binary level

fn split_sections(bytes: &[u8]) -> Option<Secs> {
    if bytes.len() < 8 || bytes[..8] != MOD_HDR { return None; }
    let mut pos = 8;
    let mut out = vec![];
    while pos < bytes.len() {
        let id = bytes[pos];
        pos += 1;
        let len = read_leb(bytes, &mut pos)? as usize;
        if pos + len > bytes.len() { return None; }
        out.push((id, bytes[pos..pos + len].to_vec()));
        pos += len;
    }
    Some(out)
}
fn custom_name(body: &[u8]) -> Option<(String, usize)> {
    let mut p = 0;
    let l = read_leb(body, &mut p)? as usize;
    let n = std::str::from_utf8(body.get(p..p + l)?).ok()?.to_string();
    Some((n, p + l))
}
fn strip_customs(bytes: &[u8]) -> Option<Vec<u8>> {
    let s = split_sections(bytes)?;
    Some(assemble(&MOD_HDR, &s.into_iter().filter(|x| x.0 != 0).collect()))
}

fn decorate(r: &mut Rng, bytes: Vec<u8>, desc: &mut String) -> Vec<u8> {
    let mut secs = match split_sections(&bytes) { Some(s) => s, None => return bytes };
    let k = r.below(100);
    if k < 70 { return bytes; }
    if k < 82 {
        // extra custom sections at random positions (custom sections may stand anywhere)
        for _ in 0..r.range(1, 3) {
            let data: Vec<u8> = (0..r.below(6)).map(|_| r.next() as u8).collect();
            let name = *r.pick(&["meta", "", "target_features", "linking", "dylink.0", "name2", "sourceMappingURL"]);
            let pos = r.below(secs.len() as u64 + 1) as usize;
            secs.insert(pos, custom(name, &data));
            let _ = write!(desc, " +custom({:?}@{})", name, pos);
        }
    } else if k < 90 {
        // a well-formed producers section
        let mut p = wasm_encoder::ProducersSection::new();
        let names = ["language", "processed-by", "sdk"];
        let n = r.range(1, 3);
        for i in 0..n {
            let mut fld = wasm_encoder::ProducersField::new();
            for j in 0..r.below(3) { fld.value(&format!("v{j}"), "1.0"); }
            p.field(names[i as usize], &fld);
        }
        let pos = r.below(secs.len() as u64 + 1) as usize;
        secs.insert(pos, sec(&p));
        let _ = write!(desc, " +producers({} fields@{})", n, pos);
    } else if k < 93 {
        match r.below(6) {
            0 | 1 => { secs.push(custom("producers", &[0])); desc.push_str(" +producers(0 fields)"); }
            2 => { secs.push(custom("producers", &[1, 4, b't', b'o', b'o', b'l', 0])); desc.push_str(" +producers(field `tool`)"); }
            3 => { secs.push(custom("producers", &[1, 8, b'l', b'a', b'n', b'g', b'u', b'a', b'g', b'e', 1, 1, 0xff, 1, b'1'])); desc.push_str(" +producers(value not UTF-8)"); }
            4 => { secs.push(custom("name", &[4, 4, 1, 0, 1, 0xff])); desc.push_str(" +second name section(type name not UTF-8)"); }
            _ => { secs.push(custom("name", &[2, 3, 2, 0, 0])); desc.push_str(" +second name section(local map cut short)"); }
        }
    } else if k < 97 {
        // a name section that can legitimately stand early: (A) without the function-name map, moved to the front or before the
        // imports; (B) with function names for the *imported* functions only, placed right after the import section
        if let Some(i) = secs.iter().position(|s| s.0 == 0 && custom_name(&s.1).map_or(false, |n| n.0 == "name")) {
            let (_, off) = custom_name(&secs[i].1).unwrap();
            let body = secs[i].1[off..].to_vec();
            let mut subs: Vec<(u8, Vec<u8>)> = vec![];
            let mut p = 0;
            while p < body.len() {
                let id = body[p];
                p += 1;
                let l = match read_leb(&body, &mut p) { Some(l) => l as usize, None => break };
                if p + l > body.len() { break; }
                subs.push((id, body[p..p + l].to_vec()));
                p += l;
            }
            let n_imp_funcs = {
                let mut n = 0u32;
                for pl in wp::Parser::new(0).parse_all(&bytes) { if let Ok(wp::Payload::ImportSection(rd)) = pl { for im in rd.into_iter().flatten() { if let wp::TypeRef::Func(_) = im.ty { n += 1; } } } }
                n
            };
            let variant_b = r.chance(1, 2) && n_imp_funcs > 0 && secs.iter().any(|s| s.0 == 2);
            let mut nb = vec![];
            for (id, b2) in &subs {
                if *id == 1 {
                    if !variant_b { continue; }
                    let mut m = wasm_encoder::NameMap::new();
                    let rd = wp::NameMap::new(wp::BinaryReader::new(b2, 0));
                    if let Ok(rd) = rd { for n in rd.into_iter().flatten() { if n.index < n_imp_funcs { m.append(n.index, n.name); } } }
                    let mut enc = vec![];
                    wasm_encoder::Encode::encode(&m, &mut enc);
                    nb.push(1);
                    leb(enc.len() as u64, &mut nb);
                    nb.extend_from_slice(&enc);
                } else if *id == 2 || *id == 3 {
                    if variant_b { nb.push(*id); leb(b2.len() as u64, &mut nb); nb.extend_from_slice(b2); }
                    // (A) drops local and label names too: they are attached to functions
                    else { continue; }
                } else {
                    nb.push(*id); leb(b2.len() as u64, &mut nb); nb.extend_from_slice(b2);
                }
            }
            secs.remove(i);
            let t = if variant_b { secs.iter().position(|x| x.0 == 2).map(|x| x + 1).unwrap_or(0) } else if r.chance(1, 2) { 0 } else { secs.iter().position(|x| x.0 == 2).unwrap_or(0) };
            secs.insert(t, custom("name", &nb));
            let _ = write!(desc, " early-name-section({} @{})", if variant_b { "imported function names only" } else { "no function names" }, t);
        }
    } else {
        // move the name section: before the code section / before the import section / to the front
        if let Some(i) = secs.iter().position(|s| s.0 == 0 && custom_name(&s.1).map_or(false, |n| n.0 == "name")) {
            let s = secs.remove(i);
            let target = match r.below(3) { 0 => secs.iter().position(|x| x.0 == 10), 1 => secs.iter().position(|x| x.0 == 2), _ => Some(0) };
            let t = target.unwrap_or(secs.len());
            secs.insert(t, s);
            let _ = write!(desc, " name-section-moved-to({})", t);
        }
    }
    assemble(&MOD_HDR, &secs)
}

// ------------------------------------------------------------------------------------------------
// decoding of a module into the compared summary

const KINDS: [&str; 11] = ["type", "import", "func", "table", "memory", "global", "export", "start", "elem", "data", "tag"];

/// top-level fields of the printed module text: (kind, text)
fn split_fields(text: &str) -> Vec<(String, String)> {
    let b = text.as_bytes();
    let mut out = vec![];
    let mut depth = 0i32;
    let mut i = 0;
    let mut start = 0;
    let mut in_str = false;
    while i < b.len() {
        let c = b[i];
        if in_str {
            if c == b'\\' { i += 2; continue; }
            if c == b'"' { in_str = false; }
        } else if c == b'"' {
            in_str = true;
        } else if c == b'(' {
            depth += 1;
            if depth == 2 { start = i; }
        } else if c == b')' {
            if depth == 2 {
                let t = &text[start..=i];
                let kind: String = t[1..].chars().take_while(|c| c.is_ascii_alphabetic()).collect();
                let norm: String = t.split_whitespace().collect::<Vec<_>>().join(" ");
                out.push((kind, norm));
            }
            depth -= 1;
        }
        i += 1;
    }
    out
}

/// per-case hash-consing of opaque texts: equal texts <-> equal (small) tokens, no collisions
#[derive(Default)]
struct Interner { map: std::collections::HashMap<String, u64> }
impl Interner {
    fn tok(&mut self, s: &str) -> u64 { let n = self.map.len() as u64 + 1; *self.map.entry(s.to_string()).or_insert(n) }
}

struct Summary {
    items: Vec<Vec<u64>>,                       // per kind
    names: Vec<(u64, u64, u64, u64)>,           // (kind, index, sub-index, name hash); kinds 0..11 = module function local label type table memory global elem data field tag
    customs: Vec<(u64, u64)>,                   // (name hash, data hash)
    text_ok: bool,
}

fn summarize(bytes: &[u8], it: &mut Interner) -> Summary {
    let mut s = Summary { items: vec![vec![]; KINDS.len()], names: vec![], customs: vec![], text_ok: false };
    if let Some(stripped) = strip_customs(bytes) {
        if let Ok(Ok(text)) = catch_unwind(AssertUnwindSafe(|| wasmprinter::print_bytes(&stripped))) {
            s.text_ok = true;
            for (k, t) in split_fields(&text) {
                let k = if k == "rec" { "type".to_string() } else { k };
                match KINDS.iter().position(|x| *x == k) {
                    Some(i) => s.items[i].push(it.tok(&t)),
                    None => s.items[0].push(it.tok(&format!("?{}", t))),
                }
            }
        }
    }
    if !s.text_ok { s.items[0].push(it.tok("unprintable")); }
    if let Some(secs) = split_sections(bytes) {
        for (id, body) in secs {
            if id != 0 { continue; }
            let (name, off) = match custom_name(&body) { Some(x) => x, None => continue };
            if name != "name" { s.customs.push((it.tok(&name), it.tok(&format!("{:?}", &body[off..])))); continue; }
            let rd = wp::NameSectionReader::new(wp::BinaryReader::new(&body[off..], 0));
            for sub in rd {
                let sub = match sub { Ok(x) => x, Err(_) => { s.names.push((99, 0, 0, 0)); break; } };
                let mut direct = |k: u64, m: wp::NameMap, s: &mut Summary| { for n in m { match n { Ok(n) => s.names.push((k, n.index as u64, 0, it.tok(n.name))), Err(_) => { s.names.push((99, k, 0, 0)); break; } } } };
                match sub {
                    wp::Name::Module { name, .. } => { let t = it.tok(name); s.names.push((0, 0, 0, t)) }
                    wp::Name::Function(m) => direct(1, m, &mut s),
                    wp::Name::Local(_) | wp::Name::Label(_) | wp::Name::Field(_) => {} // second pass below
                    wp::Name::Type(m) => direct(4, m, &mut s),
                    wp::Name::Table(m) => direct(5, m, &mut s),
                    wp::Name::Memory(m) => direct(6, m, &mut s),
                    wp::Name::Global(m) => direct(7, m, &mut s),
                    wp::Name::Element(m) => direct(8, m, &mut s),
                    wp::Name::Data(m) => direct(9, m, &mut s),
                    wp::Name::Tag(m) => direct(11, m, &mut s),
                    wp::Name::Unknown { ty, .. } => s.names.push((98, ty as u64, 0, 0)),
                }
            }
            // the indirect maps (local = 2, label = 3, field = 10), in a second pass to keep the kinds apart
            let rd = wp::NameSectionReader::new(wp::BinaryReader::new(&body[off..], 0));
            for sub in rd {
                let (k, m) = match sub { Ok(wp::Name::Local(m)) => (2u64, m), Ok(wp::Name::Label(m)) => (3, m), Ok(wp::Name::Field(m)) => (10, m), Ok(_) => continue, Err(_) => break };
                for outer in m {
                    match outer {
                        Ok(o) => for n in o.names { match n { Ok(n) => s.names.push((k, o.index as u64, n.index as u64, it.tok(n.name))), Err(_) => { s.names.push((99, k, 0, 0)); break; } } },
                        Err(_) => { s.names.push((99, k, 0, 0)); break; }
                    }
                }
            }
        }
    }
    s.names.sort();
    s
}

// ------------------------------------------------------------------------------------------------
// value types that go through wirm's DataType

fn coq_heap(ht: wp::HeapType) -> String {
    match ht {
        wp::HeapType::Abstract { shared, ty } => {
            use wp::AbstractHeapType::*;
            let t = match ty { Func => "AFunc", Extern => "AExtern", Any => "AAny", None => "ANone", NoExtern => "ANoExtern", NoFunc => "ANoFunc", Eq => "AEq", Struct => "AStruct",
                               Array => "AArray", I31 => "AI31", Exn => "AExn", NoExn => "ANoExn", Cont => "ACont", NoCont => "ANoCont" };
            format!("(HAbs {} {})", b(shared), t)
        }
        wp::HeapType::Concrete(u) => match u {
            wp::UnpackedIndex::Module(i) => format!("(HModule {})", i),
            wp::UnpackedIndex::RecGroup(i) => format!("(HRecGroup {})", i),
            wp::UnpackedIndex::Id(_) => "(HId 0)".into(),
        },
    }
}
fn coq_valtype(v: wp::ValType) -> String {
    match v {
        wp::ValType::I32 => "VI32".into(), wp::ValType::I64 => "VI64".into(), wp::ValType::F32 => "VF32".into(), wp::ValType::F64 => "VF64".into(), wp::ValType::V128 => "VV128".into(),
        wp::ValType::Ref(rt) => format!("(VRef {} {})", b(rt.is_nullable()), coq_heap(rt.heap_type())),
    }
}
fn coq_enc_valtype(v: wasm_encoder::ValType) -> String {
    use wasm_encoder::ValType as E;
    match v {
        E::I32 => "VI32".into(), E::I64 => "VI64".into(), E::F32 => "VF32".into(), E::F64 => "VF64".into(), E::V128 => "VV128".into(),
        E::Ref(rt) => {
            let hp = match rt.heap_type {
                wasm_encoder::HeapType::Abstract { shared, ty } => {
                    use wasm_encoder::AbstractHeapType::*;
                    let t = match ty { Func => "AFunc", Extern => "AExtern", Any => "AAny", None => "ANone", NoExtern => "ANoExtern", NoFunc => "ANoFunc", Eq => "AEq", Struct => "AStruct",
                                       Array => "AArray", I31 => "AI31", Exn => "AExn", NoExn => "ANoExn", Cont => "ACont", NoCont => "ANoCont" };
                    format!("(HAbs {} {})", b(shared), t)
                }
                wasm_encoder::HeapType::Concrete(i) => format!("(HModule {})", i),
            };
            format!("(VRef {} {})", b(rt.nullable), hp)
        }
    }
}

/// the distinct value types of the type section (params, results, fields) and of the local declarations
fn converted_valtypes(bytes: &[u8]) -> Vec<wp::ValType> {
    let mut out: Vec<wp::ValType> = vec![];
    let mut add = |v: wp::ValType, out: &mut Vec<wp::ValType>| { if !out.contains(&v) { out.push(v); } };
    for p in wp::Parser::new(0).parse_all(bytes) {
        match p {
            Ok(wp::Payload::TypeSection(rd)) => for g in rd.into_iter().flatten() {
                for st in g.types() {
                    match &st.composite_type.inner {
                        wp::CompositeInnerType::Func(ft) => { for v in ft.params().iter().chain(ft.results()) { add(*v, &mut out); } }
                        wp::CompositeInnerType::Array(a) => { if let wp::StorageType::Val(v) = a.0.element_type { add(v, &mut out); } }
                        wp::CompositeInnerType::Struct(s) => { for fl in s.fields.iter() { if let wp::StorageType::Val(v) = fl.element_type { add(v, &mut out); } } }
                        wp::CompositeInnerType::Cont(_) => {}
                    }
                }
            },
            Ok(wp::Payload::CodeSectionEntry(body)) => { if let Ok(lr) = body.get_locals_reader() { for l in lr.into_iter().flatten() { add(l.1, &mut out); } } }
            Ok(_) => {}
            Err(_) => break,
        }
    }
    out
}

// ------------------------------------------------------------------------------------------------

fn seeds() -> Vec<(String, Prof, String)> {
    let dirs = [format!("{}/../corpus/roundtrip", env!("CARGO_MANIFEST_DIR")), "/verif/corpus/roundtrip".to_string()];
    for d in dirs {
        if let Ok(rd) = std::fs::read_dir(&d) {
            let mut files: Vec<_> = rd.filter_map(|e| e.ok()).map(|e| e.path()).filter(|p| p.extension().map_or(false, |e| e == "wat")).collect();
            files.sort();
            if files.is_empty() { continue; }
            return files.iter().map(|p| {
                let src = std::fs::read_to_string(p).unwrap_or_default();
                let first = src.lines().next().unwrap_or("");
                let prof = Prof::parse(first.trim_start_matches(";; features:"));
                (p.file_name().unwrap().to_string_lossy().to_string(), prof, src)
            }).collect();
        }
    }
    vec![]
}

fn hex(bts: &[u8]) -> String {
    let mut s = String::new();
    for (i, x) in bts.iter().enumerate() { if i >= 96 { let _ = write!(s, "..(+{})", bts.len() - i); break; } let _ = write!(s, "{:02x}", x); }
    s
}

fn coq_items(v: &[Vec<u64>]) -> String { coq_list(v, |l| coq_list(l, |x| x.to_string())) }

fn main() {
    let args = parse_args();
    install_hook();
    let report = if args.prop == "C01" { "report_C01" } else { "report_C02" };
    let seed_files = seeds();
    let header = "From Coq Require Import List NArith.\nFrom Orca Require Import Model.ParseGlue Model.ValTypes Check.CheckRoundtrip.\nImport ListNotations.\nOpen Scope N_scope.\n";
    let footer = format!("Eval vm_compute in ({} cases).", report);
    run_shards(&args, header, "rcase", &footer, |seed, idx| {
        let mut r = Rng::for_case(seed, idx);
        let mut desc = String::new();
        let mut tags = vec![];
        // ---- the input
        let (prof, bytes, wat_text) = if idx >= (1u64 << 40) && !seed_files.is_empty() {
            let (name, prof, src) = &seed_files[((idx - (1u64 << 40)) as usize) % seed_files.len()];
            let _ = write!(desc, "seed {} ", name);
            tags.push("input:seed".into());
            (*prof, wat::parse_str(src).unwrap_or_default(), src.clone())
        } else {
            let mut out = None;
            for attempt in 0..20 {
                let prof = gen_prof(&mut r);
                let text = gen_wat(&mut r, prof);
                match wat::parse_str(&text) {
                    Ok(bin) => {
                        let ok = wp::Validator::new_with_features(prof.features()).validate_all(&bin).is_ok();
                        if ok { if attempt > 0 { tags.push("gen:redrawn".into()); } out = Some((prof, bin, text)); break; }
                        if std::env::var("VH_GENDEBUG").is_ok() { eprintln!("INVALID ({}): {:?}\n{}", prof.show(), wp::Validator::new_with_features(prof.features()).validate_all(&bin).err(), text); }
                    }
                    Err(e) => { if std::env::var("VH_GENDEBUG").is_ok() { eprintln!("WAT ERROR: {}\n{}", e, text); } }
                }
            }
            let (prof, bin, text) = out.unwrap_or_else(|| { tags.push("gen:fallback".into()); (Prof::default(), wat::parse_str("(module (func))").unwrap(), "(module (func))".into()) });
            tags.push("input:generated".into());
            let bin = decorate(&mut r, bin, &mut desc);
            (prof, bin, text)
        };
        let feats = prof.features();
        let in_valid = catch_unwind(AssertUnwindSafe(|| wp::Validator::new_with_features(feats).validate_all(&bytes).is_ok())).unwrap_or(false);
        tags.push(format!("proposals:{}", prof.show().matches('+').count()));
        for (nm, on) in [("multivalue", prof.mv), ("reftypes", prof.rt), ("bulk", prof.bulk), ("simd", prof.simd), ("tailcall", prof.tail), ("gc", prof.gc), ("exceptions", prof.eh), ("threads", prof.thr), ("memory64", prof.m64), ("multimemory", prof.mm)] {
            if on { tags.push(format!("feature:{}", nm)); }
        }
        // ---- the implementation
        let mm = prof.mm;
        let mut encoded: Option<Vec<u8>> = None;
        let mut o_enc = Obs::Err; // "not reached"
        let o_parse = {
            *LAST_PANIC.lock().unwrap() = None;
            match catch_unwind(AssertUnwindSafe(|| wirm::Module::parse(&bytes, mm))) {
                Ok(Ok(mut m)) => {
                    o_enc = observe(|| -> Result<(), ()> { encoded = Some(m.encode()); Ok(()) });
                    Obs::Ok
                }
                Ok(Err(_)) => Obs::Err,
                Err(_) => { let p = LAST_PANIC.lock().unwrap().clone().unwrap_or(("?".into(), 0, "?".into())); let (k, key) = classify(&p); Obs::Panic(k, key) }
            }
        };
        let out_valid = encoded.as_ref().map_or(false, |o| catch_unwind(AssertUnwindSafe(|| wp::Validator::new_with_features(feats).validate_all(o).is_ok())).unwrap_or(false));
        let out_err = encoded.as_ref().and_then(|o| wp::Validator::new_with_features(feats).validate_all(o).err().map(|e| e.to_string()));
        // ---- summaries
        let mut it = Interner::default();
        let s_in = summarize(&bytes, &mut it);
        let s_out = match &encoded { Some(o) => summarize(o, &mut it), None => Summary { items: vec![vec![]; KINDS.len()], names: vec![], customs: vec![], text_ok: false } };
        let am = catch_unwind(AssertUnwindSafe(|| abs_module(wp::Parser::new(0), &bytes))).unwrap_or(Abs { evs: vec!["MUnmodelled".into()], past_header: false });
        // ---- conversions
        let vts = converted_valtypes(&bytes);
        let conv: Vec<String> = vts.iter().map(|v| {
            let real = catch_unwind(AssertUnwindSafe(|| { let d = wirm::ir::types::DataType::from(*v); wasm_encoder::ValType::from(&d) }));
            format!("({}, {})", coq_valtype(*v), match real { Ok(e) => format!("Some {}", coq_enc_valtype(e)), Err(_) => "None".into() })
        }).collect();
        let same = s_in.items == s_out.items && s_in.names == s_out.names && s_in.customs == s_out.customs;
        tags.push(format!("parse:{}", match &o_parse { Obs::Ok => "ok".to_string(), Obs::Err => "err".to_string(), Obs::Panic(k, _) => format!("panic:{}", k) }));
        if encoded.is_some() { tags.push(format!("content-equal:{}", same)); tags.push(format!("output-valid:{}", out_valid)); }
        tags.push(format!("input-valid:{}", in_valid));
        // per name-map kind the list of entry tokens hash(index, sub-index, name)
        let mut names12 = |v: &[(u64, u64, u64, u64)]| {
            let mut per: Vec<Vec<u64>> = vec![vec![]; 13];
            for x in v { let k = if x.0 <= 11 { x.0 as usize } else { 12 }; per[k].push(it.tok(&format!("{}:{}:{}:{}", x.0, x.1, x.2, x.3))); }
            coq_items(&per)
        };
        let cust2 = |v: &[(u64, u64)]| coq_list(v, |x| format!("({}, {})", x.0, x.1));
        let coq = format!("mkRCase {} [{}] {} {} {} {} {} {} {} {} {} {} [{}]",
            b(mm), am.evs.join("; "), o_parse.coq(), o_enc.coq(), b(in_valid), b(out_valid),
            coq_items(&s_in.items), coq_items(&s_out.items), names12(&s_in.names), names12(&s_out.names), cust2(&s_in.customs), cust2(&s_out.customs), conv.join("; "));
        let mut d = format!("{} [{}]{} | {} bytes {} input-valid={} => parse={} encode={} output-valid={}{} content-equal={} items in/out per kind: {}", desc, prof.show(),
            if std::env::var("VH_SHOWWAT").is_ok() { format!("\n{}\n", wat_text) } else { String::new() }, bytes.len(), hex(&bytes), in_valid, o_parse.show(), o_enc.show(), out_valid,
            out_err.map(|e| format!(" ({})", e)).unwrap_or_default(), same,
            KINDS.iter().enumerate().map(|(i, k)| format!("{}={}/{}{}", k, s_in.items[i].len(), s_out.items[i].len(), if s_in.items[i] != s_out.items[i] { "!" } else { "" })).collect::<Vec<_>>().join(" "));
        if s_in.names != s_out.names { let _ = write!(d, " names differ ({} vs {})", s_in.names.len(), s_out.names.len()); }
        if s_in.customs != s_out.customs { let _ = write!(d, " customs differ ({} vs {})", s_in.customs.len(), s_out.customs.len()); }
        let nontrivial = in_valid && s_in.items[2].len() >= 2;
        Case { seed, idx, coq, desc: d, nontrivial, tags }
    });
}
