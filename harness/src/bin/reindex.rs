// Correspondence harness of the re-indexing engine (C05-C11).
// Base modules with imports of all five kinds interleaved, local functions / globals / memories, exports,
// start, element segments (function-list and expression form, an active segment whose offset is `global.get`),
// a table initialiser `ref.func`, active data segments, global initialisers that reference globals and
// functions; histories of the edit API; every reference is a numbered *site* whose emitted index is read back
// from the real output.
use std::panic::{catch_unwind, AssertUnwindSafe};
use vharness::wasmgen::validates;
use vharness::*;
use wasmparser::{MemArg, Operator};
use wirm::ir::function::FunctionBuilder;
use wirm::ir::id::*;
use wirm::ir::module::module_functions::FuncKind;
use wirm::ir::module::module_globals::{Global, GlobalKind, LocalGlobal};
use wirm::ir::types::{InitExpr, InitInstr, Location, Value};
use wirm::iterator::iterator_trait::IteratingInstrumenter;
use wirm::iterator::module_iterator::ModuleIterator;
use wirm::opcode::{Inject, Instrumenter};
use wirm::{DataSegment, DataSegmentKind, DataType, Module, Opcode};

const MARK: u64 = 100000;
const PROBE_FP: u64 = 9999;
const FP_GETTER: u64 = 800000;
const FP_REFFUNC: u64 = 700000;

#[derive(Clone, Copy, Debug, PartialEq)]
enum Sp { F, G, M }
impl Sp {
    fn coq(&self) -> &'static str { match self { Sp::F => "SF", Sp::G => "SG", Sp::M => "SM" } }
    fn code(&self) -> usize { match self { Sp::F => 0, Sp::G => 1, Sp::M => 2 } }
}
#[derive(Clone, Debug)]
enum HOp {
    AddLocal(Sp, u64), AddImport(Sp, u64), Delete(Sp, u64), LocalToImport(u64, u64), ImportToLocal(u64, u64), ItAddGlobal(u64),
    AddExport(Sp, u64), DeleteExport(u64), AddData(u64),
}
impl HOp {
    fn coq(&self) -> String {
        match self {
            HOp::AddLocal(s, fp) => format!("AddLocal {} {}", s.coq(), fp),
            HOp::AddImport(s, fp) => format!("AddImport {} {}", s.coq(), fp),
            HOp::Delete(s, id) => format!("Delete {} {}", s.coq(), id),
            HOp::LocalToImport(id, fp) => format!("LocalToImport {} {}", id, fp),
            HOp::ImportToLocal(k, fp) => format!("ImportToLocal {} {}", k, fp),
            HOp::ItAddGlobal(fp) => format!("ItAddGlobal {}", fp),
            HOp::AddExport(s, id) => format!("AddExport {} {}", s.coq(), id),
            HOp::DeleteExport(k) => format!("DeleteExport {}", k),
            HOp::AddData(m) => format!("AddData {}", m),
        }
    }
}
#[derive(Clone, Copy, Debug, PartialEq)]
enum Rk { Code, Export, Start, ElemFn, ElemExpr, DataMem, DataOff, Init, ElemOff, TableInit }
impl Rk { fn coq(&self) -> &'static str { match self { Rk::Code => "KCode", Rk::Export => "KExport", Rk::Start => "KStart", Rk::ElemFn => "KElemFn", Rk::ElemExpr => "KElemExpr", Rk::DataMem => "KDataMem", Rk::DataOff => "KDataOff", Rk::Init => "KInit", Rk::ElemOff => "KElemOff", Rk::TableInit => "KTableInit" } } }
#[derive(Clone, Copy, Debug)]
enum Owner { None, Func(u64), Global(u64), Export(u64) }
impl Owner { fn coq(&self) -> String { match self { Owner::None => "ONone".into(), Owner::Func(i) => format!("(OFunc {i})"), Owner::Global(i) => format!("(OGlobal {i})"), Owner::Export(k) => format!("(OExport {k})") } } }
#[derive(Clone, Debug)]
struct Site { k: Rk, sp: Sp, id: u64, owner: Owner, flavour: u64, flavour2: u64 }

fn memty(initial: u64) -> wasmparser::MemoryType { wasmparser::MemoryType { memory64: false, shared: false, initial, maximum: None, page_size_log2: None } }

struct Base {
    imports: Vec<(u64, u64)>, funcs: Vec<u64>, globals: Vec<(u64, Option<(Sp, u64)>)>, mems: Vec<u64>,
    exports: Vec<usize>, start: Option<usize>, elem_fn: Vec<Vec<usize>>, elem_expr: Vec<Vec<usize>>,
    data: Vec<(usize, Option<usize>)>, probe_sites: Vec<usize>,
    /// site of the `global.get` offset of an extra (empty) active element segment; site of the `ref.func` table initialiser
    elem_off: Option<usize>, table_init: Option<usize>,
}

fn code_site_enc(f: &mut wasm_encoder::Function, n: usize, s: &Site) {
    use wasm_encoder::Instruction as I;
    f.instruction(&I::I32Const((MARK + n as u64) as i32));
    f.instruction(&I::Drop);
    let id = s.id as u32;
    match s.sp {
        Sp::F => { f.instruction(&I::Call(id)); }
        Sp::G => { f.instruction(&I::GlobalGet(id)); f.instruction(&I::Drop); }
        Sp::M => {
            let ma = wasm_encoder::MemArg { offset: 0, align: 0, memory_index: id };
            match s.flavour % 4 {
                0 => { f.instruction(&I::I32Const(0)); f.instruction(&I::I32Load8U(ma)); f.instruction(&I::Drop); }
                1 => { f.instruction(&I::MemorySize(id)); f.instruction(&I::Drop); }
                2 => { f.instruction(&I::I32Const(0)); f.instruction(&I::I32Const(0)); f.instruction(&I::I32Store8(ma)); }
                _ => { f.instruction(&I::I32Const(0)); f.instruction(&I::I32Const(0)); f.instruction(&I::I32Const(0)); f.instruction(&I::MemoryFill(id)); }
            }
        }
    }
}
fn code_site_ops(n: usize, s: &Site) -> Vec<Operator<'static>> {
    let mut v = vec![Operator::I32Const { value: (MARK + n as u64) as i32 }, Operator::Drop];
    let id = s.id as u32;
    let ma = |al: u8| MemArg { align: al, max_align: al, offset: 0, memory: id };
    match s.sp {
        Sp::F => { if s.flavour % 5 == 4 { v.push(Operator::ReturnCall { function_index: id }); } else { v.push(Operator::Call { function_index: id }); } }
        Sp::G => { v.push(Operator::GlobalGet { global_index: id }); v.push(Operator::Drop); }
        Sp::M => match (if s.flavour >= 100 { 100 } else { s.flavour % 11 }) {
            0 => { v.push(Operator::I32Const { value: 0 }); v.push(Operator::I32Load { memarg: ma(2) }); v.push(Operator::Drop); }
            1 => { v.push(Operator::MemorySize { mem: id }); v.push(Operator::Drop); }
            2 => { v.push(Operator::I32Const { value: 0 }); v.push(Operator::I64Const { value: 0 }); v.push(Operator::I64Store { memarg: ma(3) }); }
            3 => { v.push(Operator::I32Const { value: 0 }); v.push(Operator::I32Const { value: 0 }); v.push(Operator::I32Const { value: 0 }); v.push(Operator::MemoryFill { mem: id }); }
            4 => { v.push(Operator::I32Const { value: 0 }); v.push(Operator::I32Const { value: 0 }); v.push(Operator::I32Const { value: 0 }); v.push(Operator::MemoryCopy { dst_mem: id, src_mem: s.flavour2 as u32 }); }
            8 => { v.push(Operator::I32Const { value: 0 }); v.push(Operator::I64AtomicLoad { memarg: ma(3) }); v.push(Operator::Drop); }
            9 => { v.push(Operator::I32Const { value: 0 }); v.push(Operator::I32Const { value: 1 }); v.push(Operator::I32AtomicRmwAdd { memarg: ma(2) }); v.push(Operator::Drop); }
            10 => { v.push(Operator::I32Const { value: 0 }); v.push(Operator::I64Const { value: 1 }); v.push(Operator::I64Const { value: 2 }); v.push(Operator::I64AtomicRmw16CmpxchgU { memarg: ma(1) }); v.push(Operator::Drop); }
            100 => { return vec![]; }
            5 => { v.push(Operator::I32Const { value: 0 }); v.push(Operator::V128Load { memarg: ma(4) }); v.push(Operator::Drop); }
            6 => { v.push(Operator::I32Const { value: 0 }); v.push(Operator::I32AtomicLoad { memarg: ma(2) }); v.push(Operator::Drop); }
            _ => { v.push(Operator::I32Const { value: 0 }); v.push(Operator::MemoryGrow { mem: id }); v.push(Operator::Drop); }
        },
    }
    v
}

/// the type index that belongs to the function (import or base function) with fingerprint fp
fn fn_ty(fp: u64) -> u32 { (fp % 3) as u32 }
/// what the decoder reports for a function whose type index is not the one that belongs to its fingerprint
const WRONG_TYPE: u64 = 5_000_000;

fn build(b: &Base, sites: &[Site]) -> Vec<u8> {
    use wasm_encoder as we;
    let mut m = we::Module::new();
    let mut types = we::TypeSection::new();
    // three structurally equal function types: the *type index* of a function import / base function is part of
    // its identity (fingerprint fp <-> type fp % 3), while every call site validates whatever index is emitted
    types.ty().function([], []); types.ty().function([], []); types.ty().function([], []);
    m.section(&types);
    let ntab_imp = b.imports.iter().filter(|x| x.0 == 3).count() as u32;
    if !b.imports.is_empty() {
        let mut is = we::ImportSection::new();
        for (k, fp) in &b.imports {
            let name = format!("i{fp}");
            match k {
                0 => { is.import("env", &name, we::EntityType::Function(fn_ty(*fp))); }
                1 => { is.import("env", &name, we::EntityType::Global(we::GlobalType { val_type: we::ValType::I32, mutable: false, shared: false })); }
                2 => { is.import("env", &name, we::EntityType::Memory(we::MemoryType { minimum: 1, maximum: None, memory64: false, shared: false, page_size_log2: None })); }
                3 => { is.import("env", &name, we::EntityType::Table(we::TableType { element_type: we::RefType::FUNCREF, table64: false, minimum: 0, maximum: None, shared: false })); }
                _ => { is.import("env", &name, we::EntityType::Tag(we::TagType { kind: we::TagKind::Exception, func_type_idx: 0 })); }
            }
        }
        m.section(&is);
    }
    let mut fs = we::FunctionSection::new();
    for fp in &b.funcs { fs.function(fn_ty(*fp)); }
    m.section(&fs);
    let mut ts = we::TableSection::new();
    let tty = we::TableType { element_type: we::RefType::FUNCREF, table64: false, minimum: 64, maximum: None, shared: false };
    match b.table_init { Some(n) => { ts.table_with_init(tty, &we::ConstExpr::ref_func(sites[n].id as u32)); } None => { ts.table(tty); } }
    m.section(&ts);
    if !b.mems.is_empty() {
        let mut ms = we::MemorySection::new();
        for fp in &b.mems { ms.memory(we::MemoryType { minimum: *fp, maximum: None, memory64: false, shared: false, page_size_log2: None }); }
        m.section(&ms);
    }
    if !b.globals.is_empty() {
        let mut gs = we::GlobalSection::new();
        for (fp, init) in &b.globals {
            match init {
                None => { gs.global(we::GlobalType { val_type: we::ValType::I32, mutable: false, shared: false }, &we::ConstExpr::i32_const(*fp as i32)); }
                Some((Sp::G, id)) => { gs.global(we::GlobalType { val_type: we::ValType::I32, mutable: false, shared: false }, &we::ConstExpr::global_get(*id as u32)); }
                Some((_, id)) => { gs.global(we::GlobalType { val_type: we::ValType::FUNCREF, mutable: false, shared: false }, &we::ConstExpr::ref_func(*id as u32)); }
            }
        }
        m.section(&gs);
    }
    if !b.exports.is_empty() {
        let mut es = we::ExportSection::new();
        for n in &b.exports {
            let s = &sites[*n];
            let kind = match s.sp { Sp::F => we::ExportKind::Func, Sp::G => we::ExportKind::Global, Sp::M => we::ExportKind::Memory };
            es.export(&format!("e{n}"), kind, s.id as u32);
        }
        m.section(&es);
    }
    if let Some(n) = b.start { m.section(&we::StartSection { function_index: sites[n].id as u32 }); }
    if !b.elem_fn.is_empty() || !b.elem_expr.is_empty() || b.elem_off.is_some() {
        let mut es = we::ElementSection::new();
        for seg in &b.elem_fn {
            let ids: Vec<u32> = seg.iter().map(|n| sites[*n].id as u32).collect();
            es.active(Some(ntab_imp), &we::ConstExpr::i32_const(0), we::Elements::Functions(ids.into()));
        }
        for seg in &b.elem_expr {
            let ex: Vec<we::ConstExpr> = seg.iter().map(|n| we::ConstExpr::ref_func(sites[*n].id as u32)).collect();
            es.active(Some(ntab_imp), &we::ConstExpr::i32_const(32), we::Elements::Expressions(we::RefType::FUNCREF, ex.into()));
        }
        // an empty active segment whose offset is `global.get g` (g: an immutable i32 global, imported or plain local)
        if let Some(n) = b.elem_off { es.active(Some(ntab_imp), &we::ConstExpr::global_get(sites[n].id as u32), we::Elements::Functions(Vec::<u32>::new().into())); }
        m.section(&es);
    }
    let mut code = we::CodeSection::new();
    for (i, fp) in b.funcs.iter().enumerate() {
        let mut f = we::Function::new([]);
        f.instruction(&we::Instruction::I32Const(*fp as i32));
        f.instruction(&we::Instruction::Drop);
        if i + 1 == b.funcs.len() { for n in &b.probe_sites { code_site_enc(&mut f, *n, &sites[*n]); } }
        f.instruction(&we::Instruction::End);
        code.function(&f);
    }
    m.section(&code);
    if !b.data.is_empty() {
        let mut ds = we::DataSection::new();
        for (nm, noff) in &b.data {
            let mut bytes = (*nm as u32).to_le_bytes().to_vec();
            bytes.extend_from_slice(&(noff.map(|x| x as u32).unwrap_or(u32::MAX)).to_le_bytes());
            let off = match noff { None => we::ConstExpr::i32_const(0), Some(n) => we::ConstExpr::global_get(sites[*n].id as u32) };
            ds.active(sites[*nm].id as u32, &off, bytes);
        }
        m.section(&ds);
    }
    m.finish()
}

struct Dec { imports: Vec<(u64, u64)>, funcs: Vec<u64>, globals: Vec<u64>, mems: Vec<u64>, sites: Vec<(u64, u64)> }

/// `elem_sites`: site numbers of the element items in segment order; `init_sites`: site numbers of the live
/// initialiser references in creation order of their globals, per flavour (getter, ref.func)
fn decode(out: &[u8], elem_sites: &[usize], start_site: Option<usize>, init_get: &[usize], init_ref: &[usize], elem_off: Option<usize>, table_init: Option<usize>, base_funcs: &[u64], typed_built: &[(u64, u32)]) -> Option<Dec> {
    let mut d = Dec { imports: vec![], funcs: vec![], globals: vec![], mems: vec![], sites: vec![] };
    let mut fn_types: Vec<u32> = vec![];
    let mut elem_seen = 0usize; let mut nget = 0usize; let mut nref = 0usize;
    for p in wasmparser::Parser::new(0).parse_all(out) {
        match p.ok()? {
            wasmparser::Payload::ImportSection(r) => for i in r {
                let i = i.ok()?;
                let fp: u64 = i.name[1..].parse().ok()?;
                let k = match i.ty { wasmparser::TypeRef::Func(_) => 0, wasmparser::TypeRef::Global(_) => 1, wasmparser::TypeRef::Memory(_) => 2, wasmparser::TypeRef::Table(_) => 3, wasmparser::TypeRef::Tag(_) => 4 };
                // a function import carries the type it was given (parsed / add_import_func / convert_local_fn_to_import)
                let fp = match i.ty { wasmparser::TypeRef::Func(t) if t != fn_ty(fp) => fp + WRONG_TYPE, _ => fp };
                d.imports.push((k, fp));
            },
            wasmparser::Payload::GlobalSection(r) => for g in r {
                let g = g.ok()?;
                let mut rd = g.init_expr.get_operators_reader();
                match rd.read().ok()? {
                    Operator::I32Const { value } => d.globals.push(value as u32 as u64),
                    Operator::GlobalGet { global_index } => { d.globals.push(FP_GETTER); if let Some(n) = init_get.get(nget) { d.sites.push((*n as u64, global_index as u64)); } else { d.sites.push((999999, 0)); } nget += 1; }
                    Operator::RefFunc { function_index } => { d.globals.push(FP_REFFUNC); if let Some(n) = init_ref.get(nref) { d.sites.push((*n as u64, function_index as u64)); } else { d.sites.push((999999, 0)); } nref += 1; }
                    _ => d.globals.push(777777),
                }
            },
            wasmparser::Payload::MemorySection(r) => for mm in r { d.mems.push(mm.ok()?.initial); },
            wasmparser::Payload::TableSection(r) => for t in r {
                if let wasmparser::TableInit::Expr(ex) = t.ok()?.init {
                    let mut rd = ex.get_operators_reader();
                    let q = if let Operator::RefFunc { function_index } = rd.read().ok()? { function_index as u64 } else { 888888 };
                    d.sites.push((table_init.map(|n| n as u64).unwrap_or(999999), q));
                }
            },
            wasmparser::Payload::ExportSection(r) => for e in r {
                let e = e.ok()?;
                if let Some(n) = e.name.strip_prefix('e').and_then(|x| x.parse::<u64>().ok()) { d.sites.push((n, e.index as u64)); }
            },
            wasmparser::Payload::StartSection { func, .. } => { if let Some(n) = start_site { d.sites.push((n as u64, func as u64)); } }
            wasmparser::Payload::ElementSection(r) => for e in r {
                let e = e.ok()?;
                if let wasmparser::ElementKind::Active { offset_expr, .. } = &e.kind {
                    let mut rd = offset_expr.get_operators_reader();
                    if let Operator::GlobalGet { global_index } = rd.read().ok()? { d.sites.push((elem_off.map(|n| n as u64).unwrap_or(999999), global_index as u64)); }
                }
                let mut push = |q: u64, d: &mut Dec| { match elem_sites.get(elem_seen) { Some(n) => d.sites.push((*n as u64, q)), None => d.sites.push((999999, q)) } elem_seen += 1; };
                match e.items {
                    wasmparser::ElementItems::Functions(fr) => for f in fr { push(f.ok()? as u64, &mut d); },
                    wasmparser::ElementItems::Expressions(_, er) => for ex in er {
                        let ex = ex.ok()?;
                        let mut rd = ex.get_operators_reader();
                        if let Operator::RefFunc { function_index } = rd.read().ok()? { push(function_index as u64, &mut d); } else { push(888888, &mut d); }
                    },
                }
            },
            wasmparser::Payload::DataSection(r) => for s in r {
                let s = s.ok()?;
                if let wasmparser::DataKind::Active { memory_index, offset_expr } = s.kind {
                    if s.data.len() >= 8 {
                        let nm = u32::from_le_bytes([s.data[0], s.data[1], s.data[2], s.data[3]]) as u64;
                        let noff = u32::from_le_bytes([s.data[4], s.data[5], s.data[6], s.data[7]]);
                        d.sites.push((nm, memory_index as u64));
                        let mut rd = offset_expr.get_operators_reader();
                        if let Operator::GlobalGet { global_index } = rd.read().ok()? { if noff != u32::MAX { d.sites.push((noff as u64, global_index as u64)); } }
                    }
                }
            },
            wasmparser::Payload::FunctionSection(r) => for t in r { fn_types.push(t.ok()?); },
            wasmparser::Payload::CodeSectionEntry(b) => {
                let mut ops = vec![];
                let mut rd = b.get_operators_reader().ok()?;
                while !rd.eof() { ops.push(rd.read().ok()?); }
                let mut fp = 0u64;
                let mut i = 0;
                while i < ops.len() {
                    if let Operator::I32Const { value } = ops[i] {
                        let v = value as u32 as u64;
                        if v >= MARK && v < MARK + 50000 {
                            let n = v - MARK;
                            let mut j = i + 1;
                            let mut found = None;
                            while j < ops.len() {
                                let q = match &ops[j] {
                                    Operator::Call { function_index } | Operator::ReturnCall { function_index } => Some(*function_index as u64),
                                    Operator::GlobalGet { global_index } => Some(*global_index as u64),
                                    Operator::I32Load { memarg } | Operator::I32Load8U { memarg } | Operator::I64Store { memarg } | Operator::I32Store8 { memarg }
                                    | Operator::V128Load { memarg } | Operator::I32AtomicLoad { memarg } | Operator::I64AtomicLoad { memarg }
                                    | Operator::I32AtomicRmwAdd { memarg } | Operator::I64AtomicRmw16CmpxchgU { memarg } => Some(memarg.memory as u64),
                                    Operator::MemorySize { mem } | Operator::MemoryGrow { mem } | Operator::MemoryFill { mem } => Some(*mem as u64),
                                    Operator::MemoryCopy { dst_mem, src_mem } => { d.sites.push((n + 1, *src_mem as u64)); Some(*dst_mem as u64) }
                                    Operator::I32Const { value } if (*value as u32 as u64) >= MARK => { break; }
                                    _ => None,
                                };
                                if q.is_some() { found = q; break; }
                                j += 1;
                            }
                            d.sites.push((n, found.unwrap_or(444444)));
                            i = j;
                        } else if fp == 0 && value > 0 { fp = v; }
                    }
                    i += 1;
                }
                // a function of the input keeps its type index (a built function has whichever of the equal types the
                // builder's deduplication returns)
                let ty = fn_types.get(d.funcs.len()).copied();
                if base_funcs.contains(&fp) && ty != Some(fn_ty(fp)) { fp += WRONG_TYPE; }
                // a function that replaced an import has the type the import was declared with
                else if let Some((_, t)) = typed_built.iter().find(|(f, _)| *f == fp) { if ty != Some(*t) { fp += WRONG_TYPE; } }
                d.funcs.push(fp);
            }
            _ => {}
        }
    }
    d.sites.sort();
    Some(d)
}

const EXH_BASE: u64 = 1 << 40;
const EXH_ALPHABET: usize = 16;
fn exh_op(k: usize, fpc: &mut u64) -> HOp {
    let mut nfp = || { *fpc += 1; *fpc };
    match k {
        0 => HOp::AddLocal(Sp::F, nfp()), 1 => HOp::AddImport(Sp::F, nfp()),
        2 => HOp::Delete(Sp::F, 0), 3 => HOp::Delete(Sp::F, 2), 4 => HOp::Delete(Sp::F, 3),
        5 => HOp::LocalToImport(2, nfp()), 6 => HOp::LocalToImport(3, nfp()),
        7 => HOp::ImportToLocal(0, nfp()), 8 => HOp::ImportToLocal(2, nfp()),
        9 => HOp::AddLocal(Sp::G, nfp()), 10 => HOp::AddImport(Sp::G, nfp()),
        11 => HOp::Delete(Sp::G, 0), 12 => HOp::Delete(Sp::G, 1),
        13 => HOp::ItAddGlobal(nfp()), 14 => HOp::AddImport(Sp::M, nfp()), _ => HOp::Delete(Sp::M, 0),
    }
}
/// all histories of length 0..=3 over the 16-letter alphabet: 1 + 16 + 256 + 4096
fn exh_count() -> u64 { 1 + 16 + 256 + 4096 }
fn exh_history(mut k: u64, fpc: &mut u64) -> Vec<HOp> {
    let a = EXH_ALPHABET as u64;
    let mut len = 0;
    let mut block = 1u64;
    while k >= block { k -= block; block *= a; len += 1; }
    let mut v = vec![];
    for _ in 0..len { v.push((k % a) as usize); k /= a; }
    v.iter().map(|x| exh_op(*x, fpc)).collect()
}

fn main() {
    let mut args = parse_args();
    if args.flags.iter().any(|f| f == "--exhaustive") && args.only.is_none() {
        for k in 0..exh_count() { args.extra.push((args.seed, EXH_BASE + k)); }
    }
    // C05's verdict (model of the second encode) lives in Check/CheckReidx2.v
    let header_s = format!("From Coq Require Import List NArith.\nImport ListNotations.\nFrom Orca Require Import Reindex CheckReidx{}.\nOpen Scope N_scope.", if args.prop == "C05" { " CheckReidx2" } else { "" });
    let header = header_s.as_str();
    let footer = format!("Eval vm_compute in (report_{} cases).", args.prop);
    let prop = args.prop.clone();
    run_shards(&args, header, if args.prop == "C05" { "rcase2" } else { "rcase" }, &footer, |seed, idx| {
        let mut r = Rng::for_case(seed, idx);
        gen_case(&mut r, &prop, seed, idx)
    });
}

fn gen_case(r: &mut Rng, prop: &str, seed: u64, idx: u64) -> Case {
    let mut fpc = 0u64;
    let mut nfp = |fpc: &mut u64| { *fpc += 1; *fpc };
    let mut base = Base { imports: vec![], funcs: vec![], globals: vec![], mems: vec![], exports: vec![], start: None, elem_fn: vec![], elem_expr: vec![], data: vec![], probe_sites: vec![], elem_off: None, table_init: None };
    let exhaustive = idx >= EXH_BASE;
    if exhaustive {
        // fixed base of the bounded-exhaustive enumeration: imports [func, global, func], locals f4 f5 probe, one global, one memory
        base.imports = vec![(0, 1), (1, 2), (0, 3)];
        base.funcs = vec![4, 5, PROBE_FP];
        base.globals = vec![(6, None)];
        base.mems = vec![7];
        fpc = 7;
    } else {
    for _ in 0..r.below(6) { let k = match r.below(10) { 0 | 1 | 2 => 0, 3 | 4 => 1, 5 | 6 => 2, 7 => 3, 8 => 4, _ => 0 }; let fp = nfp(&mut fpc); base.imports.push((k, fp)); }
    for _ in 0..r.below(4) { let fp = nfp(&mut fpc); base.funcs.push(fp); }
    base.funcs.push(PROBE_FP);
    for _ in 0..r.below(3) { let fp = nfp(&mut fpc); base.globals.push((fp, None)); }
    for _ in 0..r.below(3) { let fp = nfp(&mut fpc); base.mems.push(fp); }
    }
    let cnt = |k: u64| base.imports.iter().filter(|x| x.0 == k).count() as u64;
    let nimp = [cnt(0), cnt(1), cnt(2)];
    let mut len = [nimp[0] + base.funcs.len() as u64, nimp[1] + base.globals.len() as u64, nimp[2] + base.mems.len() as u64];
    let probe_id = len[0] - 1;
    let mut sites: Vec<Site> = vec![];
    // ---- base sites ----
    // C05: a third of the cases lean towards memories (active data segments follow their memory), a third towards globals
    let c05_bias = if prop == "C05" { r.below(3) } else { 9 };
    let pick_sp = |r: &mut Rng| match prop { "C05" if c05_bias == 0 => if r.chance(2, 3) { Sp::M } else { Sp::F }, "C05" if c05_bias == 1 => if r.chance(2, 3) { Sp::G } else { Sp::F },
                                             "C07" => if r.chance(2, 3) { Sp::G } else { Sp::F }, "C08" => if r.chance(2, 3) { Sp::M } else { Sp::F }, _ => match r.below(4) { 0 | 1 => Sp::F, 2 => Sp::G, _ => Sp::M } };
    // initialiser references (getter globals need an imported global; ref.func globals any function)
    let mut init_owner_ids: Vec<(u64, usize, bool)> = vec![]; // (global id, site, is_getter)
    if nimp[1] > 0 && r.chance(1, 2) {
        let g = r.below(nimp[1]);
        base.globals.push((FP_GETTER, Some((Sp::G, g)))); len[1] += 1;
        sites.push(Site { k: Rk::Init, sp: Sp::G, id: g, owner: Owner::Global(len[1] - 1), flavour: 0, flavour2: 0 });
        init_owner_ids.push((len[1] - 1, sites.len() - 1, true));
    }
    if r.chance(1, 3) {
        let f = r.below(len[0]);
        base.globals.push((FP_REFFUNC, Some((Sp::F, f)))); len[1] += 1;
        sites.push(Site { k: Rk::Init, sp: Sp::F, id: f, owner: Owner::Global(len[1] - 1), flavour: 0, flavour2: 0 });
        init_owner_ids.push((len[1] - 1, sites.len() - 1, false));
    }
    // exports
    let mut nexports = 0u64;
    for _ in 0..r.below(4) {
        let sp = pick_sp(r);
        if len[sp.code()] == 0 { continue; }
        sites.push(Site { k: Rk::Export, sp, id: r.below(len[sp.code()]), owner: Owner::Export(nexports), flavour: 0, flavour2: 0 });
        base.exports.push(sites.len() - 1); nexports += 1;
    }
    if r.chance(1, 3) { sites.push(Site { k: Rk::Start, sp: Sp::F, id: r.below(len[0]), owner: Owner::None, flavour: 0, flavour2: 0 }); base.start = Some(sites.len() - 1); }
    let mut elem_sites = vec![];
    for _ in 0..r.below(3) {
        let mut seg = vec![];
        for _ in 0..1 + r.below(3) { sites.push(Site { k: Rk::ElemFn, sp: Sp::F, id: r.below(len[0]), owner: Owner::None, flavour: 0, flavour2: 0 }); seg.push(sites.len() - 1); }
        elem_sites.extend(seg.iter().cloned()); base.elem_fn.push(seg);
    }
    if r.chance(1, 4) {
        let mut seg = vec![];
        for _ in 0..1 + r.below(2) { sites.push(Site { k: Rk::ElemExpr, sp: Sp::F, id: r.below(len[0]), owner: Owner::None, flavour: 0, flavour2: 0 }); seg.push(sites.len() - 1); }
        elem_sites.extend(seg.iter().cloned()); base.elem_expr.push(seg);
    }
    // constant expressions the IR keeps as parsed: the offset of an active element segment, a table initialiser
    // (the offset may name an imported global or a plain local one - immutable i32, `i32.const` initialiser -: with the GC
    // rules the validator accepts `global.get` of any immutable global there; local ones move whenever an import is added)
    let noff_globals = nimp[1] + base.globals.iter().filter(|g| g.1.is_none()).count() as u64;
    if noff_globals > 0 && r.chance(1, 3) { sites.push(Site { k: Rk::ElemOff, sp: Sp::G, id: r.below(noff_globals), owner: Owner::None, flavour: 0, flavour2: 0 }); base.elem_off = Some(sites.len() - 1); }
    if r.chance(1, 3) { sites.push(Site { k: Rk::TableInit, sp: Sp::F, id: r.below(len[0]), owner: Owner::None, flavour: 0, flavour2: 0 }); base.table_init = Some(sites.len() - 1); }
    if len[2] > 0 {
        for _ in 0..(if c05_bias == 0 { 1 + r.below(3) } else { r.below(3) }) {
            sites.push(Site { k: Rk::DataMem, sp: Sp::M, id: r.below(len[2]), owner: Owner::None, flavour: 0, flavour2: 0 });
            let nm = sites.len() - 1;
            let noff = if nimp[1] > 0 && r.chance(1, 3) { sites.push(Site { k: Rk::DataOff, sp: Sp::G, id: r.below(nimp[1]), owner: Owner::None, flavour: 0, flavour2: 0 }); Some(sites.len() - 1) } else { None };
            base.data.push((nm, noff));
        }
    }
    // original code of the probe function
    for _ in 0..r.below(5) {
        let sp = pick_sp(r);
        if len[sp.code()] == 0 { continue; }
        sites.push(Site { k: Rk::Code, sp, id: r.below(len[sp.code()]), owner: Owner::Func(probe_id), flavour: r.below(4), flavour2: 0 });
        base.probe_sites.push(sites.len() - 1);
    }
    let bytes = build(&base, &sites);
    let base_valid = validates(&bytes);
    let n_base_sites = sites.len();

    // ---- history (executed while it is generated, so that returned ids can be used) ----
    let mut hist: Vec<HOp> = vec![];
    let mut rets: Vec<Option<u64>> = vec![];
    let mut api_panic = false;
    // harness-side view of the handles: ids known per space, deleted flags
    let mut known: [Vec<u64>; 3] = [(0..len[0]).collect(), (0..len[1]).collect(), (0..len[2]).collect()];
    let mut deleted: [Vec<u64>; 3] = [vec![], vec![], vec![]];
    let mut nimports_total = base.imports.len() as u64;
    // a function that replaces an import keeps the import's declared type index: (fingerprint of the built function, type index)
    let mut typed_built: Vec<(u64, u32)> = vec![];
    let typed_built_cell = std::cell::RefCell::new(&mut typed_built);
    let mut dead_globals: Vec<u64> = vec![];
    let res = catch_unwind(AssertUnwindSafe(|| {
        let mut module = Module::parse(&bytes, true).expect("parse");
        let script: Option<Vec<HOp>> = if exhaustive { let mut f2 = 1000u64; Some(exh_history(idx - EXH_BASE, &mut f2)) } else { None };
        let nops = match (&script, prop) { (Some(sc), _) => sc.len() as u64, (None, "C05") => r.below(5), _ => r.below(8) };
        let mut forced = match prop { "C10" => Some(8u64), "C11" => Some(6), "C09" => Some(4), _ => None };
        if exhaustive { forced = None; }
        // C09: in a quarter of the cases the history starts with a small campaign -- two parsed imports of one kind deleted (the
        // first and a later one), then an import of that kind added: the insertion cursor of reorganise_generic must have followed
        // both deletions
        let mut queue: Vec<HOp> = vec![];
        if prop == "C09" && !exhaustive && r.chance(1, 4) {
            let cands: Vec<Sp> = [Sp::F, Sp::G, Sp::M].into_iter().filter(|s| nimp[s.code()] >= 2).collect();
            if !cands.is_empty() {
                let s = *r.pick(&cands);
                let n = nimp[s.code()];
                let b = 1 + r.below(n - 1);
                if !(s == Sp::F && (probe_id == 0 || probe_id == b)) {
                    queue.push(HOp::Delete(s, 0)); queue.push(HOp::Delete(s, b)); queue.push(HOp::AddImport(s, nfp(&mut fpc)));
                    forced = None;
                }
            }
        }
        // C06 / C10: now and then an original function import is replaced by a built function, that function is deleted, and an
        // import is added afterwards (the deleted slot lies in the region of the parsed imports but is no import any more)
        if (prop == "C06" || prop == "C10") && !exhaustive && queue.is_empty() && r.chance(1, 6) {
            let fimps: Vec<usize> = base.imports.iter().enumerate().filter(|(_, x)| x.0 == 0).map(|(k, _)| k).collect();
            if !fimps.is_empty() {
                let k = *r.pick(&fimps);
                let fid = fimps.iter().position(|x| *x == k).unwrap() as u64;
                if fid != probe_id {
                    queue.push(HOp::ImportToLocal(k as u64, nfp(&mut fpc))); queue.push(HOp::Delete(Sp::F, fid)); queue.push(HOp::AddImport(Sp::F, nfp(&mut fpc)));
                    forced = None;
                }
            }
        }
        let nops = nops.max(queue.len() as u64);
        for opn in 0..nops {
            let sp = pick_sp(r); let si = sp.code();
            let pick = |r: &mut Rng, v: &Vec<u64>, del: &Vec<u64>| -> Option<u64> {
                if v.is_empty() { return None; }
                let live: Vec<u64> = v.iter().cloned().filter(|x| !del.contains(x)).collect();
                if !live.is_empty() && !r.chance(1, 12) { Some(*r.pick(&live)) } else { Some(*r.pick(v)) }
            };
            let choice = forced.take().unwrap_or_else(|| r.below(14));
            let op = if let Some(sc) = &script { sc[opn as usize].clone() } else if !queue.is_empty() { queue.remove(0) } else { match choice {
                0 | 1 => HOp::AddLocal(sp, nfp(&mut fpc)),
                2 | 3 => HOp::AddImport(sp, nfp(&mut fpc)),
                4 | 5 => { match pick(r, &known[si], &deleted[si]) { Some(id) if !(sp == Sp::F && id == probe_id) => HOp::Delete(sp, id), _ => continue } }
                6 | 7 => { match pick(r, &known[0], &deleted[0]) { Some(id) if id != probe_id => HOp::LocalToImport(id, nfp(&mut fpc)), _ => continue } }
                8 | 9 => { if nimports_total == 0 { continue; } let k = r.below(nimports_total); if k == probe_id { continue; } HOp::ImportToLocal(k, nfp(&mut fpc)) }
                10 => HOp::ItAddGlobal(nfp(&mut fpc)),
                11 => { if sp == Sp::G { continue; } match pick(r, &known[si], &deleted[si]) { Some(id) => HOp::AddExport(sp, id), None => continue } }
                12 => { if nexports == 0 { continue; } HOp::DeleteExport(r.below(nexports)) }
                _ => { match pick(r, &known[2], &deleted[2]) { Some(id) => HOp::AddData(id), None => continue } }
            } };
            hist.push(op.clone());
            // sites carried by built bodies
            let mut body_sites: Vec<Site> = vec![];
            if matches!(op, HOp::AddLocal(Sp::F, _) | HOp::ImportToLocal(..)) {
                for _ in 0..r.below(3) {
                    let s2 = pick_sp(r);
                    if let Some(id) = pick(r, &known[s2.code()], &deleted[s2.code()]) {
                        let fl = r.below(11);
                        if s2 == Sp::M && fl == 4 {
                            let src = pick(r, &known[2], &deleted[2]).unwrap_or(id);
                            body_sites.push(Site { k: Rk::Code, sp: s2, id, owner: Owner::None, flavour: 4, flavour2: src });
                            body_sites.push(Site { k: Rk::Code, sp: s2, id: src, owner: Owner::None, flavour: 100, flavour2: 0 });
                        } else { body_sites.push(Site { k: Rk::Code, sp: s2, id, owner: Owner::None, flavour: fl, flavour2: 0 }); }
                    }
                }
            }
            let first_site = sites.len();
            // replace_import_in_module resolves the function through the import (the function whose kind is Import with
            // this ImportsID) and silently refuses when no function is that import any more
            let i2l_fid: Option<u64> = if let HOp::ImportToLocal(k, _) = &op {
                module.functions.iter().position(|f| matches!(f.kind(), FuncKind::Import(i) if i.import_id.0 as u64 == *k)).map(|p| p as u64)
            } else { None };
            let rres = catch_unwind(AssertUnwindSafe(|| -> Option<u64> {
                match &op {
                    HOp::AddLocal(Sp::F, fp) => {
                        let mut fb = FunctionBuilder::new(&[], &[]);
                        fb.i32_const(*fp as i32); fb.drop();
                        for (j, s) in body_sites.iter().enumerate() { for o in code_site_ops(first_site + j, s) { fb.inject(o); } }
                        Some(*fb.finish_module(&mut module) as u64)
                    }
                    HOp::AddLocal(Sp::G, fp) => Some(*module.add_global(InitExpr::new(vec![InitInstr::Value(Value::I32(*fp as i32))]), DataType::I32, false, false) as u64),
                    HOp::AddLocal(Sp::M, fp) => Some(*module.add_local_memory(memty(*fp)) as u64),
                    HOp::AddImport(Sp::F, fp) => Some(*module.add_import_func("env".into(), format!("i{fp}"), TypeID(fn_ty(*fp))).0 as u64),
                    HOp::AddImport(Sp::G, fp) => Some(*module.add_imported_global("env".into(), format!("i{fp}"), DataType::I32, false, false).0 as u64),
                    HOp::AddImport(Sp::M, fp) => Some(*module.add_import_memory("env".into(), format!("i{fp}"), memty(1)).0 as u64),
                    HOp::Delete(Sp::F, id) => { module.delete_func(FunctionID(*id as u32)); None }
                    HOp::Delete(Sp::G, id) => { module.delete_global(GlobalID(*id as u32)); None }
                    HOp::Delete(Sp::M, id) => { module.delete_memory(MemoryID(*id as u32)); None }
                    HOp::LocalToImport(id, fp) => { module.convert_local_fn_to_import(FunctionID(*id as u32), "env".into(), format!("i{fp}"), TypeID(fn_ty(*fp))); None }
                    HOp::ImportToLocal(k, fp) => {
                        if let Some(imp) = module.imports.iter().nth(*k as usize) { if let wasmparser::TypeRef::Func(t) = imp.ty { typed_built_cell.borrow_mut().push((*fp, t)); } }
                        let mut fb = FunctionBuilder::new(&[], &[]);
                        fb.i32_const(*fp as i32); fb.drop();
                        for (j, s) in body_sites.iter().enumerate() { for o in code_site_ops(first_site + j, s) { fb.inject(o); } }
                        fb.replace_import_in_module(&mut module, ImportsID(*k as u32)); None
                    }
                    HOp::ItAddGlobal(fp) => {
                        let mut it = ModuleIterator::new(&mut module, &vec![]);
                        Some(*it.add_global(Global::new(GlobalKind::Local(LocalGlobal { global_id: GlobalID(0), ty: wasmparser::GlobalType { content_type: wasmparser::ValType::I32, mutable: false, shared: false }, init_expr: InitExpr::new(vec![InitInstr::Value(Value::I32(*fp as i32))]) }), None)) as u64)
                    }
                    HOp::AddExport(Sp::F, id) => { module.exports.add_export_func(format!("e{first_site}"), *id as u32, None); None }
                    HOp::AddExport(_, id) => { module.exports.add_export_mem(format!("e{first_site}"), *id as u32, None); None }
                    HOp::DeleteExport(k) => { module.exports.delete(ExportsID(*k as u32)); None }
                    HOp::AddData(mem) => {
                        let mut bytes = (first_site as u32).to_le_bytes().to_vec(); bytes.extend_from_slice(&u32::MAX.to_le_bytes());
                        module.add_data(DataSegment { kind: DataSegmentKind::Active { memory_index: *mem as u32, offset_expr: InitExpr::new(vec![InitInstr::Value(Value::I32(0))]) }, data: bytes, tag: None });
                        None
                    }
                }
            }));
            match rres {
                Err(_) => { api_panic = true; break; }
                Ok(ret) => {
                    rets.push(ret);
                    match &op {
                        HOp::AddLocal(s, _) | HOp::AddImport(s, _) => { if let Some(id) = ret { if !known[s.code()].contains(&id) { known[s.code()].push(id); } } if matches!(op, HOp::AddImport(..)) { nimports_total += 1; } }
                        HOp::ItAddGlobal(_) => { if let Some(id) = ret { if !known[1].contains(&id) { known[1].push(id); } } }
                        HOp::Delete(s, id) => {
                            deleted[s.code()].push(*id);
                            if *s == Sp::G { dead_globals.push(*id); }
                            // the body / initialiser that carried these sites is gone for good
                            for st in sites.iter_mut() { match (st.owner, *s) { (Owner::Func(o), Sp::F) if o == *id => st.owner = Owner::Func(999999), (Owner::Global(o), Sp::G) if o == *id => st.owner = Owner::Global(999999), _ => {} } }
                        }
                        HOp::LocalToImport(id, _) => {
                            nimports_total += 1; deleted[0].retain(|x| x != id);
                            for st in sites.iter_mut() { if let Owner::Func(o) = st.owner { if o == *id { st.owner = Owner::Func(999999); } } }
                        }
                        HOp::AddExport(s, id) => { sites.push(Site { k: Rk::Export, sp: *s, id: *id, owner: Owner::Export(nexports), flavour: 0, flavour2: 0 }); nexports += 1; }
                        HOp::AddData(mem) => { sites.push(Site { k: Rk::DataMem, sp: Sp::M, id: *mem, owner: Owner::None, flavour: 0, flavour2: 0 }); }
                        _ => {}
                    }
                    if matches!(op, HOp::AddLocal(Sp::F, _)) { if let Some(id) = ret { for mut s in body_sites { s.owner = Owner::Func(id); sites.push(s); } } }
                    else if let HOp::ImportToLocal(..) = &op {
                        // the owner recorded is the id of the function that was this import: the body is stored under it
                        if let Some(fid) = i2l_fid { for mut s in body_sites { s.owner = Owner::Func(fid); sites.push(s); } }
                    }
                }
            }
        }
        if api_panic { return None; }
        // injected references in the probe function
        let first_injected = sites.len();
        for _ in 0..1 + r.below(6) {
            let sp = pick_sp(r);
            if let Some(id) = pick_any(r, &known[sp.code()], &deleted[sp.code()]) {
                let fl = if sp == Sp::M && prop == "C08" && r.chance(1, 3) { 4 } else { r.below(11) };
                if sp == Sp::M && fl == 4 {
                    let src = pick_any(r, &known[2], &deleted[2]).unwrap_or(id);
                    sites.push(Site { k: Rk::Code, sp, id, owner: Owner::Func(probe_id), flavour: 4, flavour2: src });
                    sites.push(Site { k: Rk::Code, sp, id: src, owner: Owner::Func(probe_id), flavour: 100, flavour2: 0 });
                } else { sites.push(Site { k: Rk::Code, sp, id, owner: Owner::Func(probe_id), flavour: fl, flavour2: 0 }); }
            }
        }
        // half of the cases: the second half of the injected references goes in front of the probe function's FINAL end
        // (the before-list of the last instruction takes its own path through the encoder)
        let split = if r.chance(1, 2) { first_injected + (sites.len() - first_injected) / 2 } else { sites.len() };
        let enc = catch_unwind(AssertUnwindSafe(|| {
            {
                let mut fm = module.functions.get_fn_modifier(FunctionID(probe_id as u32)).unwrap();
                let last = fm.body.instructions.len() - 1;
                fm.before_at(Location::Module { func_idx: FunctionID(0), instr_idx: 0 });
                for n in first_injected..split { for o in code_site_ops(n, &sites[n]) { fm.inject(o); } }
                if split < sites.len() {
                    fm.before_at(Location::Module { func_idx: FunctionID(0), instr_idx: last });
                    for n in split..sites.len() { for o in code_site_ops(n, &sites[n]) { fm.inject(o); } }
                }
            }
            let a = module.encode();
            let b = catch_unwind(AssertUnwindSafe(|| module.encode())).ok();
            let same = b.as_deref() == Some(&a[..]);
            (a, same, b)
        }));
        enc.ok()
    }));
    let enc: Option<(Vec<u8>, bool, Option<Vec<u8>>)> = match res { Ok(x) => x, Err(_) => { api_panic = true; None } };
    let live_init = |getter: bool| -> Vec<usize> { init_owner_ids.iter().filter(|(g, _, ig)| *ig == getter && !dead_globals.contains(g)).map(|(_, s, _)| *s).collect() };
    let (dec, valid, same2) = match &enc {
        Some((out, same, _)) => (decode(out, &elem_sites, base.start, &live_init(true), &live_init(false), base.elem_off, base.table_init, &base.funcs, &typed_built), validates(out), *same),
        None => (None, false, true),
    };
    // what the SECOND encode() emitted (C05): None = it panicked (or the first one did)
    let dec2: Option<Option<Dec>> = match &enc {
        Some((_, _, Some(out2))) => Some(decode(out2, &elem_sites, base.start, &live_init(true), &live_init(false), base.elem_off, base.table_init, &base.funcs, &typed_built)),
        _ => None,
    };
    let undecodable = enc.is_some() && dec.is_none();
    let l = |v: &Vec<u64>| format!("[{}]", v.iter().map(|x| x.to_string()).collect::<Vec<_>>().join("; "));
    let pairs = |v: &Vec<(u64, u64)>| format!("[{}]", v.iter().map(|(a, b)| format!("({a}, {b})")).collect::<Vec<_>>().join("; "));
    let enc_s = match &dec {
        Some(d) => format!("(Some (mkE {} {} {} {} {}))", pairs(&d.imports), l(&d.funcs), l(&d.globals), l(&d.mems), pairs(&d.sites)),
        None => if undecodable { "(Some (mkE [] [] [] [] [(999999, 999999)]))".to_string() } else { "None".to_string() },
    };
    let enc2_s = match &dec2 {
        Some(Some(d)) => format!("(Some (mkE {} {} {} {} {}))", pairs(&d.imports), l(&d.funcs), l(&d.globals), l(&d.mems), pairs(&d.sites)),
        Some(None) => "(Some (mkE [] [] [] [] [(999999, 999999)]))".to_string(),
        None => "None".to_string(),
    };
    let sites_s = sites.iter().map(|s| format!("mkSite {} {} {} {}", s.k.coq(), s.sp.coq(), s.id, s.owner.coq())).collect::<Vec<_>>().join("; ");
    let globals_fp: Vec<u64> = base.globals.iter().map(|g| g.0).collect();
    let coq = format!(
        "mkRC {} {} {} {} {} [{}] [{}] [{}] {} {} {} {}",
        pairs(&base.imports), l(&base.funcs), l(&globals_fp), l(&base.mems), base.exports.len(),
        hist.iter().map(|h| h.coq()).collect::<Vec<_>>().join("; "), sites_s,
        rets.iter().map(|x| match x { Some(v) => format!("Some {v}"), None => "None".into() }).collect::<Vec<_>>().join("; "),
        coq_bool(api_panic), enc_s, coq_bool(valid), coq_bool(same2)
    );
    let coq = if prop == "C05" { format!("mkRC2 ({coq}) {enc2_s}") } else { coq };
    let desc = format!(
        "imports={:?} funcs={:?} globals={:?} mems={:?} base_valid={} hist={:?} rets={:?} sites=[{}] => api_panic={} {} valid={} same2={}",
        base.imports, base.funcs, base.globals, base.mems, base_valid, hist, rets,
        sites.iter().enumerate().map(|(n, s)| format!("#{n}:{:?}/{:?}/{}/{:?}", s.k, s.sp, s.id, s.owner)).collect::<Vec<_>>().join(" "),
        api_panic, match &dec { Some(d) => format!("imports={:?} funcs={:?} globals={:?} mems={:?} sites={:?}", d.imports, d.funcs, d.globals, d.mems, d.sites), None => if undecodable { "UNDECODABLE".into() } else { "ENCODE-PANIC".to_string() } },
        valid, same2
    );
    let mut tags = vec![format!("hist_len={}", hist.len()), format!("api_panic={}", api_panic), format!("encoded={}", enc.is_some()), format!("valid={}", valid), format!("base_valid={}", base_valid), format!("nsites_bucket={}", sites.len() / 5 * 5)];
    for h in &hist { tags.push(format!("op={}", h.coq().split(' ').take(2).collect::<Vec<_>>().join("_"))); }
    if base.elem_off.is_some() { tags.push("site_elem_offset_global".into()); }
    if base.table_init.is_some() { tags.push("site_table_init_func".into()); }
    let _ = n_base_sites;
    Case { seed, idx, coq, desc, nontrivial: !hist.is_empty() && !sites.is_empty(), tags }
}

fn pick_any(r: &mut Rng, v: &Vec<u64>, del: &Vec<u64>) -> Option<u64> {
    if v.is_empty() { return None; }
    let live: Vec<u64> = v.iter().cloned().filter(|x| !del.contains(x)).collect();
    if !live.is_empty() && !r.chance(1, 10) { Some(*r.pick(&live)) } else { Some(*r.pick(v)) }
}
