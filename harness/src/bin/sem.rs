// Correspondence + differential-execution harness of the semantic engine (C16-C20): typed, terminating,
// *valid* programs (the real validator filters the inputs), neutral probes `i32.const id; call $log`.
use std::collections::HashMap;
use std::panic::{catch_unwind, AssertUnwindSafe};
use vharness::wasmgen::*;
use vharness::*;
use wirm::iterator::iterator_trait::{IteratingInstrumenter, Iterator};
use wirm::iterator::module_iterator::ModuleIterator;
use wirm::ir::id::FunctionID;
use wirm::ir::types::Location;
use wirm::opcode::{Inject, InjectAt, Instrumenter};
use wirm::Module;

// the public API path the whole plan of one case goes through (same four paths and codes as the lowering engine;
// the mirror's [apply_plan] takes the code): a special-mode probe must not depend on the path it came in by
#[derive(Clone, Copy, Debug, PartialEq)]
enum Path { Iter, IterInjectAt, ModInject, ModInjectAt }
impl Path { fn code(&self) -> u32 { match self { Path::Iter => 0, Path::IterInjectAt => 1, Path::ModInject => 2, Path::ModInjectAt => 3 } } }

struct SCase { nres: u32, nlocals: u32, body: Vec<Op>, plan: Plan, entry: Vec<Op>, exit: Vec<Op>, path: Path,
               /// an unused i64 local declared after the i32 ones: a helper local the lowering allocates (the flag of a branch
               /// probe) must then open a new group behind it, not extend the i32 group
               tail_i64: bool }

fn build(c: &SCase) -> Vec<u8> {
    use wasm_encoder as we;
    let mut m = we::Module::new();
    let mut types = we::TypeSection::new();
    types.ty().function([we::ValType::I32], []);
    types.ty().function([we::ValType::I32, we::ValType::I32], vec![we::ValType::I32; c.nres as usize]);
    m.section(&types);
    let mut is = we::ImportSection::new();
    is.import("env", "log", we::EntityType::Function(0));
    m.section(&is);
    let mut fs = we::FunctionSection::new();
    fs.function(1);
    fs.function(0); // the helper $acc = function 2, of the type of $log: (i32) -> ()
    m.section(&fs);
    let mut ms = we::MemorySection::new();
    ms.memory(we::MemoryType { minimum: 1, maximum: None, memory64: false, shared: false, page_size_log2: None });
    m.section(&ms);
    let mut gs = we::GlobalSection::new();
    gs.global(we::GlobalType { val_type: we::ValType::I32, mutable: true, shared: false }, &we::ConstExpr::i32_const(0));
    m.section(&gs);
    let mut code = we::CodeSection::new();
    let mut f = if c.tail_i64 { we::Function::new([(c.nlocals, we::ValType::I32), (1, we::ValType::I64)]) } else { we::Function::new([(c.nlocals, we::ValType::I32)]) };
    for op in &c.body { f.instruction(&op.enc()); }
    code.function(&f);
    let mut h = we::Function::new([]);
    h.instruction(&we::Instruction::GlobalGet(0)); h.instruction(&we::Instruction::LocalGet(0)); h.instruction(&we::Instruction::I32Add); h.instruction(&we::Instruction::GlobalSet(0)); h.instruction(&we::Instruction::End);
    code.function(&h);
    m.section(&code);
    m.finish()
}

fn gen(r: &mut Rng, prop: &str) -> (SCase, Vec<u8>) {
    loop {
        let nres = r.below(2) as u32;
        let budget = 4 + r.below(28) as i32;
        let maxdepth = 3 + r.below(3) as u32;
        let exit_bias = prop == "C17" || prop == "C16";
        let mut g = TypedGen { r, out: vec![], nres, next_local: 6, budget, ev: 0, maxdepth, exit_bias };
        let mut labels = vec![(false, nres)];
        // C17 / C16: now and then the function leaves at its very first instruction (abort stub / early return) or has an
        // empty body -- instruction 0 is then at once where the entry code goes and where exit code is due
        let shape0 = if exit_bias { g.r.below(10) } else { 9 };
        let dead = if shape0 == 0 && nres == 0 { false } else {
            if shape0 == 1 { g.out.push(Op::Unreachable); } else if shape0 == 2 && nres == 0 { g.out.push(Op::Return); }
            g.seq(&mut labels, 0)
        };
        if nres == 1 && !dead { g.out.push(Op::Const(42)); }
        g.out.push(Op::End);
        let mut body = g.out.clone();
        let nlocals = g.next_local - 2;
        // C20 / C16: now and then a conditional branch to its own `if` closes a then-arm (directly in front of the `else`)
        if (prop == "C20" || prop == "C16") && g.r.chance(1, 2) {
            let mut stack: Vec<(usize, bool)> = vec![];     // (opener index, is an `if` without result)
            let mut spots: Vec<usize> = vec![];
            for (j, op) in body.iter().enumerate() {
                match op {
                    Op::Block(_) | Op::Loop(_) => stack.push((j, false)),
                    Op::If(bt) => stack.push((j, *bt == Bt::Empty)),
                    Op::Else => { if let Some((_, true)) = stack.last() { spots.push(j); } }
                    Op::End => { stack.pop(); }
                    _ => {}
                }
            }
            if !spots.is_empty() { let j = *g.r.pick(&spots); body.insert(j, Op::BrIf(0)); body.insert(j, Op::LocalGet(0)); }
        }
        let tail_i64 = g.r.chance(1, 2);
        let mut c = SCase { nres, nlocals, body, plan: vec![], entry: vec![], exit: vec![], path: Path::Iter, tail_i64 };
        let bytes = build(&c);
        if !validates(&bytes) { continue; }
        let mut pid = 1000;
        let k = 1 + r.below(6);
        for _ in 0..k {
            let mut idx = r.below(c.body.len() as u64) as usize;
            if prop == "C20" || prop == "C16" {
                // bias towards branch sites, br_table first
                let tables: Vec<usize> = (0..c.body.len()).filter(|i| matches!(c.body[*i], Op::BrTable(..))).collect();
                let branches: Vec<usize> = (0..c.body.len()).filter(|i| c.body[*i].is_branchy()).collect();
                if !tables.is_empty() && r.chance(1, 3) { idx = *r.pick(&tables); }
                else if !branches.is_empty() && r.chance(1, 3) { idx = *r.pick(&branches); }
            }
            let op = &c.body[idx];
            let (blockish, branchy) = (op.is_blockish(), op.is_branchy());
            let mut cands = vec![];
            // plain before/after: never *after* the final end (it is dropped by design) -- allowed anyway
            let special = match prop { "C18" => Some(Mode::BlockEntry), "C19" => Some(Mode::BlockExit), "C20" => Some(Mode::SemanticAfter), _ => None };
            match prop {
                "C16" => {
                    cands.push(Mode::Before); cands.push(Mode::After);
                    // a NEUTRAL alternate: the probe followed by the replaced instruction itself (non-control instructions only)
                    if matches!(op, Op::Const(_) | Op::LocalGet(_) | Op::LocalSet(_) | Op::LocalTee(_) | Op::Drop | Op::Other(T_NOP) | Op::Other(T_ADD) | Op::Other(T_SUB) | Op::Other(T_EQZ) | Op::Other(T_GGET0) | Op::Other(T_GSET0))
                        && !c.plan.iter().any(|(i, m, _)| *i == idx && *m == Mode::Alternate) { cands.push(Mode::Alternate); }
                    if blockish { cands.push(Mode::BlockEntry); cands.push(Mode::BlockExit); cands.push(Mode::SemanticAfter); }
                    if branchy { cands.push(Mode::SemanticAfter); }
                }
                "C17" => { cands.push(Mode::Before); cands.push(Mode::After); }
                _ => {
                    let sp = special.unwrap();
                    let ok = match sp { Mode::SemanticAfter => blockish || branchy, _ => blockish };
                    if ok { cands.push(sp); cands.push(sp); cands.push(sp); }
                    if r.chance(1, 3) { cands.push(Mode::Before); cands.push(Mode::After); }
                }
            }
            if cands.is_empty() { continue; }
            let m = *r.pick(&cands);
            pid += 1;
            let mut ops = vec![Op::Const(pid), Op::Other(T_LOG)];
            if m == Mode::Alternate { ops.push(c.body[idx].clone()); }
            c.plan.push((idx, m, ops));
        }
        if (prop == "C19" || prop == "C18") && r.chance(1, 2) {
            // other special probes on the same constructs must not disturb entry / exit probes: semantic-after on
            // block / loop / if / else (not on branches: those are C20's, with its known classes)
            let sites: Vec<usize> = (0..c.body.len()).filter(|i| c.body[*i].is_blockish()).collect();
            if !sites.is_empty() {
                // half of the time on a construct that already carries an entry / exit probe (they share the tables of
                // pending probes, keyed by the construct's block id)
                let probed: Vec<usize> = c.plan.iter().filter(|(_, m, _)| matches!(m, Mode::BlockEntry | Mode::BlockExit)).map(|(i, _, _)| *i).collect();
                for _ in 0..1 + r.below(2) {
                    let idx = if !probed.is_empty() && r.chance(1, 2) { *r.pick(&probed) } else { *r.pick(&sites) };
                    pid += 1;
                    c.plan.push((idx, Mode::SemanticAfter, vec![Op::Const(pid), Op::Other(T_LOG)]));
                }
            }
        }
        let fe = prop == "C17" || (prop == "C16" && r.chance(1, 2));
        if fe {
            let both = r.below(3);
            if both != 1 { c.entry = vec![Op::Const(500), Op::Other(T_LOG)]; }
            if both != 0 { c.exit = vec![Op::Const(600), Op::Other(T_LOG)]; }
        }
        if prop != "C16" && prop != "C17" && !c.plan.iter().any(|(_, m, _)| m.is_special()) { continue; }
        c.path = match r.below(8) { 0 => Path::ModInject, 1 | 2 => Path::ModInjectAt, 3 => Path::IterInjectAt, _ => Path::Iter };
        return (c, bytes);
    }
}

fn main() {
    let args = parse_args();
    let header = "From Coq Require Import List NArith ZArith.\nImport ListNotations.\nFrom Orca Require Import Flat Lowering CheckLow CheckSem KnownSem.\nOpen Scope N_scope.";
    let footer = format!("Eval vm_compute in (report_{} cases).", args.prop);
    let mut toks = HashMap::new();
    let prop = args.prop.clone();
    run_shards(&args, header, "scase", &footer, |seed, idx| {
        let mut r = Rng::for_case(seed, idx);
        let (c, bytes) = gen(&mut r, &prop);
        let res = catch_unwind(AssertUnwindSafe(|| {
            let mut module = Module::parse(&bytes, false).expect("parse");
            for (i, mode, ops) in c.plan.iter() {
                let loc = Location::Module { func_idx: FunctionID(1), instr_idx: *i };
                match c.path {
                    Path::Iter => {
                        let mut it = ModuleIterator::new(&mut module, &vec![]);
                        for _ in 0..*i { it.next(); }
                        it.set_instrument_mode(mode.im());
                        for op in ops { it.inject(op.wp()); }
                    }
                    Path::IterInjectAt => {
                        let mut it = ModuleIterator::new(&mut module, &vec![]);
                        for op in ops { it.inject_at(*i, mode.im(), op.wp()); }
                    }
                    Path::ModInject => {
                        let mut fm = module.functions.get_fn_modifier(FunctionID(1)).unwrap();
                        fm.set_instrument_mode_at(mode.im(), loc);
                        for op in ops { fm.inject(op.wp()); }
                    }
                    Path::ModInjectAt => {
                        let mut fm = module.functions.get_fn_modifier(FunctionID(1)).unwrap();
                        for op in ops { fm.inject_at(*i, mode.im(), op.wp()); }
                    }
                }
            }
            if !c.entry.is_empty() || !c.exit.is_empty() {
                let mut it = ModuleIterator::new(&mut module, &vec![]);
                if !c.entry.is_empty() { it.func_entry(); for op in &c.entry { it.inject(op.wp()); } }
                if !c.exit.is_empty() { it.func_exit(); for op in &c.exit { it.inject(op.wp()); } }
            }
            module.encode()
        }));
        let (obs, valid) = match &res {
            Err(_) => (None, false),
            Ok(out) => { let d = decode_bodies(out, &mut toks); (d.into_iter().next().map(|(g, b)| (b, g)), validates(out)) } // body 0 = the instrumented function, body 1 = $acc
        };
        let mut argv = vec![];
        for _ in 0..4 { argv.push(format!("[{}; {}]%Z", r.below(3) as i64 - 1 + (if r.chance(1, 8) { 4294967295i64 } else { 0 }) * 0, r.below(4) as i64)); }
        let obs_s = match &obs { None => "None".into(), Some((b, g)) => format!("(Some ({}, {}))", coq_ops(b), coq_groups(g)) };
        // lcase: nparams numlocals groups entry exit exit_ty body plan path skipped obs obs2_same bugs
        let coq = format!(
            "mkS (mkCase 2 {} [({}, 0){}] {} {} 2 {} {} {} false {} true 0) {}%nat {} [{}]",
            c.nlocals + if c.tail_i64 { 1 } else { 0 }, c.nlocals, if c.tail_i64 { "; (1, 1)" } else { "" }, coq_ops(&c.entry), coq_ops(&c.exit), coq_ops(&c.body), coq_plan(&c.plan), c.path.code(), obs_s,
            c.nres, coq_bool(valid), argv.join("; ")
        );
        let desc = format!(
            "nres={} nlocals={} tail_i64={} path={:?} body=[{}] plan=[{}] entry=[{}] exit=[{}] args={} => {} valid={}",
            c.nres, c.nlocals, c.tail_i64, c.path, show_ops(&c.body), show_plan(&c.plan), show_ops(&c.entry), show_ops(&c.exit), argv.join(" "),
            match &obs { None => "PANIC".to_string(), Some((b, _)) => format!("body=[{}]", show_ops(b)) }, valid
        );
        let mut tags = vec![format!("path={:?}", c.path), format!("plan_len={}", c.plan.len()), format!("valid_out={}", valid), format!("body_len_bucket={}", c.body.len() / 10 * 10)];
        for (_, m, _) in &c.plan { tags.push(format!("mode={:?}", m)); }
        for (i, m, _) in &c.plan { if *m == Mode::SemanticAfter && c.body[*i].is_branchy() { tags.push("sa_on_branch".into()); } }
        if c.body.iter().any(|o| matches!(o, Op::Loop(_))) { tags.push("has_loop".into()); }
        if c.body.iter().any(|o| matches!(o, Op::BrTable(..))) { tags.push("has_br_table".into()); }
        if c.body.iter().any(|o| matches!(o, Op::Other(T_LOAD) | Op::Other(T_STORE))) { tags.push("has_memory_access".into()); }
        if c.body.iter().any(|o| matches!(o, Op::Other(T_CALL2))) { tags.push("has_call".into()); }
        if !c.entry.is_empty() { tags.push("fn_entry".into()); }
        if !c.exit.is_empty() { tags.push("fn_exit".into()); }
        Case { seed, idx, coq, desc, nontrivial: true, tags }
    });
}
