// Correspondence harness of the lowering engine (C15, C21, C22; second encoding for C05).
// One instrumented local function; plans over all seven modes through all four API paths; optional
// function entry/exit; optional deletion of an unused import before encoding (the D20 situation).
use std::collections::HashMap;
use std::panic::{catch_unwind, AssertUnwindSafe};
use std::sync::atomic::{AtomicU64, Ordering};
use vharness::wasmgen::*;
use vharness::*;
use wirm::ir::id::FunctionID;
use wirm::ir::types::Location;
use wirm::iterator::iterator_trait::{IteratingInstrumenter, Iterator};
use wirm::iterator::module_iterator::ModuleIterator;
use wirm::opcode::{Inject, InjectAt, Instrumenter};
use wasmparser::Operator;
use wirm::Module;

static BUGS: AtomicU64 = AtomicU64::new(0);
struct BugLogger;
impl log::Log for BugLogger {
    fn enabled(&self, m: &log::Metadata) -> bool { m.level() <= log::Level::Error }
    fn log(&self, r: &log::Record) {
        if r.level() == log::Level::Error && format!("{}", r.args()).contains("BUG") { BUGS.fetch_add(1, Ordering::SeqCst); }
    }
    fn flush(&self) {}
}
static LOGGER: BugLogger = BugLogger;

#[derive(Clone, Copy, Debug, PartialEq)]
enum Path { Iter, IterInjectAt, ModInject, ModInjectAt }
impl Path { fn code(&self) -> u32 { match self { Path::Iter => 0, Path::IterInjectAt => 1, Path::ModInject => 2, Path::ModInjectAt => 3 } } }

struct LCase {
    nparams: u32,
    groups: Vec<(u32, u32)>,
    body: Vec<Op>,
    plan: Plan,
    entry: Vec<Op>,
    exit: Vec<Op>,
    path: Path,
    /// injections that are made after the plan and the function entry / exit code and withdrawn again with
    /// clear_instr_at (true = through the iterator, false = through the function modifier): the site must then be encoded
    /// as if they had never been made
    ghosts: Vec<(usize, Mode, bool)>,
    del_import: bool,
}

// module: type0 = (i32^nparams) -> (), type1 = () -> () ; imports: log (type 1) [+ unused (type 1)] ;
// function F (type 0) ; global 0 (mut i32)
fn build_module(c: &LCase) -> Vec<u8> {
    use wasm_encoder as we;
    let mut m = we::Module::new();
    let mut types = we::TypeSection::new();
    types.ty().function(vec![we::ValType::I32; c.nparams as usize], vec![]);
    types.ty().function(vec![we::ValType::I64], vec![]);
    m.section(&types);
    let mut is = we::ImportSection::new();
    is.import("env", "log", we::EntityType::Function(1));
    if c.del_import { is.import("env", "unused", we::EntityType::Function(1)); }
    m.section(&is);
    let mut funcs = we::FunctionSection::new();
    funcs.function(0);
    m.section(&funcs);
    let mut globals = we::GlobalSection::new();
    globals.global(we::GlobalType { val_type: we::ValType::I32, mutable: true, shared: false }, &we::ConstExpr::i32_const(0));
    m.section(&globals);
    let mut code = we::CodeSection::new();
    let locals: Vec<(u32, we::ValType)> = c.groups.iter().map(|(n, t)| (*n, tok_valtype_enc(*t))).collect();
    let mut f = we::Function::new(locals);
    for op in &c.body { f.instruction(&op.enc()); }
    code.function(&f);
    m.section(&code);
    m.finish()
}

struct Obs { first: Option<(Vec<Op>, Vec<(u32, u32)>)>, second_same: bool, bugs: u64, valid: bool }

fn run_case(c: &LCase, toks: &mut HashMap<String, u64>) -> Obs {
    let bytes = build_module(c);
    let fid = if c.del_import { 2 } else { 1 };
    BUGS.store(0, Ordering::SeqCst);
    let res = catch_unwind(AssertUnwindSafe(|| {
        let mut module = Module::parse(&bytes, false).expect("parse");
        for (idx, mode, ops) in c.plan.iter() {
            let loc = Location::Module { func_idx: FunctionID(fid), instr_idx: *idx };
            match c.path {
                Path::Iter => {
                    let mut it = ModuleIterator::new(&mut module, &vec![]);
                    for _ in 0..*idx { it.next(); }
                    if ops.is_empty() && *mode == Mode::Alternate { it.empty_alternate(); }
                    else if ops.is_empty() && *mode == Mode::BlockAlt { it.empty_block_alt(); }
                    else { it.set_instrument_mode(mode.im()); for op in ops { it.inject(op.wp()); } }
                }
                Path::IterInjectAt => {
                    let mut it = ModuleIterator::new(&mut module, &vec![]);
                    if ops.is_empty() && *mode == Mode::Alternate { it.empty_alternate_at(loc); }
                    else if ops.is_empty() && *mode == Mode::BlockAlt { it.empty_block_alt_at(loc); }
                    else { for op in ops { it.inject_at(*idx, mode.im(), op.wp()); } }
                }
                Path::ModInject => {
                    let mut fm = module.functions.get_fn_modifier(FunctionID(fid)).unwrap();
                    if ops.is_empty() && *mode == Mode::Alternate { fm.empty_alternate_at(loc); }
                    else if ops.is_empty() && *mode == Mode::BlockAlt { fm.empty_block_alt_at(loc); }
                    else { fm.set_instrument_mode_at(mode.im(), loc); for op in ops { fm.inject(op.wp()); } }
                }
                Path::ModInjectAt => {
                    let mut fm = module.functions.get_fn_modifier(FunctionID(fid)).unwrap();
                    if ops.is_empty() && *mode == Mode::Alternate { fm.empty_alternate_at(loc); }
                    else if ops.is_empty() && *mode == Mode::BlockAlt { fm.empty_block_alt_at(loc); }
                    else { for op in ops { fm.inject_at(*idx, mode.im(), op.wp()); } }
                }
            }
        }
        if !c.entry.is_empty() || !c.exit.is_empty() {
            let mut it = ModuleIterator::new(&mut module, &vec![]);
            if !c.entry.is_empty() { it.func_entry(); for op in &c.entry { it.inject(op.wp()); } }
            if !c.exit.is_empty() { it.func_exit(); for op in &c.exit { it.inject(op.wp()); } }
        }
        for (k, (idx, mode, via_iter)) in c.ghosts.iter().enumerate() {
            let loc = Location::Module { func_idx: FunctionID(fid), instr_idx: *idx };
            {
                // FunctionModifier::inject_at addresses the instruction whatever function-level mode is still active
                let mut fm = module.functions.get_fn_modifier(FunctionID(fid)).unwrap();
                fm.inject_at(*idx, mode.im(), Operator::I32Const { value: 9_000_000 + k as i32 });
                fm.inject_at(*idx, mode.im(), Operator::Drop);
            }
            if *via_iter { let mut it = ModuleIterator::new(&mut module, &vec![]); it.clear_instr_at(loc, mode.im()); }
            else { let mut fm = module.functions.get_fn_modifier(FunctionID(fid)).unwrap(); fm.clear_instr_at(loc, mode.im()); }
        }
        if c.del_import { module.delete_func(FunctionID(1)); }
        let a = module.encode();
        let bugs = BUGS.load(Ordering::SeqCst);
        let b = catch_unwind(AssertUnwindSafe(|| module.encode())).ok();
        (a, b, bugs)
    }));
    match res {
        Err(_) => Obs { first: None, second_same: true, bugs: 0, valid: false },
        Ok((a, b, bugs)) => {
            let mut d = decode_bodies(&a, toks);
            let valid = validates(&a);
            let first = d.pop().map(|(g, b)| (b, g));
            Obs { first, second_same: b.as_deref() == Some(&a[..]), bugs, valid }
        }
    }
}

fn gen_case(r: &mut Rng, prop: &str) -> LCase {
    let nparams = r.below(3) as u32;
    let mut groups = vec![];
    for _ in 0..r.below(3) { groups.push((1 + r.below(3) as u32, r.below(2) as u32)); }
    let mut body = vec![];
    let mut budget = 4 + r.below(30) as i32;
    let maxdepth = 3 + r.below(3) as u32;
    gen_seq(r, 0, maxdepth, &mut budget, &mut body);
    gen_seq(r, 0, maxdepth, &mut budget, &mut body);
    body.push(Op::End);
    let path = match r.below(8) { 0 => Path::ModInject, 1 => Path::ModInjectAt, 2 | 3 => Path::IterInjectAt, _ => Path::Iter };
    let mut plan: Plan = vec![];
    let mut pid = 1000;
    // C21: block-alternates first, then (mostly) plain injections outside the removed regions
    let mut removed: Vec<bool> = vec![false; body.len()];
    if prop == "C21" {
        let sites: Vec<usize> = (0..body.len()).filter(|i| body[*i].is_blockish()).collect();
        if !sites.is_empty() {
            for _ in 0..1 + r.below(3) {
                let idx = *r.pick(&sites);
                let ops = if r.chance(1, 3) { vec![] } else { gen_probe(r, &mut pid) };
                plan.push((idx, Mode::BlockAlt, ops));
                // region: opener..matching end (else: else..before the end)
                let is_else = body[idx] == Op::Else;
                let mut d = 0i32;
                let mut j = idx + 1;
                removed[idx] = true;
                while j < body.len() {
                    match &body[j] {
                        Op::Block(_) | Op::Loop(_) | Op::If(_) => d += 1,
                        Op::End => { if d == 0 { if !is_else { removed[j] = true; } break; } d -= 1; }
                        _ => {}
                    }
                    removed[j] = true;
                    j += 1;
                }
            }
        }
    }
    if prop == "C21" {
        // block entry / exit probes on constructs outside the replaced regions must keep their place; in particular the
        // exit probe of an `if` whose else-arm is replaced
        let alts: Vec<usize> = plan.iter().map(|p| p.0).collect();
        for a in alts {
            if body[a] == Op::Else && r.chance(1, 2) {
                let (mut d, mut j) = (0i32, a);
                while j > 0 {
                    j -= 1;
                    match &body[j] {
                        Op::End => d += 1,
                        Op::Block(_) | Op::Loop(_) | Op::If(_) => { if d == 0 { break; } d -= 1; }
                        _ => {}
                    }
                }
                if matches!(body[j], Op::If(_)) && !removed[j] {
                    let m = if r.chance(2, 3) { Mode::BlockExit } else { Mode::BlockEntry };
                    let ops = gen_probe(r, &mut pid);
                    plan.push((j, m, ops));
                }
            }
        }
        for _ in 0..r.below(3) {
            let idx = r.below(body.len() as u64) as usize;
            if body[idx].is_blockish() && !removed[idx] {
                let m = if r.chance(1, 2) { Mode::BlockExit } else { Mode::BlockEntry };
                let ops = gen_probe(r, &mut pid);
                plan.push((idx, m, ops));
            }
        }
    }
    let k = match prop { "C15" => 1 + r.below(7), _ => r.below(7) };
    for _ in 0..k {
        let idx = r.below(body.len() as u64) as usize;
        if prop == "C21" && removed[idx] {
            // mostly nothing inside a removed region; sometimes a special-mode probe on an inner construct (it must vanish)
            let op = &body[idx];
            if r.chance(1, 3) && (op.is_blockish() || op.is_branchy()) {
                let m = if op.is_blockish() { *r.pick(&[Mode::BlockEntry, Mode::BlockExit, Mode::SemanticAfter]) } else { Mode::SemanticAfter };
                let ops = gen_probe(r, &mut pid);
                plan.push((idx, m, ops));
                continue;
            }
            if !r.chance(1, 10) { continue; }
        }
        let op = &body[idx];
        let (blockish, branchy) = (op.is_blockish(), op.is_branchy());
        let mode = loop {
            let m = match prop {
                "C15" => match r.below(5) { 0 | 1 => Mode::Before, 2 | 3 => Mode::After, _ => Mode::Alternate },
                "C21" => match r.below(8) { 0 | 1 | 2 => Mode::Before, 3 | 4 | 5 => Mode::After, 6 => Mode::Alternate, _ => Mode::BlockAlt },
                _ => match r.below(10) { 0 | 1 => Mode::Before, 2 | 3 => Mode::After, 4 => Mode::Alternate, 5 | 6 => Mode::SemanticAfter, 7 => Mode::BlockEntry, 8 => Mode::BlockExit, _ => Mode::BlockAlt },
            };
            let structural = blockish || matches!(op, Op::End);
            if m == Mode::Alternate && structural && !r.chance(1, 8) { continue; }
            let ok = match m { Mode::SemanticAfter => blockish || branchy, Mode::BlockEntry | Mode::BlockExit | Mode::BlockAlt => blockish, _ => true };
            if ok || r.chance(1, 40) { break m; }
        };
        let ops = if matches!(mode, Mode::Alternate | Mode::BlockAlt) && r.chance(1, 3) { vec![] } else { gen_probe(r, &mut pid) };
        plan.push((idx, mode, ops));
    }
    let fnlevel = prop != "C15" && prop != "C21";
    let entry = if fnlevel && r.chance(1, 5) { gen_probe(r, &mut pid) } else { vec![] };
    let exit = if fnlevel && r.chance(1, 5) { gen_probe(r, &mut pid) } else { vec![] };
    let del_import = prop == "C22" && r.chance(1, 12);
    // withdrawn injections: on (instruction, mode) pairs the plan does not use (clear_instr_at empties the whole list of a mode)
    let mut ghosts: Vec<(usize, Mode, bool)> = vec![];
    if r.chance(1, 4) {
        for _ in 0..1 + r.below(2) {
            let idx = r.below(body.len() as u64) as usize;
            let mut ms = vec![Mode::Before, Mode::After, Mode::Alternate, Mode::Alternate];
            if body[idx].is_blockish() { ms.extend([Mode::BlockEntry, Mode::BlockExit, Mode::SemanticAfter, Mode::BlockAlt]); }
            if body[idx].is_branchy() { ms.push(Mode::SemanticAfter); }
            let m = *r.pick(&ms);
            if plan.iter().any(|(i, pm, _)| *i == idx && *pm == m) || ghosts.iter().any(|(i, gm, _)| *i == idx && *gm == m) { continue; }
            ghosts.push((idx, m, r.chance(1, 2)));
        }
    }
    LCase { nparams, groups, body, plan, entry, exit, path, del_import, ghosts }
}

fn main() {
    let _ = log::set_logger(&LOGGER).map(|()| log::set_max_level(log::LevelFilter::Error));
    let args = parse_args();
    let header = "From Coq Require Import List NArith ZArith.\nImport ListNotations.\nFrom Orca Require Import Flat Lowering CheckLow.\nOpen Scope N_scope.";
    let footer = format!("Eval vm_compute in (report_{} cases).", args.prop);
    let mut toks = HashMap::new();
    let prop = args.prop.clone();
    run_shards(&args, header, "lcase", &footer, |seed, idx| {
        let mut r = Rng::for_case(seed, idx);
        let c = gen_case(&mut r, &prop);
        let o = run_case(&c, &mut toks);
        let numlocals: u32 = c.groups.iter().map(|g| g.0).sum();
        let obs_s = match &o.first { None => "None".into(), Some((b, g)) => format!("(Some ({}, {}))", coq_ops(b), coq_groups(g)) };
        let coq = format!(
            "mkCase {} {} {} {} {} {} {} {} {} {} {} {} {}",
            c.nparams, numlocals, coq_groups(&c.groups), coq_ops(&c.entry), coq_ops(&c.exit),
            if c.nparams == 0 { 0 } else { 2 }, coq_ops(&c.body), coq_plan(&c.plan), c.path.code(),
            coq_bool(c.del_import), obs_s, coq_bool(o.second_same), o.bugs
        );
        let desc = format!(
            "nparams={} groups={:?} path={:?} del_import={} withdrawn(instr,mode,via_iterator)={:?} body=[{}] plan=[{}] entry=[{}] exit=[{}] => {} valid={} second_same={} bugs={}",
            c.nparams, c.groups, c.path, c.del_import, c.ghosts, show_ops(&c.body), show_plan(&c.plan), show_ops(&c.entry), show_ops(&c.exit),
            match &o.first { None => "PANIC".to_string(), Some((b, g)) => format!("locals={:?} body=[{}]", g, show_ops(b)) },
            o.valid, o.second_same, o.bugs
        );
        let nontrivial = !c.plan.is_empty() || !c.entry.is_empty() || !c.exit.is_empty();
        let mut tags = vec![format!("withdrawn={}", c.ghosts.len()), format!("path={:?}", c.path), format!("obs={}", if o.first.is_some() { "encoded" } else { "panicked" }), format!("plan_len={}", c.plan.len()), format!("body_len_bucket={}", c.body.len() / 10 * 10)];
        for (_, m, _) in &c.plan { tags.push(format!("mode={:?}", m)); }
        if !c.entry.is_empty() { tags.push("fn_entry".into()); }
        if !c.exit.is_empty() { tags.push("fn_exit".into()); }
        if c.del_import { tags.push("del_import".into()); }
        if o.first.is_some() && !o.valid { tags.push("output_not_type_valid".into()); }
        Case { seed, idx, coq, desc, nontrivial, tags }
    });
}
