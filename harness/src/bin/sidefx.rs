// Correspondence harness of the side-effect engine (C23).
// A history of additions (types, imports, exports, functions, globals, memories, data) through the `_with_tag`
// APIs / tag parameters, through the plain APIs (default, empty tag) and with no tag at all where the API allows
// it, mixed with deletions; then probes on one parsed function (before / after / alternate, the special modes,
// function entry / exit), tagged with append_tag_at or not, whose code carries index-bearing operators
// (call / global.get / memory.size / i32.load).  The same history is applied to two freshly parsed copies of the
// module: copy A is asked for `pull_side_effects()`, copy B for `encode()` (pulling mutates the module).
// Tags are 4-byte little-endian counters (token k >= 1; the empty tag is token 0).  Every entity carries a
// fingerprint (reindex.rs scheme), every probe starts with a unique marker constant >= 100000.
use std::collections::HashMap;
use std::panic::{catch_unwind, AssertUnwindSafe};
use vharness::wasmgen::*;
use vharness::*;
use wasmparser::{ExternalKind, MemArg, Operator, TypeRef};
use wirm::ir::function::FunctionBuilder;
use wirm::ir::id::*;
use wirm::ir::module::module_globals::{Global, GlobalKind, LocalGlobal};
use wirm::ir::module::module_types::Types;
use wirm::ir::module::side_effects::{InjectType, Injection};
use wirm::ir::types::{FuncInstrMode, InitExpr, InitInstr, InstrumentationMode, Location, Tag, Value};
use wirm::iterator::iterator_trait::IteratingInstrumenter;
use wirm::iterator::module_iterator::ModuleIterator;
use wirm::opcode::{Inject, Instrumenter};
use wirm::{DataSegment, DataSegmentKind, DataType, Module};

const IDX: u64 = 1 << 30;
const KSH: u64 = 1 << 20;
const BAD: u64 = 999_999_999;
const MARK0: i32 = 100_000;
fn enc_idx(kind: u64, id: u64) -> u64 { IDX + kind * KSH + id }

fn to_wp(op: &Op) -> Operator<'static> {
    if let Op::Other(t) = op {
        if *t >= IDX {
            let k = (*t - IDX) / KSH; let id = ((*t - IDX) % KSH) as u32;
            return match k {
                1 => Operator::Call { function_index: id },
                2 => Operator::GlobalGet { global_index: id },
                3 => Operator::MemorySize { mem: id },
                _ => Operator::I32Load { memarg: MemArg { align: 2, max_align: 2, offset: 0, memory: id } },
            };
        }
    }
    op.wp()
}
fn from_wp(o: &Operator, toks: &mut HashMap<String, u64>) -> Op {
    match o {
        Operator::Call { function_index } => Op::Other(enc_idx(1, *function_index as u64)),
        Operator::GlobalGet { global_index } => Op::Other(enc_idx(2, *global_index as u64)),
        Operator::MemorySize { mem } => Op::Other(enc_idx(3, *mem as u64)),
        Operator::I32Load { memarg } if memarg.offset == 0 && memarg.align == 2 => Op::Other(enc_idx(4, memarg.memory as u64)),
        Operator::GlobalSet { .. } => Op::Other(BAD),
        other => Op::from_wp(other, toks),
    }
}
fn show(v: &[Op]) -> String {
    v.iter().map(|o| match o {
        Op::Other(t) if *t >= IDX && *t < BAD => { let k = (*t - IDX) / KSH; let id = (*t - IDX) % KSH; format!("{}{}", match k { 1 => "call ", 2 => "global.get ", 3 => "memory.size ", _ => "i32.load mem=" }, id) }
        o => show_ops(std::slice::from_ref(o)),
    }).collect::<Vec<_>>().join(" ")
}

type Tg = Option<u64>;
fn tg_coq(t: &Tg) -> String { match t { None => "None".into(), Some(k) => format!("(Some {k})") } }
fn tag_of(k: u64) -> Tag { if k == 0 { Tag::default() } else { Tag::new((k as u32).to_le_bytes().to_vec()) } }
fn inject_tag(t: &Tg) -> Option<Tag> { t.map(tag_of) }
fn tag_tok(t: &Tag) -> u64 { let d = t.data(); if d.is_empty() { 0 } else if d.len() == 4 { u32::from_le_bytes([d[0], d[1], d[2], d[3]]) as u64 } else { BAD } }

#[derive(Clone, Debug)]
enum SOp {
    AddType(u64, Tg), AddImport(u8, u64, u64), AddLocal(u8, u64, Vec<Op>, u64), ItAddGlobal(u64, Tg), Delete(u8, u64),
    AddExport(u8, u64, u64, Tg), DeleteExport(u64), AddData(bool, u64, u64, Tg),
}
fn spn(s: u8) -> &'static str { match s { 0 => "SF", 1 => "SG", _ => "SM" } }
impl SOp {
    fn coq(&self) -> String {
        match self {
            SOp::AddType(k, t) => format!("SAddType {k} {}", tg_coq(t)),
            SOp::AddImport(s, fp, t) => format!("SAddImport {} {fp} {t}", spn(*s)),
            SOp::AddLocal(s, fp, b, t) => format!("SAddLocal {} {fp} {} {t}", spn(*s), coq_ops(b)),
            SOp::ItAddGlobal(fp, t) => format!("SItAddGlobal {fp} {}", tg_coq(t)),
            SOp::Delete(s, id) => format!("SDelete {} {id}", spn(*s)),
            SOp::AddExport(s, id, n, t) => format!("SAddExport {} {id} {n} {}", spn(*s), tg_coq(t)),
            SOp::DeleteExport(k) => format!("SDeleteExport {k}"),
            SOp::AddData(a, m, b, t) => format!("SAddData {} {m} {b} {}", coq_bool(*a), tg_coq(t)),
        }
    }
    fn tag(&self) -> String {
        let tk = |t: &Tg| match t { None => "no_tag", Some(0) => "empty_tag", Some(_) => "tagged" };
        let tn = |t: &u64| if *t == 0 { "default_tag" } else { "tagged" };
        match self {
            SOp::AddType(_, t) => format!("op=add_func_type/{}", tk(t)), SOp::AddImport(s, _, t) => format!("op=add_import_{}/{}", spn(*s), tn(t)),
            SOp::AddLocal(s, _, _, t) => format!("op=add_local_{}/{}", spn(*s), tn(t)), SOp::ItAddGlobal(_, t) => format!("op=iterator_add_global/{}", tk(t)),
            SOp::Delete(s, _) => format!("op=delete_{}", spn(*s)), SOp::AddExport(s, _, _, t) => format!("op=add_export_{}/{}", spn(*s), tk(t)),
            SOp::DeleteExport(_) => "op=delete_export".into(), SOp::AddData(a, _, _, t) => format!("op=add_data_{}/{}", if *a { "active" } else { "passive" }, tk(t)),
        }
    }
}

struct Base { imports: Vec<(u64, u64)>, funcs: Vec<u64>, globals: Vec<u64>, mems: Vec<u64>, ntypes: u64, exports: Vec<u64>, ndata: u64, target: u64, body: Vec<Op> }

fn build(b: &Base) -> Vec<u8> {
    use wasm_encoder as we;
    let mut m = we::Module::new();
    let mut types = we::TypeSection::new();
    for k in 0..b.ntypes { types.ty().function(vec![we::ValType::I32; k as usize], vec![]); }
    m.section(&types);
    if !b.imports.is_empty() {
        let mut is = we::ImportSection::new();
        for (k, fp) in &b.imports {
            let name = format!("i{fp}");
            match k {
                0 => { is.import("env", &name, we::EntityType::Function(0)); }
                1 => { is.import("env", &name, we::EntityType::Global(we::GlobalType { val_type: we::ValType::I32, mutable: false, shared: false })); }
                2 => { is.import("env", &name, we::EntityType::Memory(we::MemoryType { minimum: 1, maximum: None, memory64: false, shared: false, page_size_log2: None })); }
                3 => { is.import("env", &name, we::EntityType::Table(we::TableType { element_type: we::RefType::FUNCREF, table64: false, minimum: 0, maximum: None, shared: false })); }
                _ => { is.import("env", &name, we::EntityType::Tag(we::TagType { kind: we::TagKind::Exception, func_type_idx: 0 })); }
            }
        }
        m.section(&is);
    }
    let mut fs = we::FunctionSection::new();
    for _ in &b.funcs { fs.function(0); }
    m.section(&fs);
    if !b.mems.is_empty() {
        let mut ms = we::MemorySection::new();
        for fp in &b.mems { ms.memory(we::MemoryType { minimum: *fp, maximum: None, memory64: false, shared: false, page_size_log2: None }); }
        m.section(&ms);
    }
    if !b.globals.is_empty() {
        let mut gs = we::GlobalSection::new();
        for fp in &b.globals { gs.global(we::GlobalType { val_type: we::ValType::I32, mutable: false, shared: false }, &we::ConstExpr::i32_const(*fp as i32)); }
        m.section(&gs);
    }
    if !b.exports.is_empty() {
        let mut es = we::ExportSection::new();
        for (n, id) in b.exports.iter().enumerate() { es.export(&format!("e{n}"), we::ExportKind::Func, *id as u32); }
        m.section(&es);
    }
    let nimpf = b.imports.iter().filter(|x| x.0 == 0).count() as u64;
    let mut code = we::CodeSection::new();
    for (j, fp) in b.funcs.iter().enumerate() {
        let mut f = we::Function::new(vec![]);
        if nimpf + j as u64 == b.target { for op in &b.body { f.instruction(&op.enc()); } }
        else { f.instruction(&we::Instruction::I32Const(*fp as i32)); f.instruction(&we::Instruction::Drop); f.instruction(&we::Instruction::End); }
        code.function(&f);
    }
    m.section(&code);
    if b.ndata > 0 {
        let mut ds = we::DataSection::new();
        for i in 0..b.ndata { ds.passive(vec![200 + i as u8, 7]); }
        m.section(&ds);
    }
    m.finish()
}

fn fp_of_body(ops: &[Op]) -> u64 { for o in ops { if let Op::Const(z) = o { if *z > 0 && *z < 1000 { return *z as u64; } } } 0 }

struct Dec { imports: Vec<(u64, u64)>, funcs: Vec<u64>, globals: Vec<u64>, mems: Vec<u64>, bodies: Vec<Vec<Op>> }
fn decode(out: &[u8], toks: &mut HashMap<String, u64>) -> Option<Dec> {
    let mut d = Dec { imports: vec![], funcs: vec![], globals: vec![], mems: vec![], bodies: vec![] };
    for p in wasmparser::Parser::new(0).parse_all(out) {
        match p.ok()? {
            wasmparser::Payload::ImportSection(r) => for i in r {
                let i = i.ok()?;
                let fp: u64 = i.name[1..].parse().ok()?;
                let k = match i.ty { TypeRef::Func(_) => 0, TypeRef::Global(_) => 1, TypeRef::Memory(_) => 2, TypeRef::Table(_) => 3, TypeRef::Tag(_) => 4 };
                d.imports.push((k, fp));
            },
            wasmparser::Payload::GlobalSection(r) => for g in r {
                let g = g.ok()?;
                let mut rd = g.init_expr.get_operators_reader();
                match rd.read().ok()? { Operator::I32Const { value } => d.globals.push(value as u32 as u64), _ => d.globals.push(777777) }
            },
            wasmparser::Payload::MemorySection(r) => for mm in r { d.mems.push(mm.ok()?.initial); },
            wasmparser::Payload::CodeSectionEntry(b) => {
                let mut rd = b.get_operators_reader().ok()?;
                let mut ops = vec![];
                while !rd.eof() { ops.push(from_wp(&rd.read().ok()?, toks)); }
                d.funcs.push(fp_of_body(&ops));
                d.bodies.push(ops);
            }
            _ => {}
        }
    }
    Some(d)
}

#[derive(Clone, Debug)]
struct Probe { idx: usize, mode: Mode, ops: Vec<Op>, tg: Tg }
struct Rec { kind: u64, fields: Vec<u64>, body: Vec<Op>, tag: u64 }

fn kind_code(t: InjectType) -> u64 {
    match t { InjectType::Type => 0, InjectType::Import => 1, InjectType::Export => 2, InjectType::Memory => 3, InjectType::Data => 4, InjectType::Global => 5,
              InjectType::Func => 6, InjectType::Local => 7, InjectType::Table => 8, InjectType::Element => 9, InjectType::Probe => 10 }
}
fn ext_code(k: ExternalKind) -> u64 { match k { ExternalKind::Func => 0, ExternalKind::Global => 1, ExternalKind::Memory => 2, ExternalKind::Table => 3, ExternalKind::Tag => 4 } }
fn init_fp(e: &InitExpr) -> u64 { match e.exprs.first() { Some(InitInstr::Value(Value::I32(v))) => *v as u32 as u64, _ => BAD } }
fn imode(m: &InstrumentationMode) -> u64 {
    match m { InstrumentationMode::Before => 0, InstrumentationMode::After => 1, InstrumentationMode::Alternate => 2, InstrumentationMode::SemanticAfter => 3,
              InstrumentationMode::BlockEntry => 4, InstrumentationMode::BlockExit => 5, InstrumentationMode::BlockAlt => 6 }
}
fn conv(kind: u64, inj: &Injection, toks: &mut HashMap<String, u64>) -> Rec {
    match inj {
        Injection::Type { ty, tag } => {
            let code = match ty { Types::FuncType { params, results, .. } if results.is_empty() && params.iter().all(|p| *p == DataType::I32) => params.len() as u64, _ => BAD };
            Rec { kind, fields: vec![code], body: vec![], tag: tag_tok(tag) }
        }
        Injection::Import { name, type_ref, tag, .. } => {
            let k = match type_ref { TypeRef::Func(_) => 0, TypeRef::Global(_) => 1, TypeRef::Memory(_) => 2, TypeRef::Table(_) => 3, TypeRef::Tag(_) => 4 };
            Rec { kind, fields: vec![k, name[1..].parse().unwrap_or(BAD)], body: vec![], tag: tag_tok(tag) }
        }
        Injection::Export { name, kind: ek, index, tag } => Rec { kind, fields: vec![name[1..].parse().unwrap_or(BAD), ext_code(*ek), *index as u64], body: vec![], tag: tag_tok(tag) },
        Injection::Memory { id, initial, tag, .. } => Rec { kind, fields: vec![*initial, *id as u64], body: vec![], tag: tag_tok(tag) },
        Injection::PassiveData { data, tag } => Rec { kind, fields: vec![0, *data.first().unwrap_or(&0) as u64, 0], body: vec![], tag: tag_tok(tag) },
        Injection::ActiveData { memory_index, data, tag, .. } => Rec { kind, fields: vec![1, *data.first().unwrap_or(&0) as u64, *memory_index as u64], body: vec![], tag: tag_tok(tag) },
        Injection::Global { id, init_expr, tag, .. } => Rec { kind, fields: vec![init_fp(init_expr), *id as u64], body: vec![], tag: tag_tok(tag) },
        Injection::Func { id, body, tag, .. } => {
            let ops: Vec<Op> = body.iter().map(|i| from_wp(&i.op, toks)).collect();
            Rec { kind, fields: vec![fp_of_body(&ops), *id as u64], body: ops, tag: tag_tok(tag) }
        }
        Injection::FuncProbe { target_fid, mode, body, tag } => Rec { kind, fields: vec![0, match mode { FuncInstrMode::Entry => 0, FuncInstrMode::Exit => 1 }, 0, *target_fid as u64],
            body: body.iter().map(|o| from_wp(o, toks)).collect(), tag: tag_tok(tag) },
        Injection::FuncLocProbe { target_fid, target_opcode_idx, mode, body, tag } => Rec { kind, fields: vec![1, imode(mode), *target_opcode_idx as u64, *target_fid as u64],
            body: body.iter().map(|o| from_wp(o, toks)).collect(), tag: tag_tok(tag) },
        _ => Rec { kind, fields: vec![BAD], body: vec![], tag: BAD },
    }
}

fn apply_op(module: &mut Module, op: &SOp) -> Option<u64> {
    let mem = |fp: u64| wasmparser::MemoryType { memory64: false, shared: false, initial: fp, maximum: None, page_size_log2: None };
    match op {
        SOp::AddType(k, t) => Some(*module.types.add_func_type(&vec![DataType::I32; *k as usize], &[], inject_tag(t)) as u64),
        SOp::AddImport(0, fp, 0) => Some(*module.add_import_func("env".into(), format!("i{fp}"), TypeID(0)).0 as u64),
        SOp::AddImport(0, fp, t) => Some(*module.add_import_func_with_tag("env".into(), format!("i{fp}"), TypeID(0), tag_of(*t)).0 as u64),
        SOp::AddImport(1, fp, 0) => Some(*module.add_imported_global("env".into(), format!("i{fp}"), DataType::I32, false, false).0 as u64),
        SOp::AddImport(1, fp, t) => Some(*module.add_imported_global_with_tag("env".into(), format!("i{fp}"), DataType::I32, false, false, tag_of(*t)).0 as u64),
        SOp::AddImport(_, fp, 0) => Some(*module.add_import_memory("env".into(), format!("i{fp}"), mem(1)).0 as u64),
        SOp::AddImport(_, fp, t) => Some(*module.add_import_memory_with_tag("env".into(), format!("i{fp}"), mem(1), tag_of(*t)).0 as u64),
        SOp::AddLocal(0, _, body, t) => {
            let mut fb = FunctionBuilder::new(&[], &[]);
            for o in body { fb.inject(to_wp(o)); }
            Some(if *t == 0 { *fb.finish_module(module) } else { *fb.finish_module_with_tag(module, tag_of(*t)) } as u64)
        }
        SOp::AddLocal(1, fp, _, 0) => Some(*module.add_global(InitExpr::new(vec![InitInstr::Value(Value::I32(*fp as i32))]), DataType::I32, false, false) as u64),
        SOp::AddLocal(1, fp, _, t) => Some(*module.add_global_with_tag(InitExpr::new(vec![InitInstr::Value(Value::I32(*fp as i32))]), DataType::I32, false, false, tag_of(*t)) as u64),
        SOp::AddLocal(_, fp, _, 0) => Some(*module.add_local_memory(mem(*fp)) as u64),
        SOp::AddLocal(_, fp, _, t) => Some(*module.add_local_memory_with_tag(mem(*fp), tag_of(*t)) as u64),
        SOp::ItAddGlobal(fp, t) => {
            let mut it = ModuleIterator::new(module, &vec![]);
            Some(*it.add_global(Global::new(GlobalKind::Local(LocalGlobal { global_id: GlobalID(0), ty: wasmparser::GlobalType { content_type: wasmparser::ValType::I32, mutable: false, shared: false },
                init_expr: InitExpr::new(vec![InitInstr::Value(Value::I32(*fp as i32))]) }), inject_tag(t))) as u64)
        }
        SOp::Delete(0, id) => { module.delete_func(FunctionID(*id as u32)); None }
        SOp::Delete(1, id) => { module.delete_global(GlobalID(*id as u32)); None }
        SOp::Delete(_, id) => { module.delete_memory(MemoryID(*id as u32)); None }
        SOp::AddExport(0, id, n, t) => { module.exports.add_export_func(format!("e{n}"), *id as u32, inject_tag(t)); None }
        SOp::AddExport(_, id, n, t) => { module.exports.add_export_mem(format!("e{n}"), *id as u32, inject_tag(t)); None }
        SOp::DeleteExport(k) => { module.exports.delete(ExportsID(*k as u32)); None }
        SOp::AddData(active, m, b, t) => {
            let kind = if *active { DataSegmentKind::Active { memory_index: *m as u32, offset_expr: InitExpr::new(vec![InitInstr::Value(Value::I32(0))]) } } else { DataSegmentKind::Passive };
            Some(*module.add_data(DataSegment { kind, data: vec![*b as u8, 9], tag: inject_tag(t) }) as u64)
        }
    }
}

fn apply_probes(module: &mut Module, target: u64, plan: &[Probe], entry: &Option<(Vec<Op>, Tg)>, exit: &Option<(Vec<Op>, Tg)>) {
    for p in plan {
        let loc = Location::Module { func_idx: FunctionID(target as u32), instr_idx: p.idx };
        let mut fm = module.functions.get_fn_modifier(FunctionID(target as u32)).unwrap();
        fm.set_instrument_mode_at(p.mode.im(), loc);
        for o in &p.ops { fm.inject(to_wp(o)); }
        if let Some(t) = p.tg { fm.append_tag_at(tag_of(t).data().clone(), loc); }
    }
    let loc0 = Location::Module { func_idx: FunctionID(target as u32), instr_idx: 0 };
    if let Some((ops, tg)) = entry {
        let mut fm = module.functions.get_fn_modifier(FunctionID(target as u32)).unwrap();
        fm.func_entry();
        for o in ops { fm.inject(to_wp(o)); }
        if let Some(t) = tg { fm.append_tag_at(tag_of(*t).data().clone(), loc0); }
        fm.finish_instr();
    }
    if let Some((ops, tg)) = exit {
        let mut fm = module.functions.get_fn_modifier(FunctionID(target as u32)).unwrap();
        fm.func_exit();
        for o in ops { fm.inject(to_wp(o)); }
        if let Some(t) = tg { fm.append_tag_at(tag_of(*t).data().clone(), loc0); }
        fm.finish_instr();
    }
}

fn main() {
    let args = parse_args();
    let header = "From Coq Require Import List NArith ZArith.\nImport ListNotations.\nFrom Orca Require Import Flat Reindex SideFx CheckSideFx.\nOpen Scope N_scope.";
    let footer = format!("Eval vm_compute in (report_{} cases).", args.prop);
    let mut toks = HashMap::new();
    run_shards(&args, header, "scase", &footer, |seed, idx| {
        let mut r = Rng::for_case(seed, idx);
        gen_case(&mut r, seed, idx, &mut toks)
    });
}

#[derive(Clone, Debug)]
struct Ent { id: u64, import: bool, dead: bool, added: bool }

fn gen_case(r: &mut Rng, seed: u64, idx: u64, toks: &mut HashMap<String, u64>) -> Case {
    let mut fpc = 0u64;
    let nfp = |fpc: &mut u64| { *fpc += 1; *fpc };
    let mut tagc = 0u64;
    let mut base = Base { imports: vec![], funcs: vec![], globals: vec![], mems: vec![], ntypes: 1 + r.below(3), exports: vec![], ndata: r.below(2), target: 0, body: vec![] };
    for _ in 0..r.below(5) { let k = match r.below(10) { 0 | 1 | 2 | 3 => 0, 4 | 5 => 1, 6 | 7 => 2, 8 => 3, _ => 4 }; let fp = nfp(&mut fpc); base.imports.push((k, fp)); }
    for _ in 0..1 + r.below(3) { let fp = nfp(&mut fpc); base.funcs.push(fp); }
    for _ in 0..r.below(3) { let fp = nfp(&mut fpc); base.globals.push(fp); }
    for _ in 0..r.below(2) { let fp = nfp(&mut fpc); base.mems.push(fp); }
    let cnt = |k: u64| base.imports.iter().filter(|x| x.0 == k).count() as u64;
    let nimp = [cnt(0), cnt(1), cnt(2)];
    let len0 = [nimp[0] + base.funcs.len() as u64, nimp[1] + base.globals.len() as u64, nimp[2] + base.mems.len() as u64];
    let tj = r.below(base.funcs.len() as u64);
    base.target = nimp[0] + tj;
    for _ in 0..r.below(3) { base.exports.push(r.below(len0[0])); }
    // body of the instrumented function: fingerprint, an untyped well-bracketed sequence without index-bearing operators
    let mut body = vec![Op::Const(base.funcs[tj as usize] as i32), Op::Drop];
    let mut budget = 3 + r.below(14) as i32;
    let maxdepth = 2 + r.below(3) as u32;
    let mut seq = vec![];
    gen_seq(r, 0, maxdepth, &mut budget, &mut seq);
    gen_seq(r, 0, maxdepth, &mut budget, &mut seq);
    for o in seq {
        body.push(match o {
            Op::Const(z) => Op::Const(6000 + z), Op::Other(T_LOG) | Op::Other(T_GGET0) | Op::Other(T_GSET0) => Op::Other(T_NOP),
            Op::RetCall(_) => Op::Return, Op::Throw(_) => Op::Unreachable, Op::BrTable(..) => Op::Other(T_NOP), o => o,
        });
    }
    body.push(Op::End);
    base.body = body.clone();
    let bytes = build(&base);
    let base_valid = validates(&bytes);

    // ---- history, generated while it is executed on copy A ----
    let mut hist: Vec<SOp> = vec![];
    let mut rets: Vec<Option<u64>> = vec![];
    let mut api_panic = false;
    let mut ents: [Vec<Ent>; 3] = [
        (0..len0[0]).map(|i| Ent { id: i, import: i < nimp[0], dead: false, added: false }).collect(),
        (0..len0[1]).map(|i| Ent { id: i, import: i < nimp[1], dead: false, added: false }).collect(),
        (0..len0[2]).map(|i| Ent { id: i, import: i < nimp[2], dead: false, added: false }).collect()];
    let mut nexports = base.exports.len() as u64;
    let mut it_added = false;
    let mut mark = MARK0;
    let special_ok = r.chance(1, 2);
    let mut plan: Vec<Probe> = vec![];
    let mut entry: Option<(Vec<Op>, Tg)> = None;
    let mut exit: Option<(Vec<Op>, Tg)> = None;
    let live = |v: &Vec<Ent>| -> Vec<u64> { v.iter().filter(|e| !e.dead).map(|e| e.id).collect() };
    let res = catch_unwind(AssertUnwindSafe(|| {
        let mut a = Module::parse(&bytes, true).expect("parse");
        let nops = r.below(7);
        for _ in 0..nops {
            let mut tgk = |r: &mut Rng, none_ok: bool| -> Tg { match r.below(6) { 0 if none_ok => None, 0 | 1 => Some(0), _ => { tagc += 1; Some(tagc) } } };
            let op = match r.below(16) {
                0 | 1 => SOp::AddType(r.below(6), tgk(r, true)),
                2 | 3 => SOp::AddImport(0, nfp(&mut fpc), tgk(r, false).unwrap()),
                4 => { if it_added { continue; } SOp::AddImport(1, nfp(&mut fpc), tgk(r, false).unwrap()) }
                5 => SOp::AddImport(2, nfp(&mut fpc), tgk(r, false).unwrap()),
                6 | 7 => {
                    let fp = nfp(&mut fpc);
                    let mut b = vec![Op::Const(fp as i32), Op::Drop];
                    for _ in 0..r.below(3) { let s = r.below(3) as usize; let l = live(&ents[s]); if l.is_empty() { continue; } let id = *r.pick(&l);
                        match s { 0 => b.push(Op::Other(enc_idx(1, id))), 1 => { b.push(Op::Other(enc_idx(2, id))); b.push(Op::Drop); } _ => { b.push(Op::Other(enc_idx(3, id))); b.push(Op::Drop); } } }
                    SOp::AddLocal(0, fp, b, tgk(r, false).unwrap())
                }
                8 => { if r.chance(1, 3) { it_added = true; SOp::ItAddGlobal(nfp(&mut fpc), tgk(r, true)) } else { SOp::AddLocal(1, nfp(&mut fpc), vec![], tgk(r, false).unwrap()) } }
                9 => SOp::AddLocal(2, nfp(&mut fpc), vec![], tgk(r, false).unwrap()),
                10 => {
                    // deletions: added entities only (never an original import: the target keeps its place among the originals), never a function import (D06)
                    let s = if r.chance(1, 2) { 1 } else { 0 };
                    let c: Vec<u64> = ents[s].iter().filter(|e| !e.dead && e.added && !(s == 0 && e.import)).map(|e| e.id).collect();
                    if c.is_empty() { continue; }
                    SOp::Delete(s as u8, *r.pick(&c))
                }
                11 | 12 => { let s = if r.chance(2, 3) { 0 } else { 2 }; let l = live(&ents[s]); if l.is_empty() { continue; } SOp::AddExport(s as u8, *r.pick(&l), 100 + hist.len() as u64, tgk(r, true)) }
                13 => { if nexports == 0 { continue; } SOp::DeleteExport(r.below(nexports)) }
                _ => { let l = live(&ents[2]); let active = !l.is_empty() && r.chance(1, 2); SOp::AddData(active, if active { *r.pick(&l) } else { 0 }, 10 + hist.len() as u64, tgk(r, true)) }
            };
            hist.push(op.clone());
            match catch_unwind(AssertUnwindSafe(|| apply_op(&mut a, &op))) {
                Err(_) => { api_panic = true; break; }
                Ok(ret) => {
                    rets.push(ret);
                    match &op {
                        SOp::AddImport(s, _, _) => { if let Some(id) = ret { if !ents[*s as usize].iter().any(|e| e.id == id) { ents[*s as usize].push(Ent { id, import: true, dead: false, added: true }); } } }
                        SOp::AddLocal(s, ..) => { if let Some(id) = ret { if !ents[*s as usize].iter().any(|e| e.id == id) { ents[*s as usize].push(Ent { id, import: false, dead: false, added: true }); } } }
                        SOp::ItAddGlobal(..) => { if let Some(id) = ret { if !ents[1].iter().any(|e| e.id == id) { ents[1].push(Ent { id, import: false, dead: false, added: true }); } } }
                        SOp::Delete(s, id) => { for e in ents[*s as usize].iter_mut() { if e.id == *id { e.dead = true; } } }
                        SOp::AddExport(..) => { nexports += 1; }
                        _ => {}
                    }
                }
            }
        }
        if api_panic { return None; }
        // ---- probes on the target function ----
        let mut gen_probe_ops = |r: &mut Rng| -> Vec<Op> {
            mark += 1;
            let mut v = vec![Op::Const(mark), Op::Drop];
            for _ in 0..r.below(3) {
                let s = r.below(3) as usize; let l = live(&ents[s]); if l.is_empty() { continue; } let id = *r.pick(&l);
                match s { 0 => v.push(Op::Other(enc_idx(1, id))), 1 => { v.push(Op::Other(enc_idx(2, id))); v.push(Op::Drop); }
                          _ => { if r.chance(1, 2) { v.push(Op::Other(enc_idx(3, id))); } else { v.push(Op::Const(0)); v.push(Op::Other(enc_idx(4, id))); } v.push(Op::Drop); } }
            }
            v
        };
        let mut ptag = |r: &mut Rng| -> Tg { if r.chance(2, 3) { tagc += 1; Some(tagc) } else { None } };
        let k = if r.chance(1, 8) { 0 } else { 1 + r.below(5) };
        for _ in 0..k {
            let i = r.below(body.len() as u64) as usize;
            let op = &body[i];
            let mode = if special_ok && (op.is_blockish() || op.is_branchy()) && r.chance(1, 2) {
                if op.is_blockish() { *r.pick(&[Mode::SemanticAfter, Mode::BlockEntry, Mode::BlockExit, Mode::BlockAlt]) } else { Mode::SemanticAfter }
            } else { match r.below(5) { 0 | 1 => Mode::Before, 2 | 3 => Mode::After, _ => Mode::Alternate } };
            if plan.iter().any(|p| p.idx == i && p.mode == mode) { continue; }
            let structural = op.is_blockish() || matches!(op, Op::End);
            // never replace the fingerprint constant or a structural instruction -- except the function's final `end`, whose
            // alternate (like its after code) the encoder drops: it must not be reported
            if mode == Mode::Alternate && ((structural && i + 1 != body.len()) || i < 2) { continue; }
            plan.push(Probe { idx: i, mode, ops: gen_probe_ops(r), tg: ptag(r) });
        }
        if r.chance(1, 3) {
            // a probe on the final `end` (before: encoded; after / alternate: dropped by the encoder), also in functions
            // that carry special instrumentation
            let i = body.len() - 1;
            let mode = *r.pick(&[Mode::Before, Mode::After, Mode::Alternate, Mode::Alternate]);
            if !plan.iter().any(|p| p.idx == i && p.mode == mode) { plan.push(Probe { idx: i, mode, ops: gen_probe_ops(r), tg: ptag(r) }); }
        }
        if special_ok && r.chance(1, 4) { entry = Some((gen_probe_ops(r), ptag(r))); }
        if special_ok && r.chance(1, 4) { exit = Some((gen_probe_ops(r), ptag(r))); }
        let pa = catch_unwind(AssertUnwindSafe(|| { apply_probes(&mut a, base.target, &plan, &entry, &exit); a.pull_side_effects() }));
        // copy B: same history, same probes, encode
        let pb = catch_unwind(AssertUnwindSafe(|| {
            let mut b = Module::parse(&bytes, true).expect("parse");
            let mut same = true;
            for (n, op) in hist.iter().enumerate() { let ret = apply_op(&mut b, op); if ret != rets[n] { same = false; } }
            apply_probes(&mut b, base.target, &plan, &entry, &exit);
            (b.encode(), same)
        }));
        Some((pa.ok(), pb.ok()))
    }));
    let (fx, encd) = match res { Ok(Some(x)) => x, Ok(None) => (None, None), Err(_) => { api_panic = true; (None, None) } };
    // ---- observation ----
    let mut recs: Vec<Rec> = vec![];
    if let Some(m) = &fx {
        let mut kinds: Vec<(u64, &Vec<Injection>)> = m.iter().map(|(k, v)| (kind_code(*k), v)).collect();
        kinds.sort_by_key(|x| x.0);
        for (k, v) in kinds { for inj in v.iter() { recs.push(conv(k, inj, toks)); } }
    }
    let replay_same = encd.as_ref().map(|x| x.1).unwrap_or(true);
    let dec = encd.as_ref().and_then(|(o, _)| decode(o, toks));
    let undecodable = encd.is_some() && dec.is_none();
    let out_valid = encd.as_ref().map(|(o, _)| validates(o)).unwrap_or(false);
    let l = |v: &Vec<u64>| format!("[{}]", v.iter().map(|x| x.to_string()).collect::<Vec<_>>().join("; "));
    let pairs = |v: &Vec<(u64, u64)>| format!("[{}]", v.iter().map(|(a, b)| format!("({a}, {b})")).collect::<Vec<_>>().join("; "));
    let target_fp = base.funcs[tj as usize];
    let fx_s = match &fx {
        None => "None".to_string(),
        Some(_) => {
            let mut by: Vec<(u64, Vec<String>)> = vec![];
            for rc in &recs {
                let s = format!("mkRec {} {} {}", l(&rc.fields), coq_ops(&rc.body), rc.tag);
                match by.iter_mut().find(|x| x.0 == rc.kind) { Some(x) => x.1.push(s), None => by.push((rc.kind, vec![s])) }
            }
            format!("(Some [{}])", by.iter().map(|(k, v)| format!("({k}, [{}])", v.join("; "))).collect::<Vec<_>>().join("; "))
        }
    };
    let enc_s = match &dec {
        Some(d) => {
            let tb = d.funcs.iter().position(|f| *f == target_fp).map(|p| d.bodies[p].clone()).unwrap_or(vec![Op::Other(BAD)]);
            format!("(Some (mkE {} {} {} {} [], {}))", pairs(&d.imports), l(&d.funcs), l(&d.globals), l(&d.mems), coq_ops(&tb))
        }
        None => if undecodable || !replay_same { format!("(Some (mkE [] [] [] [] [], [FOther {BAD}]))") } else { "None".to_string() },
    };
    let plan_s = plan.iter().map(|p| format!("({}%nat, {}, {}, {})", p.idx, p.mode.coq(), coq_ops(&p.ops), tg_coq(&p.tg))).collect::<Vec<_>>().join("; ");
    let fl = |x: &Option<(Vec<Op>, Tg)>| match x { None => "None".to_string(), Some((o, t)) => format!("(Some ({}, {}))", coq_ops(o), tg_coq(t)) };
    let coq = format!(
        "mkSC {} {} {} {} {} {} {} {} {} [{}] [{}] {} {} [{}] {} {} {}",
        pairs(&base.imports), l(&base.funcs), l(&base.globals), l(&base.mems), base.ntypes, l(&base.exports), base.ndata, base.target, coq_ops(&base.body),
        hist.iter().map(|h| h.coq()).collect::<Vec<_>>().join("; "), plan_s, fl(&entry), fl(&exit),
        rets.iter().map(|x| match x { Some(v) => format!("Some {v}"), None => "None".into() }).collect::<Vec<_>>().join("; "),
        coq_bool(api_panic), fx_s, enc_s
    );
    let desc = format!(
        "imports={:?} funcs={:?} globals={:?} mems={:?} ntypes={} exports={:?} ndata={} target={} base_valid={} body=[{}] hist={} plan=[{}] entry={} exit={} rets={:?} => api_panic={} fx={} enc={}",
        base.imports, base.funcs, base.globals, base.mems, base.ntypes, base.exports, base.ndata, base.target, base_valid, show(&base.body),
        hist.iter().map(|h| match h { SOp::AddLocal(s, fp, b, t) => format!("AddLocal({},{},[{}],{})", spn(*s), fp, show(b), t), h => format!("{:?}", h) }).collect::<Vec<_>>().join(" "),
        plan.iter().map(|p| format!("@{} {:?} [{}] tag={:?}", p.idx, p.mode, show(&p.ops), p.tg)).collect::<Vec<_>>().join(", "),
        match &entry { None => "-".into(), Some((o, t)) => format!("[{}] tag={:?}", show(o), t) }, match &exit { None => "-".into(), Some((o, t)) => format!("[{}] tag={:?}", show(o), t) },
        rets, api_panic,
        match &fx { None => "PULL-PANIC".to_string(), Some(_) => recs.iter().map(|rc| format!("{{k{} {:?} [{}] tag={}}}", rc.kind, rc.fields, show(&rc.body), rc.tag)).collect::<Vec<_>>().join(" ") },
        match &dec { Some(d) => format!("imports={:?} funcs={:?} globals={:?} mems={:?} valid={} target_body=[{}]", d.imports, d.funcs, d.globals, d.mems, out_valid,
                                        d.funcs.iter().position(|f| *f == target_fp).map(|p| show(&d.bodies[p])).unwrap_or("?".into())),
                     None => if undecodable { "UNDECODABLE".into() } else if !replay_same { "REPLAY-DIFFERS".into() } else { "NO-OUTPUT".to_string() } }
    );
    let mut tags = vec![format!("hist_len={}", hist.len()), format!("api_panic={}", api_panic), format!("pulled={}", fx.is_some()), format!("encoded={}", encd.is_some()),
                        format!("plan_len={}", plan.len()), format!("special_modes_allowed={}", special_ok), format!("base_valid={}", base_valid)];
    for h in &hist { tags.push(h.tag()); }
    for p in &plan { tags.push(format!("probe={:?}/{}", p.mode, if p.tg.is_some() { "tagged" } else { "untagged" })); }
    if entry.is_some() { tags.push("probe=FuncEntry".into()); }
    if exit.is_some() { tags.push("probe=FuncExit".into()); }
    Case { seed, idx, coq, desc, nontrivial: !hist.is_empty() || !plan.is_empty(), tags }
}
