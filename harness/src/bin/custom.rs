// Correspondence harness of the custom engine (C28).
// A random small module (random subset of the standard sections) with 0-5 custom sections at random
// positions between the standard sections (plain ones with odd names, "producers" sections in five states,
// optionally a name section — normally after the code, rarely early or malformed), a random sequence of
// calls on module.custom_sections (add / delete / get_section_data_mut / get_id / get_by_id / len), encode.
// Observed: what every call returned; the (name, data) list of the non-name custom sections of the output in
// file order; a token of "everything else" (wasmprinter text of the binary without those sections) for the
// input, for the output, and for a parse-then-encode without edits.  Strings/bytes are hash-consed per case
// ("name" = 0, "producers" = 1).
use std::collections::HashMap;
use std::panic::{catch_unwind, AssertUnwindSafe};
use vharness::*;
use wirm::ir::id::CustomSectionID;
use wirm::ir::types::CustomSection;
use wirm::Module;

fn leb(mut n: usize, out: &mut Vec<u8>) {
    loop {
        let b = (n & 0x7f) as u8;
        n >>= 7;
        if n == 0 { out.push(b); break; } else { out.push(b | 0x80); }
    }
}
fn read_leb(b: &[u8], pos: &mut usize) -> Option<usize> {
    let mut r = 0usize;
    let mut sh = 0;
    loop {
        let x = *b.get(*pos)?;
        *pos += 1;
        r |= ((x & 0x7f) as usize) << sh;
        if x & 0x80 == 0 { return Some(r); }
        sh += 7;
        if sh > 35 { return None; }
    }
}
/// sections of a core module binary: (id, content)
fn sections(b: &[u8]) -> Option<Vec<(u8, Vec<u8>)>> {
    if b.len() < 8 || &b[0..8] != b"\0asm\x01\0\0\0" { return None; }
    let mut pos = 8;
    let mut v = vec![];
    while pos < b.len() {
        let id = b[pos];
        pos += 1;
        let n = read_leb(b, &mut pos)?;
        if pos + n > b.len() { return None; }
        v.push((id, b[pos..pos + n].to_vec()));
        pos += n;
    }
    Some(v)
}
fn custom_parts(content: &[u8]) -> Option<(String, Vec<u8>)> {
    let mut pos = 0;
    let n = read_leb(content, &mut pos)?;
    if pos + n > content.len() { return None; }
    let name = String::from_utf8(content[pos..pos + n].to_vec()).ok()?;
    Some((name, content[pos + n..].to_vec()))
}
fn assemble(secs: &[(u8, Vec<u8>)]) -> Vec<u8> {
    let mut out = b"\0asm\x01\0\0\0".to_vec();
    for (id, c) in secs { out.push(*id); leb(c.len(), &mut out); out.extend_from_slice(c); }
    out
}
fn custom_content(name: &str, data: &[u8]) -> Vec<u8> {
    let mut c = vec![];
    leb(name.len(), &mut c);
    c.extend_from_slice(name.as_bytes());
    c.extend_from_slice(data);
    c
}

struct Toks { names: HashMap<String, u64>, datas: HashMap<Vec<u8>, u64>, rests: HashMap<String, u64> }
impl Toks {
    fn new() -> Toks {
        let mut names = HashMap::new();
        names.insert("name".to_string(), 0);
        names.insert("producers".to_string(), 1);
        Toks { names, datas: HashMap::new(), rests: HashMap::new() }
    }
    fn name(&mut self, s: &str) -> u64 { let n = self.names.len() as u64; *self.names.entry(s.to_string()).or_insert(n) }
    fn data(&mut self, d: &[u8]) -> u64 { let n = self.datas.len() as u64; *self.datas.entry(d.to_vec()).or_insert(n) }
    fn rest(&mut self, s: String) -> u64 { let n = 1 + self.rests.len() as u64; *self.rests.entry(s).or_insert(n) }
}

/// "everything else": the text of the binary without its non-name custom sections
fn rest_text(b: &[u8]) -> String {
    let secs = match sections(b) { Some(s) => s, None => return "UNREADABLE".into() };
    let kept: Vec<(u8, Vec<u8>)> = secs.into_iter().filter(|(id, c)| *id != 0 || custom_parts(c).map(|p| p.0 == "name").unwrap_or(false)).collect();
    match wasmprinter::print_bytes(assemble(&kept)) { Ok(t) => t, Err(e) => format!("UNPRINTABLE {e}") }
}

#[derive(Clone, Debug)]
enum Info { Plain, NameOk(Vec<u32>), NameBad, Prod(u32) }
#[derive(Clone, Debug)]
enum Item { Std(u8, u32), Custom(String, Vec<u8>, Info) }
#[derive(Clone, Debug)]
enum Op { Add(String, Vec<u8>), Delete(u32), Modify(u32, u32, Vec<u8>), GetId(String), Get(u32), Len }

const POOL: &[&str] = &["a", "b", "meta", "target_features", "dylink.0", "linking", "reloc.CODE", "core", "coremodules", "corestack",
    "sourceMappingURL", "", "name2", "Name", "n\u{e4}me", "metadata.code.branch_hint", "component-name", ".debug_info", "producers2"];

fn rand_bytes(r: &mut Rng, max: u64) -> Vec<u8> { (0..r.below(max + 1)).map(|_| r.below(256) as u8).collect() }

struct Gen { items: Vec<Item>, bytes: Vec<u8>, ops: Vec<Op> }

fn gen_case(r: &mut Rng) -> Gen {
    use wasm_encoder as we;
    let nfimp = r.below(3) as u32;
    let nlocal = r.below(4) as u32;
    let nfuncs = nfimp + nlocal;
    let has_mem = r.chance(6, 10);
    let mut m = we::Module::new();
    let mut types = we::TypeSection::new();
    types.ty().function(vec![], vec![]);
    types.ty().function(vec![we::ValType::I32], vec![we::ValType::I64]);
    m.section(&types);
    let gimp = r.chance(1, 4);
    if nfimp > 0 || gimp {
        let mut is = we::ImportSection::new();
        for i in 0..nfimp {
            is.import("env", &format!("f{i}"), we::EntityType::Function(0));
            if i == 0 && gimp { is.import("env", "g", we::EntityType::Global(we::GlobalType { val_type: we::ValType::I32, mutable: false, shared: false })); }
        }
        if nfimp == 0 { is.import("env", "g", we::EntityType::Global(we::GlobalType { val_type: we::ValType::I32, mutable: false, shared: false })); }
        m.section(&is);
    }
    if nlocal > 0 {
        let mut fs = we::FunctionSection::new();
        for _ in 0..nlocal { fs.function(0); }
        m.section(&fs);
    }
    let has_table = nfuncs > 0 && r.chance(1, 3);
    if has_table {
        let mut ts = we::TableSection::new();
        ts.table(we::TableType { element_type: we::RefType::FUNCREF, minimum: 2, maximum: None, table64: false, shared: false });
        m.section(&ts);
    }
    if has_mem {
        let mut ms = we::MemorySection::new();
        ms.memory(we::MemoryType { minimum: 1, maximum: if r.chance(1, 2) { Some(3) } else { None }, memory64: false, shared: false, page_size_log2: None });
        m.section(&ms);
    }
    if r.chance(1, 2) {
        let mut gs = we::GlobalSection::new();
        gs.global(we::GlobalType { val_type: we::ValType::I64, mutable: true, shared: false }, &we::ConstExpr::i64_const(r.below(1000) as i64));
        m.section(&gs);
    }
    if (nfuncs > 0 || has_mem) && r.chance(2, 3) {
        let mut es = we::ExportSection::new();
        if nfuncs > 0 { es.export("run", we::ExportKind::Func, r.below(nfuncs as u64) as u32); }
        if has_mem { es.export("mem", we::ExportKind::Memory, 0); }
        m.section(&es);
    }
    if nfuncs > 0 && r.chance(1, 4) { m.section(&we::StartSection { function_index: r.below(nfuncs as u64) as u32 }); }
    if has_table {
        let mut es = we::ElementSection::new();
        es.active(Some(0), &we::ConstExpr::i32_const(0), we::Elements::Functions(std::borrow::Cow::Owned(vec![r.below(nfuncs as u64) as u32])));
        m.section(&es);
    }
    let has_data = has_mem && r.chance(1, 2);
    if has_data && r.chance(1, 2) { m.section(&we::DataCountSection { count: 1 }); }
    if nlocal > 0 {
        let mut cs = we::CodeSection::new();
        for k in 0..nlocal {
            let mut f = we::Function::new(vec![]);
            if r.chance(1, 2) { f.instruction(&we::Instruction::I32Const(100 + k as i32)); f.instruction(&we::Instruction::Drop); }
            if nfuncs > 0 && r.chance(1, 3) { f.instruction(&we::Instruction::Call(r.below(nfuncs as u64) as u32)); }
            f.instruction(&we::Instruction::End);
            cs.function(&f);
        }
        m.section(&cs);
    }
    if has_data {
        let mut ds = we::DataSection::new();
        ds.active(0, &we::ConstExpr::i32_const(8), rand_bytes(r, 6));
        m.section(&ds);
    }
    let std_secs = sections(&m.finish()).unwrap();
    let mut items: Vec<Item> = std_secs.iter().map(|(id, _)| Item::Std(*id, match id { 2 => nfimp, 10 => nlocal, _ => 0 })).collect();
    let mut raw: Vec<(u8, Vec<u8>)> = std_secs.clone();

    // custom sections at random positions
    let ncustom = r.below(6);
    let mut used_names: Vec<String> = vec![];
    for _ in 0..ncustom {
        let pos = r.below(items.len() as u64 + 1) as usize;
        let (name, data, info) = if r.chance(1, 6) {
            // a producers section
            match r.below(20) {
                0 => ("producers".to_string(), vec![0u8], Info::Prod(1)),                       // zero fields (D09)
                1 => if r.chance(1, 2) { ("producers".to_string(), vec![1u8, 5, b'a'], Info::Prod(1)) }     // first field cut short (D09)
                     else { ("producers".to_string(), vec![1u8, 4, b't', b'o', b'o', b'l', 0], Info::Prod(1)) },  // unknown field name (D09)
                2 | 3 => ("producers".to_string(), vec![], Info::Prod(2)),                      // no header: not recognised, kept
                4 | 5 => {                                                                       // good first field, garbage after it
                    let mut d = vec![2u8, 3, b's', b'd', b'k', 1, 1, b'y', 1, b'z'];
                    d.extend_from_slice(&[0xff, 0xff]);
                    ("producers".to_string(), d, Info::Prod(0))
                }
                _ => {
                    let mut ps = we::ProducersSection::new();
                    let mut f = we::ProducersField::new();
                    f.value("wirm-verif", &format!("{}", r.below(100)));
                    ps.field("processed-by", &f);
                    if r.chance(1, 2) { let mut g = we::ProducersField::new(); g.value("Rust", "2021"); ps.field("language", &g); }
                    let enc = { let mut mm = we::Module::new(); mm.section(&ps); sections(&mm.finish()).unwrap() };
                    let (_, d) = custom_parts(&enc[0].1).unwrap();
                    ("producers".to_string(), d, Info::Prod(0))
                }
            }
        } else {
            let name = if !used_names.is_empty() && r.chance(1, 5) { r.pick(&used_names).clone() } else { r.pick(POOL).to_string() };
            let name = if name == "producers" || name == "name" { "producers2".to_string() } else { name };
            (name, rand_bytes(r, 10), Info::Plain)
        };
        used_names.push(name.clone());
        raw.insert(pos, (0, custom_content(&name, &data)));
        items.insert(pos, Item::Custom(name, data, info));
    }
    // name section
    if r.chance(4, 10) {
        // safe = after the import and code sections (every function the section may name has been seen)
        let safe_lo = items.iter().rposition(|i| matches!(i, Item::Std(2, _) | Item::Std(10, _))).map(|p| p + 1).unwrap_or(0);
        let after_std = items.iter().rposition(|i| matches!(i, Item::Std(_, _))).map(|p| p + 1).unwrap_or(0);
        let lo = if r.chance(1, 20) { 0 } else if r.chance(1, 2) { after_std } else { safe_lo };
        let pos = lo + r.below((items.len() - lo) as u64 + 1) as usize;
        if r.chance(1, 25) {
            let data = vec![1u8, 0x7f, 0];
            raw.insert(pos, (0, custom_content("name", &data)));
            items.insert(pos, Item::Custom("name".into(), data, Info::NameBad));
        } else {
            let mut ns = we::NameSection::new();
            if r.chance(1, 2) { ns.module("m"); }
            let mut fnames = vec![];
            if nfuncs > 0 && r.chance(3, 4) {
                let mut nm = we::NameMap::new();
                for i in 0..nfuncs { if r.chance(1, 2) { nm.append(i, &format!("fn{i}")); fnames.push(i); } }
                ns.functions(&nm);
            }
            let enc = { let mut mm = we::Module::new(); mm.section(&ns); sections(&mm.finish()).unwrap() };
            let (_, d) = custom_parts(&enc[0].1).unwrap();
            raw.insert(pos, (0, custom_content("name", &d)));
            items.insert(pos, Item::Custom("name".into(), d, Info::NameOk(fnames)));
        }
    }
    let bytes = assemble(&raw);

    // edit sequence (the generator keeps its own idea of the current length only to aim ids)
    let mut cur: u32 = items.iter().filter(|i| matches!(i, Item::Custom(n, _, _) if n != "name")).count() as u32;
    let nops = if r.chance(3, 20) { 0 } else { r.range(1, 6) };
    let mut ops = vec![];
    let aim = |r: &mut Rng, cur: u32| -> u32 { if cur > 0 && !r.chance(1, 8) { r.below(cur as u64) as u32 } else if r.chance(1, 6) { u32::MAX - r.below(3) as u32 } else { cur + r.below(3) as u32 } };
    for _ in 0..nops {
        match r.below(100) {
            0..=34 => {
                let name = if !used_names.is_empty() && r.chance(1, 4) { r.pick(&used_names).clone() } else { r.pick(POOL).to_string() };
                let name = if name == "name" { "name2".to_string() } else { name };
                used_names.push(name.clone());
                ops.push(Op::Add(name, rand_bytes(r, 8)));
                cur += 1;
            }
            35..=54 => { let id = aim(r, cur); if id < cur { cur -= 1; } ops.push(Op::Delete(id)); }
            55..=74 => { let id = aim(r, cur); ops.push(Op::Modify(id, r.below(4) as u32, rand_bytes(r, 6))); }
            75..=84 => { let name = if !used_names.is_empty() && r.chance(3, 4) { r.pick(&used_names).clone() } else { r.pick(POOL).to_string() }; ops.push(Op::GetId(name)); }
            85..=92 => { let id = if cur > 0 && !r.chance(1, 12) { r.below(cur as u64) as u32 } else { cur + r.below(2) as u32 }; ops.push(Op::Get(id)); }
            _ => ops.push(Op::Len),
        }
    }
    Gen { items, bytes, ops }
}

struct Obs { status: u32, results: Vec<Vec<u64>>, out: Vec<(u64, u64)>, rest_out: u64, rest_noedit: u64, after_name: bool }

fn run_case(g: &Gen, ops_coq: &mut Vec<String>, t: &mut Toks) -> Obs {
    let failed = |s| Obs { status: s, results: vec![], out: vec![], rest_out: 0, rest_noedit: 0, after_name: true };
    // names handed to CustomSection::new must outlive the module
    let add_names: Vec<String> = g.ops.iter().filter_map(|o| if let Op::Add(n, _) = o { Some(n.clone()) } else { None }).collect();
    let bytes = &g.bytes;
    let res = catch_unwind(AssertUnwindSafe(|| {
        let mut module = match Module::parse(bytes, false) { Ok(m) => m, Err(_) => return Err(2) };
        let mut results: Vec<(Vec<u64>, Option<(String, Vec<u8>)>, Option<Vec<u8>>)> = vec![];
        let mut k = 0;
        for o in &g.ops {
            match o {
                Op::Add(_, d) => { let id = module.custom_sections.add(CustomSection::new(&add_names[k], d.clone())); k += 1; results.push((vec![*id as u64], None, None)); }
                Op::Delete(id) => { module.custom_sections.delete(CustomSectionID(*id)); results.push((vec![], None, None)); }
                Op::Modify(id, how, d) => match module.custom_sections.get_section_data_mut(CustomSectionID(*id)) {
                    Some(v) => {
                        match how { 0 => { v.clear(); v.extend_from_slice(d); } 1 => v.extend_from_slice(d), 2 => v.clear(), _ => { let n = v.len() / 2; v.truncate(n); v.extend_from_slice(d); } }
                        results.push((vec![1], None, Some(v.clone())));
                    }
                    None => results.push((vec![0], None, None)),
                },
                Op::GetId(n) => results.push((module.custom_sections.get_id(n.clone()).map(|i| vec![*i as u64]).unwrap_or_default(), None, None)),
                Op::Get(id) => { let s = module.custom_sections.get_by_id(CustomSectionID(*id)); results.push((vec![], Some((s.name.to_string(), s.data.to_vec())), None)); }
                Op::Len => { let n = module.custom_sections.len(); assert_eq!(n == 0, module.custom_sections.is_empty()); assert_eq!(n, module.custom_sections.iter().count()); results.push((vec![n as u64], None, None)); }
            }
        }
        let out = module.encode();
        let mut plain = Module::parse(bytes, false).expect("second parse");
        Ok((results, out, plain.encode()))
    }));
    // the Coq terms of the operations (the data written by a modification is only known after the call)
    let op_terms = |t: &mut Toks, written: &[Option<Vec<u8>>]| -> Vec<String> {
        g.ops.iter().enumerate().map(|(i, o)| match o {
            Op::Add(n, d) => format!("OAdd {} {}", t.name(n), t.data(d)),
            Op::Delete(id) => format!("ODelete {}", id),
            Op::Modify(id, how, d) => {
                let w = match written.get(i).and_then(|x| x.clone()) { Some(w) => w, None => if *how == 0 { d.clone() } else { vec![0xEE, *how as u8] } };
                format!("OModify {} {}", id, t.data(&w))
            }
            Op::GetId(n) => format!("OGetId {}", t.name(n)),
            Op::Get(id) => format!("OGet {}", id),
            Op::Len => "OLen".to_string(),
        }).collect()
    };
    match res {
        Err(_) => { *ops_coq = op_terms(t, &[]); failed(1) }
        Ok(Err(s)) => { *ops_coq = op_terms(t, &[]); failed(s) }
        Ok(Ok((results, out, plain))) => {
            let written: Vec<Option<Vec<u8>>> = results.iter().map(|r| r.2.clone()).collect();
            *ops_coq = op_terms(t, &written);
            let results: Vec<Vec<u64>> = results.into_iter().map(|(v, got, _)| match got { Some((n, d)) => vec![t.name(&n), t.data(&d)], None => v }).collect();
            let secs = match sections(&out) { Some(s) => s, None => return failed(3) };
            let mut outl = vec![];
            let mut after_name = true;
            let last_std = secs.iter().rposition(|(id, _)| *id != 0);
            let name_pos = secs.iter().position(|(id, c)| *id == 0 && custom_parts(c).map(|p| p.0 == "name").unwrap_or(false));
            for (i, (id, c)) in secs.iter().enumerate() {
                if *id != 0 { continue; }
                match custom_parts(c) {
                    Some((n, d)) => if n != "name" {
                        outl.push((t.name(&n), t.data(&d)));
                        if last_std.map(|p| i < p).unwrap_or(false) || name_pos.map(|p| i < p).unwrap_or(true) { after_name = false; }
                    },
                    None => return failed(3),
                }
            }
            let ro = rest_text(&out);
            let rn = rest_text(&plain);
            Obs { status: 0, results, out: outl, rest_out: t.rest(ro), rest_noedit: t.rest(rn), after_name }
        }
    }
}

fn main() {
    let args = parse_args();
    let header = "From Coq Require Import List NArith.\nImport ListNotations.\nFrom Orca Require Import Custom CheckCustom.\nOpen Scope N_scope.";
    let footer = format!("Eval vm_compute in (report_{} cases).", args.prop);
    run_shards(&args, header, "ccase", &footer, |seed, idx| {
        let mut r = Rng::for_case(seed, idx);
        let g = gen_case(&mut r);
        let mut t = Toks::new();
        // tokens of the input first, so that they do not depend on what the implementation does
        let layout: Vec<String> = g.items.iter().map(|i| match i {
            Item::Std(id, n) => format!("IStd {} {}", id, n),
            Item::Custom(n, d, info) => format!("ICustom {} {} {}", t.name(n), t.data(d), match info {
                Info::Plain => "CPlain".to_string(), Info::NameOk(f) => format!("(CNameOk {})", coq_list(f, |x| x.to_string())),
                Info::NameBad => "CNameBad".to_string(), Info::Prod(s) => format!("(CProd {})", s) }),
        }).collect();
        let rest_in = t.rest(rest_text(&g.bytes));
        let mut ops_coq = vec![];
        let o = run_case(&g, &mut ops_coq, &mut t);
        let coq = format!("mkCC [{}] [{}] {} {} {} {} {} {} {}", layout.join("; "), ops_coq.join("; "), rest_in, o.status,
            coq_list(&o.results, |v| coq_list(v, |x| x.to_string())), coq_list(&o.out, |(a, b)| format!("({a}, {b})")), o.rest_out, o.rest_noedit, coq_bool(o.after_name));
        let show_items: Vec<String> = g.items.iter().map(|i| match i { Item::Std(id, _) => format!("#{id}"), Item::Custom(n, d, info) => format!("custom({:?},{:02x?},{:?})", n, d, info) }).collect();
        let desc = format!("layout=[{}] ops={:?} => status={} results={:?} out={:?} rest_in={} rest_noedit={} rest_out={} after_name={} (tokens: {:?})",
            show_items.join(" "), g.ops, match o.status { 0 => "encoded", 1 => "PANIC", 2 => "parse Err", _ => "undecodable output" }, o.results, o.out, rest_in, o.rest_noedit, o.rest_out, o.after_name,
            { let mut v: Vec<(&String, &u64)> = t.names.iter().collect(); v.sort_by_key(|x| *x.1); v });
        let ncust = g.items.iter().filter(|i| matches!(i, Item::Custom(n, _, _) if n != "name")).count();
        let mut tags = vec![format!("n_custom={}", ncust), format!("n_ops={}", g.ops.len()), format!("status={}", o.status)];
        for i in &g.items { if let Item::Custom(n, _, info) = i { match info { Info::Prod(s) => tags.push(format!("producers_state={s}")), Info::NameOk(_) => tags.push("name_section".into()), Info::NameBad => tags.push("name_section_malformed".into()), Info::Plain => { if n.is_empty() { tags.push("empty_name".into()); } } } } }
        for o in &g.ops { tags.push(format!("op={}", match o { Op::Add(..) => "add", Op::Delete(_) => "delete", Op::Modify(..) => "modify", Op::GetId(_) => "get_id", Op::Get(_) => "get_by_id", Op::Len => "len" })); }
        if g.items.iter().enumerate().any(|(i, it)| matches!(it, Item::Custom(..)) && g.items[i + 1..].iter().any(|x| matches!(x, Item::Std(..)))) { tags.push("custom_before_a_standard_section".into()); }
        Case { seed, idx, coq, desc, nontrivial: ncust > 0 || !g.ops.is_empty(), tags }
    });
}
