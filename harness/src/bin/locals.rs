// Correspondence harness of the locals engine (C14).
// A random function (0-3 parameters, 0-4 declared local groups) inside a random small module (optionally
// inside a component), a sequence of 1-8 local additions of random value types through every
// local-adding API of wirm:
//   path 0 FunctionBuilder::add_local (before finish_module / finish_component)
//   path 1 FunctionModifier::add_local (module.functions.get_fn_modifier)
//   path 2 ModuleIterator::add_local
//   path 3 ComponentIterator::add_local (module inside a component)
//   path 4 FunctionModifier::add_locals (consecutive path-4 requests are one call; returns nothing)
//   path 5 LocalFunction::add_local (module.functions.unwrap_local)
// A built function is installed with finish_module / finish_component or, in a third of the module-level cases with a
// function import, with replace_import_in_module (the import's type is (i64) -> (): one parameter, no result), and the
// later additions then go to the function that replaced the import.
// Observed: the returned ids, and the decoded parameter types + local groups of the function in the
// encoded output; whether every *other* function still has the parameters and locals it had.
use std::collections::HashMap;
use std::panic::{catch_unwind, AssertUnwindSafe};
use vharness::*;
use wirm::ir::function::FunctionBuilder;
use wirm::ir::id::{FunctionID, ImportsID, ModuleID};
use wirm::ir::types::Location;
use wirm::iterator::component_iterator::ComponentIterator;
use wirm::iterator::iterator_trait::Iterator;
use wirm::iterator::module_iterator::ModuleIterator;
use wirm::module_builder::AddLocal;
use wirm::{Component, DataType, Module};

const NTYPES: u64 = 16;
fn tok_dt(t: u32) -> DataType {
    match t {
        0 => DataType::I32, 1 => DataType::I64, 2 => DataType::F32, 3 => DataType::F64, 4 => DataType::V128,
        5 => DataType::FuncRefNull, 6 => DataType::ExternRefNull, 7 => DataType::FuncRef, 8 => DataType::ExternRef,
        9 => DataType::AnyNull, 10 => DataType::EqNull, 11 => DataType::I31Null, 12 => DataType::StructNull,
        13 => DataType::ArrayNull, 14 => DataType::Any, _ => DataType::NoneNull,
    }
}
fn tok_enc(t: u32) -> wasm_encoder::ValType {
    use wasm_encoder::{AbstractHeapType as A, HeapType, RefType, ValType as V};
    let r = |nullable, ty| V::Ref(RefType { nullable, heap_type: HeapType::Abstract { shared: false, ty } });
    match t {
        0 => V::I32, 1 => V::I64, 2 => V::F32, 3 => V::F64, 4 => V::V128,
        5 => r(true, A::Func), 6 => r(true, A::Extern), 7 => r(false, A::Func), 8 => r(false, A::Extern),
        9 => r(true, A::Any), 10 => r(true, A::Eq), 11 => r(true, A::I31), 12 => r(true, A::Struct),
        13 => r(true, A::Array), 14 => r(false, A::Any), _ => r(true, A::None),
    }
}
fn vt_tok(t: wasmparser::ValType) -> u32 {
    use wasmparser::{AbstractHeapType as A, HeapType, ValType as V};
    match t {
        V::I32 => 0, V::I64 => 1, V::F32 => 2, V::F64 => 3, V::V128 => 4,
        V::Ref(r) => match r.heap_type() {
            HeapType::Abstract { shared: false, ty } => match (r.is_nullable(), ty) {
                (true, A::Func) => 5, (true, A::Extern) => 6, (false, A::Func) => 7, (false, A::Extern) => 8,
                (true, A::Any) => 9, (true, A::Eq) => 10, (true, A::I31) => 11, (true, A::Struct) => 12,
                (true, A::Array) => 13, (false, A::Any) => 14, (true, A::None) => 15,
                _ => 900,
            },
            _ => 901,
        },
    }
}
fn gen_ty(r: &mut Rng) -> u32 { if r.chance(7, 10) { r.below(7) as u32 } else { r.below(NTYPES) as u32 } }

#[derive(Clone, Debug)]
struct FuncDef { params: Vec<u32>, groups: Vec<(u32, u32)>, nops: u32 }
#[derive(Clone, Debug)]
struct ModDef { nimports: u32, funcs: Vec<FuncDef> }

fn gen_func(r: &mut Rng) -> FuncDef {
    let params = (0..r.below(4)).map(|_| gen_ty(r)).collect();
    let mut groups = vec![];
    for _ in 0..r.below(5) {
        let c = if r.chance(1, 12) { 0 } else { 1 + r.below(3) as u32 };
        groups.push((c, gen_ty(r)));
    }
    FuncDef { params, groups, nops: r.below(4) as u32 }
}
fn gen_mod(r: &mut Rng, min_funcs: u64) -> ModDef {
    let nimports = r.below(3) as u32;
    let n = r.range(min_funcs, 3);
    ModDef { nimports, funcs: (0..n).map(|_| gen_func(r)).collect() }
}
fn build_module(m: &ModDef) -> wasm_encoder::Module {
    use wasm_encoder as we;
    let mut out = we::Module::new();
    let mut types = we::TypeSection::new();
    types.ty().function(vec![we::ValType::I64], vec![]);
    for f in &m.funcs { types.ty().function(f.params.iter().map(|t| tok_enc(*t)).collect::<Vec<_>>(), vec![]); }
    out.section(&types);
    if m.nimports > 0 {
        let mut is = we::ImportSection::new();
        for i in 0..m.nimports { is.import("env", &format!("imp{i}"), we::EntityType::Function(0)); }
        out.section(&is);
    }
    let mut funcs = we::FunctionSection::new();
    for i in 0..m.funcs.len() { funcs.function(1 + i as u32); }
    out.section(&funcs);
    let mut code = we::CodeSection::new();
    for f in &m.funcs {
        let mut b = we::Function::new(f.groups.iter().map(|(c, t)| (*c, tok_enc(*t))).collect::<Vec<_>>());
        for _ in 0..f.nops { b.instruction(&we::Instruction::Nop); }
        b.instruction(&we::Instruction::End);
        code.function(&b);
    }
    out.section(&code);
    out
}

/// per module of the binary: for every function index (imports first) the decoded (params, local groups)
type FnSig = (Vec<u32>, Vec<(u32, u32)>);
fn decode(bytes: &[u8]) -> Option<Vec<Vec<FnSig>>> {
    use wasmparser::{CompositeInnerType, Encoding, Payload, TypeRef};
    struct M { types: Vec<Vec<u32>>, imps: Vec<u32>, funcs: Vec<u32>, bodies: Vec<Vec<(u32, u32)>> }
    let mut mods: Vec<M> = vec![];
    for p in wasmparser::Parser::new(0).parse_all(bytes) {
        match p.ok()? {
            Payload::Version { encoding: Encoding::Module, .. } => mods.push(M { types: vec![], imps: vec![], funcs: vec![], bodies: vec![] }),
            Payload::TypeSection(rd) => {
                for rg in rd {
                    for st in rg.ok()?.into_types() {
                        let ps = match &st.composite_type.inner { CompositeInnerType::Func(f) => f.params().iter().map(|t| vt_tok(*t)).collect(), _ => vec![999] };
                        mods.last_mut()?.types.push(ps);
                    }
                }
            }
            Payload::ImportSection(rd) => {
                for i in rd { if let TypeRef::Func(t) = i.ok()?.ty { mods.last_mut()?.imps.push(t); } }
            }
            Payload::FunctionSection(rd) => { for f in rd { mods.last_mut()?.funcs.push(f.ok()?); } }
            Payload::CodeSectionEntry(b) => {
                let mut g = vec![];
                for l in b.get_locals_reader().ok()? { let (n, t) = l.ok()?; g.push((n, vt_tok(t))); }
                mods.last_mut()?.bodies.push(g);
            }
            _ => {}
        }
    }
    let mut res = vec![];
    for m in mods {
        if m.funcs.len() != m.bodies.len() { return None; }
        let mut v = vec![];
        for t in &m.imps { v.push((m.types.get(*t as usize)?.clone(), vec![])); }
        for (t, b) in m.funcs.iter().zip(m.bodies.into_iter()) { v.push((m.types.get(*t as usize)?.clone(), b)); }
        res.push(v);
    }
    Some(res)
}

struct LCase {
    in_comp: bool,
    mods: Vec<ModDef>,          // one module, or the modules of the component
    midx: usize,                // module that holds the function
    builder: Option<(Vec<u32>, usize)>, // built function: (params, number of leading ops done through the builder)
    target: usize,              // local function position in mods[midx] (ignored for a built function)
    ops: Vec<(u32, u32)>,       // (path, type)
    replace: bool,              // the built function replaces import 0 (FunctionBuilder::replace_import_in_module)
}

fn gen_case(r: &mut Rng) -> LCase {
    let in_comp = r.chance(3, 10);
    let nmods = if in_comp { r.range(1, 2) as usize } else { 1 };
    let mods: Vec<ModDef> = (0..nmods).map(|_| gen_mod(r, 1)).collect();
    let midx = r.below(nmods as u64) as usize;
    let target = r.below(mods[midx].funcs.len() as u64) as usize;
    let nops = r.range(1, 8) as usize;
    let mut builder: Option<(Vec<u32>, usize)> = if r.chance(3, 10) { Some(((0..r.below(4)).map(|_| gen_ty(r)).collect(), r.range(1, nops as u64) as usize)) } else { None };
    let replace = builder.is_some() && !in_comp && mods[midx].nimports >= 1 && r.chance(1, 3);
    if replace { if let Some((ps, nb)) = &mut builder { *ps = vec![1]; *nb = (*nb).min(nops.saturating_sub(1)); } }   // the signature of the import; at least one later addition
    let later: Vec<u32> = if in_comp { vec![3, 3, 3, 1, 4, 5] } else { vec![1, 2, 2, 4, 5] };
    let mut ops: Vec<(u32, u32)> = vec![];
    let uniform_ty = if r.chance(1, 6) { Some(gen_ty(r)) } else { None };
    for k in 0..nops {
        let path = match &builder { Some((_, nb)) if k < *nb => 0, _ => *r.pick(&later) };
        // runs of equal types exercise the run-length merge, changes of type the push of a new group
        let ty = match uniform_ty { Some(t) => t, None => if k > 0 && r.chance(1, 3) { ops[k - 1].1 } else { gen_ty(r) } };
        ops.push((path, ty));
    }
    LCase { in_comp, mods, midx, builder, target, ops, replace }
}

enum Host<'a> { M(Module<'a>), C(Component<'a>) }
impl<'a> Host<'a> {
    fn module(&mut self, midx: usize) -> &mut Module<'a> { match self { Host::M(m) => m, Host::C(c) => &mut c.modules[midx] } }
}

struct Obs { ids: Vec<Option<u32>>, params: Vec<u32>, groups: Vec<(u32, u32)>, others_same: bool }

fn run_case(c: &LCase) -> Option<Obs> {
    let wmods: Vec<wasm_encoder::Module> = c.mods.iter().map(build_module).collect();
    let bytes: Vec<u8> = if c.in_comp {
        let mut comp = wasm_encoder::Component::new();
        for m in &wmods { comp.section(&wasm_encoder::ModuleSection(m)); }
        comp.finish()
    } else { wmods[0].clone().finish() };
    let before = decode(&bytes)?;
    let res = catch_unwind(AssertUnwindSafe(|| {
        let mut host = if c.in_comp { Host::C(Component::parse(&bytes, false).expect("parse component")) } else { Host::M(Module::parse(&bytes, false).expect("parse module")) };
        let mut ids: Vec<Option<u32>> = vec![];
        let mut k = 0;
        let fid: u32;
        if let Some((params, nb)) = &c.builder {
            let ps: Vec<DataType> = params.iter().map(|t| tok_dt(*t)).collect();
            let mut fb = FunctionBuilder::new(&ps, &[]);
            while k < *nb { ids.push(Some(*fb.add_local(tok_dt(c.ops[k].1)))); k += 1; }
            fid = match &mut host {
                Host::M(m) if c.replace => { fb.replace_import_in_module(m, ImportsID(0)); 0 }
                Host::M(m) => *fb.finish_module(m),
                Host::C(comp) => *fb.finish_component(comp, ModuleID(c.midx as u32)),
            };
        } else {
            fid = c.mods[c.midx].nimports + c.target as u32;
        }
        while k < c.ops.len() {
            let (path, ty) = c.ops[k];
            match path {
                1 => {
                    let mut fm = host.module(c.midx).functions.get_fn_modifier(FunctionID(fid)).expect("modifier");
                    ids.push(Some(*fm.add_local(tok_dt(ty))));
                    k += 1;
                }
                4 => {
                    let mut tys = vec![];
                    while k < c.ops.len() && c.ops[k].0 == 4 { tys.push(tok_dt(c.ops[k].1)); ids.push(None); k += 1; }
                    let mut fm = host.module(c.midx).functions.get_fn_modifier(FunctionID(fid)).expect("modifier");
                    fm.add_locals(&tys);
                }
                5 => {
                    ids.push(Some(*host.module(c.midx).functions.unwrap_local(FunctionID(fid)).add_local(tok_dt(ty))));
                    k += 1;
                }
                2 => {
                    let m = host.module(c.midx);
                    let mut it = ModuleIterator::new(m, &vec![]);
                    let mut guard = 0;
                    loop {
                        if let (Location::Module { func_idx, .. }, _) = it.curr_loc() { if *func_idx == fid { break; } }
                        if it.next().is_none() { guard += 1; if guard > 2 { panic!("iterator never reached the function"); } }
                    }
                    // a random position inside the function
                    ids.push(Some(*it.add_local(tok_dt(ty))));
                    k += 1;
                }
                _ => {
                    let comp = match &mut host { Host::C(c) => c, _ => panic!("no component") };
                    let mut it = ComponentIterator::new(comp, HashMap::new());
                    let mut guard = 0;
                    loop {
                        if let (Location::Component { mod_idx, func_idx, .. }, _) = it.curr_loc() { if *mod_idx as usize == c.midx && *func_idx == fid { break; } }
                        if it.next().is_none() { guard += 1; if guard > 2 { panic!("iterator never reached the function"); } }
                    }
                    ids.push(Some(*it.add_local(tok_dt(ty))));
                    k += 1;
                }
            }
        }
        let out = match &mut host { Host::M(m) => m.encode(), Host::C(c) => c.encode() };
        (ids, fid, out)
    }));
    let (ids, fid, out) = res.ok()?;
    let after = decode(&out)?;
    if after.len() != before.len() { return None; }
    let m = after.get(c.midx)?;
    // the function that replaced import 0 is a local function now: it stands last in the index space, everything else moves up by one
    let fpos = if c.replace { m.len().checked_sub(1)? } else { fid as usize };
    let (params, groups) = m.get(fpos)?.clone();
    let mut others_same = true;
    for (mi, bm) in before.iter().enumerate() {
        for (fi, sig) in bm.iter().enumerate() {
            if mi == c.midx && c.replace { if fi == 0 { continue; } if after[mi].get(fi - 1) != Some(sig) { others_same = false; } continue; }
            if mi == c.midx && fi == fid as usize { continue; }
            if after[mi].get(fi) != Some(sig) { others_same = false; }
        }
        let extra = if mi == c.midx && c.builder.is_some() && !c.replace { 1 } else { 0 };
        if after[mi].len() != bm.len() + extra { others_same = false; }
    }
    Some(Obs { ids, params, groups, others_same })
}

fn coq_ns(v: &[u32]) -> String { coq_list(v, |x| x.to_string()) }
fn coq_pairs(v: &[(u32, u32)]) -> String { coq_list(v, |(a, b)| format!("({a}, {b})")) }

fn main() {
    let args = parse_args();
    let header = "From Coq Require Import List NArith.\nImport ListNotations.\nFrom Orca Require Import CheckLocals.\nOpen Scope N_scope.";
    let footer = format!("Eval vm_compute in (report_{} cases).", args.prop);
    run_shards(&args, header, "lccase", &footer, |seed, idx| {
        let mut r = Rng::for_case(seed, idx);
        let c = gen_case(&mut r);
        let o = run_case(&c);
        let (params, groups): (Vec<u32>, Vec<(u32, u32)>) = match &c.builder {
            Some((ps, _)) => (ps.clone(), vec![]),
            None => { let f = &c.mods[c.midx].funcs[c.target]; (f.params.clone(), f.groups.clone()) }
        };
        let obs_s = match &o {
            None => "None".to_string(),
            Some(o) => format!("(Some ({}, {}, {}, {}))", coq_list(&o.ids, |i| coq_opt(i, |x| x.to_string())), coq_ns(&o.params), coq_pairs(&o.groups), coq_bool(o.others_same)),
        };
        let coq = format!("mkLC {} {} {} {}", coq_ns(&params), coq_pairs(&groups), coq_pairs(&c.ops), obs_s);
        let desc = format!(
            "{} module#{} of {} {} params={:?} groups(count,type)={:?} ops(path,type)={:?} => {}",
            if c.in_comp { "component" } else { "module" }, c.midx, c.mods.len(),
            match &c.builder { Some((_, nb)) => format!("built function ({} additions before {})", nb, if c.replace { "replace_import_in_module" } else { "finish" }), None => format!("local function #{} (imports={})", c.target, c.mods[c.midx].nimports) },
            params, groups, c.ops,
            match &o { None => "PANIC/undecodable".to_string(), Some(o) => format!("ids={:?} params={:?} groups={:?} others_same={}", o.ids, o.params, o.groups, o.others_same) }
        );
        let mut tags = vec![
            format!("host={}", if c.in_comp { "component" } else { "module" }),
            format!("start={}", if c.replace { "builder_replacing_import" } else if c.builder.is_some() { "builder" } else { "parsed" }),
            format!("n_ops={}", c.ops.len()), format!("n_groups={}", groups.len()), format!("n_params={}", params.len()),
            format!("obs={}", if o.is_some() { "encoded" } else { "panicked" }),
        ];
        for (p, _) in &c.ops { tags.push(format!("path={}", p)); }
        if groups.iter().any(|g| g.0 == 0) { tags.push("zero_count_group".into()); }
        if c.ops.iter().any(|(_, t)| *t >= 7) || params.iter().any(|t| *t >= 7) || groups.iter().any(|g| g.1 >= 7) { tags.push("gc_or_nonnull_reftype".into()); }
        Case { seed, idx, coq, desc, nontrivial: !c.ops.is_empty(), tags }
    });
}
