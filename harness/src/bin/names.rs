// Correspondence harness of the name-section engine (C29).
// Base modules with imports of all five kinds, local functions with parameters / locals, globals, a table,
// memories, element / data segments and a *complete* name section placed after the code and data sections
// (module, function, local, label, type, table, memory, global, element, data and tag names); histories of
// index-shifting edits mixed with naming calls; the decoded name section and the decoded entity layout of the
// real output are handed to Coq.  Every entity carries a fingerprint: function = first `i32.const fp` of its
// body / import field name `i<fp>`; global = init constant / import field name; memory = initial size.
// Name strings are `n<k>` (token k); an import field name `i<fp>` used as a name is token 1000000 + fp.
use std::panic::{catch_unwind, AssertUnwindSafe};
use vharness::wasmgen::validates;
use vharness::*;
use wasmparser::Operator;
use wirm::ir::function::FunctionBuilder;
use wirm::ir::id::*;
use wirm::ir::module::module_functions::FuncKind;
use wirm::ir::module::module_globals::{Global, GlobalKind, LocalGlobal};
use wirm::ir::types::{InitExpr, InitInstr, Value};
use wirm::iterator::iterator_trait::IteratingInstrumenter;
use wirm::iterator::module_iterator::ModuleIterator;
use wirm::{DataType, Module, Opcode};

const TOK_IMPORT: u64 = 1_000_000;
const TOK_BAD: u64 = 999_999_999;

type NMap = Vec<(u64, u64)>;
type IMap = Vec<(u64, NMap)>;
#[derive(Clone, Debug, Default)]
struct Names { module: Option<u64>, funcs: NMap, locals: IMap, labels: IMap, types: NMap, tables: NMap, mems: NMap, globals: NMap, elems: NMap, datas: NMap, tags: NMap }

fn nm(v: &NMap) -> String { format!("[{}]", v.iter().map(|(a, b)| format!("({a}, {b})")).collect::<Vec<_>>().join("; ")) }
fn im(v: &IMap) -> String { format!("[{}]", v.iter().map(|(a, b)| format!("({a}, {})", nm(b))).collect::<Vec<_>>().join("; ")) }
impl Names {
    fn coq(&self) -> String {
        format!("(mkNames {} {} {} {} {} {} {} {} {} {} {})", match self.module { Some(t) => format!("(Some {t})"), None => "None".into() },
            nm(&self.funcs), im(&self.locals), im(&self.labels), nm(&self.types), nm(&self.tables), nm(&self.mems), nm(&self.globals), nm(&self.elems), nm(&self.datas), nm(&self.tags))
    }
    fn is_empty(&self) -> bool { self.module.is_none() && self.funcs.is_empty() && self.locals.is_empty() && self.globals.is_empty() }
}

#[derive(Clone, Debug)]
enum Ed { AddLocalF(u64), AddLocalG(u64), AddImport(u8, u64), Delete(u8, u64), LocalToImport(u64, u64), ImportToLocal(u64, u64), ItAddGlobal(u64) }
#[derive(Clone, Debug)]
enum NOp { Edit(Ed, Option<u64>), SetFn(u64, u64), SetLocalFn(u64, u64), ImpSetFn(u64, u64), ImpSetName(u64, u64) }
fn spn(s: u8) -> &'static str { match s { 0 => "SF", 1 => "SG", _ => "SM" } }
impl NOp {
    fn coq(&self) -> String {
        match self {
            NOp::Edit(e, b) => {
                let es = match e {
                    Ed::AddLocalF(fp) => format!("AddLocal SF {fp}"), Ed::AddLocalG(fp) => format!("AddLocal SG {fp}"),
                    Ed::AddImport(s, fp) => format!("AddImport {} {fp}", spn(*s)), Ed::Delete(s, id) => format!("Delete {} {id}", spn(*s)),
                    Ed::LocalToImport(id, fp) => format!("LocalToImport {id} {fp}"), Ed::ImportToLocal(k, fp) => format!("ImportToLocal {k} {fp}"),
                    Ed::ItAddGlobal(fp) => format!("ItAddGlobal {fp}"),
                };
                format!("NEdit ({es}) {}", match b { Some(t) => format!("(Some {t})"), None => "None".into() })
            }
            NOp::SetFn(id, t) => format!("NSetFn {id} {t}"),
            NOp::SetLocalFn(id, t) => format!("NSetLocalFn {id} {t}"),
            NOp::ImpSetFn(id, t) => format!("NImpSetFn {id} {t}"),
            NOp::ImpSetName(k, t) => format!("NImpSetName {k} {t}"),
        }
    }
    fn tag(&self) -> String {
        match self {
            NOp::Edit(e, b) => format!("op={}{}", match e { Ed::AddLocalF(_) => "AddLocal_SF".into(), Ed::AddLocalG(_) => "AddLocal_SG".into(), Ed::AddImport(s, _) => format!("AddImport_{}", spn(*s)),
                Ed::Delete(s, _) => format!("Delete_{}", spn(*s)), Ed::LocalToImport(..) => "LocalToImport".into(), Ed::ImportToLocal(..) => "ImportToLocal".into(), Ed::ItAddGlobal(_) => "ItAddGlobal".into() },
                if b.is_some() { "+builder_name" } else { "" }),
            NOp::SetFn(..) => "op=Module::set_fn_name".into(), NOp::SetLocalFn(..) => "op=functions.set_local_fn_name".into(),
            NOp::ImpSetFn(..) => "op=imports.set_fn_name".into(), NOp::ImpSetName(..) => "op=imports.set_name".into(),
        }
    }
}

struct Base { imports: Vec<(u64, u64)>, funcs: Vec<(u64, u32, u32)>, globals: Vec<u64>, mems: Vec<u64>, has_elem: bool, ndata: u64 }
const NPARAMS: [u32; 3] = [0, 1, 2];

fn we_map(v: &NMap) -> wasm_encoder::NameMap { let mut m = wasm_encoder::NameMap::new(); for (i, t) in v { m.append(*i as u32, &format!("n{t}")); } m }
fn we_imap(v: &IMap) -> wasm_encoder::IndirectNameMap { let mut m = wasm_encoder::IndirectNameMap::new(); for (i, l) in v { m.append(*i as u32, &we_map(l)); } m }

fn build(b: &Base, n: &Names, with_names: bool) -> Vec<u8> {
    use wasm_encoder as we;
    let mut m = we::Module::new();
    let mut types = we::TypeSection::new();
    types.ty().function([], []);
    types.ty().function([we::ValType::I32], []);
    types.ty().function([we::ValType::I32, we::ValType::I64], []);
    m.section(&types);
    if !b.imports.is_empty() {
        let mut is = we::ImportSection::new();
        for (k, fp) in &b.imports {
            let name = format!("i{fp}");
            match k {
                0 => { is.import("env", &name, we::EntityType::Function(0)); }
                1 => { is.import("env", &name, we::EntityType::Global(we::GlobalType { val_type: we::ValType::I32, mutable: false, shared: false })); }
                2 => { is.import("env", &name, we::EntityType::Memory(we::MemoryType { minimum: 1, maximum: None, memory64: false, shared: false, page_size_log2: None })); }
                3 => { is.import("env", &name, we::EntityType::Table(we::TableType { element_type: we::RefType::FUNCREF, table64: false, minimum: 0, maximum: None, shared: false })); }
                _ => { is.import("env", &name, we::EntityType::Tag(we::TagType { kind: we::TagKind::Exception, func_type_idx: 0 })); }
            }
        }
        m.section(&is);
    }
    let mut fs = we::FunctionSection::new();
    for (_, ty, _) in &b.funcs { fs.function(*ty); }
    m.section(&fs);
    let mut ts = we::TableSection::new();
    ts.table(we::TableType { element_type: we::RefType::FUNCREF, table64: false, minimum: 4, maximum: None, shared: false });
    m.section(&ts);
    if !b.mems.is_empty() {
        let mut ms = we::MemorySection::new();
        for fp in &b.mems { ms.memory(we::MemoryType { minimum: *fp, maximum: None, memory64: false, shared: false, page_size_log2: None }); }
        m.section(&ms);
    }
    if !b.globals.is_empty() {
        let mut gs = we::GlobalSection::new();
        for fp in &b.globals { gs.global(we::GlobalType { val_type: we::ValType::I32, mutable: false, shared: false }, &we::ConstExpr::i32_const(*fp as i32)); }
        m.section(&gs);
    }
    if b.has_elem {
        let mut es = we::ElementSection::new();
        es.passive(we::Elements::Functions(Vec::<u32>::new().into()));
        m.section(&es);
    }
    let mut code = we::CodeSection::new();
    for (fp, _, extra) in &b.funcs {
        let mut f = we::Function::new(if *extra > 0 { vec![(*extra, we::ValType::I32)] } else { vec![] });
        f.instruction(&we::Instruction::I32Const(*fp as i32));
        f.instruction(&we::Instruction::Drop);
        f.instruction(&we::Instruction::End);
        code.function(&f);
    }
    m.section(&code);
    if b.ndata > 0 {
        let mut ds = we::DataSection::new();
        for i in 0..b.ndata { ds.passive(vec![i as u8, 7]); }
        m.section(&ds);
    }
    if with_names {
        let mut ns = we::NameSection::new();
        if let Some(t) = n.module { ns.module(&format!("n{t}")); }
        ns.functions(&we_map(&n.funcs));
        ns.locals(&we_imap(&n.locals));
        ns.labels(&we_imap(&n.labels));
        ns.types(&we_map(&n.types));
        ns.tables(&we_map(&n.tables));
        ns.memories(&we_map(&n.mems));
        ns.globals(&we_map(&n.globals));
        ns.elements(&we_map(&n.elems));
        ns.data(&we_map(&n.datas));
        ns.tag(&we_map(&n.tags));
        m.section(&ns);
    }
    m.finish()
}

fn tok_of(s: &str) -> u64 {
    if let Some(x) = s.strip_prefix('n') { if let Ok(v) = x.parse::<u64>() { if v < TOK_IMPORT { return v; } } }
    if let Some(x) = s.strip_prefix('i') { if let Ok(v) = x.parse::<u64>() { return TOK_IMPORT + v; } }
    TOK_BAD
}
fn rd_map(m: wasmparser::NameMap) -> Option<NMap> { let mut v = vec![]; for x in m { let x = x.ok()?; v.push((x.index as u64, tok_of(x.name))); } Some(v) }
fn rd_imap(m: wasmparser::IndirectNameMap) -> Option<IMap> { let mut v = vec![]; for x in m { let x = x.ok()?; v.push((x.index as u64, rd_map(x.names)?)); } Some(v) }

struct Dec { imports: Vec<(u64, u64)>, funcs: Vec<u64>, globals: Vec<u64>, mems: Vec<u64>, names: Names, name_sections: u64 }

fn decode(out: &[u8]) -> Option<Dec> {
    let mut d = Dec { imports: vec![], funcs: vec![], globals: vec![], mems: vec![], names: Names::default(), name_sections: 0 };
    for p in wasmparser::Parser::new(0).parse_all(out) {
        match p.ok()? {
            wasmparser::Payload::ImportSection(r) => for i in r {
                let i = i.ok()?;
                let fp: u64 = i.name[1..].parse().ok()?;
                let k = match i.ty { wasmparser::TypeRef::Func(_) => 0, wasmparser::TypeRef::Global(_) => 1, wasmparser::TypeRef::Memory(_) => 2, wasmparser::TypeRef::Table(_) => 3, wasmparser::TypeRef::Tag(_) => 4 };
                d.imports.push((k, fp));
            },
            wasmparser::Payload::GlobalSection(r) => for g in r {
                let g = g.ok()?;
                let mut rd = g.init_expr.get_operators_reader();
                match rd.read().ok()? { Operator::I32Const { value } => d.globals.push(value as u32 as u64), _ => d.globals.push(777777) }
            },
            wasmparser::Payload::MemorySection(r) => for mm in r { d.mems.push(mm.ok()?.initial); },
            wasmparser::Payload::CodeSectionEntry(b) => {
                let mut rd = b.get_operators_reader().ok()?;
                let mut fp = 0u64;
                while !rd.eof() { if let Operator::I32Const { value } = rd.read().ok()? { if fp == 0 && value > 0 { fp = value as u32 as u64; } } }
                d.funcs.push(fp);
            }
            wasmparser::Payload::CustomSection(c) => {
                if let wasmparser::KnownCustom::Name(r) = c.as_known() {
                    d.name_sections += 1;
                    for sub in r {
                        match sub.ok()? {
                            wasmparser::Name::Module { name, .. } => d.names.module = Some(tok_of(name)),
                            wasmparser::Name::Function(m) => d.names.funcs.extend(rd_map(m)?),
                            wasmparser::Name::Local(m) => d.names.locals.extend(rd_imap(m)?),
                            wasmparser::Name::Label(m) => d.names.labels.extend(rd_imap(m)?),
                            wasmparser::Name::Type(m) => d.names.types.extend(rd_map(m)?),
                            wasmparser::Name::Table(m) => d.names.tables.extend(rd_map(m)?),
                            wasmparser::Name::Memory(m) => d.names.mems.extend(rd_map(m)?),
                            wasmparser::Name::Global(m) => d.names.globals.extend(rd_map(m)?),
                            wasmparser::Name::Element(m) => d.names.elems.extend(rd_map(m)?),
                            wasmparser::Name::Data(m) => d.names.datas.extend(rd_map(m)?),
                            wasmparser::Name::Tag(m) => d.names.tags.extend(rd_map(m)?),
                            wasmparser::Name::Field(m) => { if !rd_imap(m)?.is_empty() { d.names.tags.push((TOK_BAD, TOK_BAD)); } }
                            wasmparser::Name::Unknown { .. } => { d.names.tags.push((TOK_BAD, TOK_BAD)); }
                        }
                    }
                }
            }
            _ => {}
        }
    }
    Some(d)
}

fn main() {
    let args = parse_args();
    let header = "From Coq Require Import List NArith.\nImport ListNotations.\nFrom Orca Require Import Reindex Names CheckNames.\nOpen Scope N_scope.";
    let footer = format!("Eval vm_compute in (report_{} cases).", args.prop);
    run_shards(&args, header, "ncase", &footer, |seed, idx| {
        let mut r = Rng::for_case(seed, idx);
        gen_case(&mut r, seed, idx)
    });
}

// harness-side view of the handles, only used to draw sensible ids
#[derive(Clone, Debug)]
struct Ent { id: u64, import: bool, dead: bool, late: bool }

fn subset(r: &mut Rng, n: u64, num: u64, den: u64, tok: &mut u64) -> NMap {
    let mut v = vec![];
    for i in 0..n { if r.chance(num, den) { *tok += 1; v.push((i, *tok)); } }
    v
}

fn gen_case(r: &mut Rng, seed: u64, idx: u64) -> Case {
    let mut fpc = 0u64;
    let nfp = |fpc: &mut u64| { *fpc += 1; *fpc };
    let mut tok = 0u64;
    let mut base = Base { imports: vec![], funcs: vec![], globals: vec![], mems: vec![], has_elem: r.chance(1, 2), ndata: r.below(3) };
    // function imports first more often than not (an ImportsID then equals the FunctionID: outside D07)
    let nimp = r.below(6);
    let funcs_first = r.chance(1, 2);
    for j in 0..nimp {
        let k = if funcs_first && j < 2 { 0 } else { match r.below(10) { 0 | 1 | 2 | 3 => 0, 4 | 5 | 6 => 1, 7 => 2, 8 => 3, _ => 4 } };
        let fp = nfp(&mut fpc); base.imports.push((k, fp));
    }
    for _ in 0..1 + r.below(4) { let fp = nfp(&mut fpc); base.funcs.push((fp, r.below(3) as u32, r.below(3) as u32)); }
    for _ in 0..r.below(4) { let fp = nfp(&mut fpc); base.globals.push(fp); }
    for _ in 0..r.below(2) { let fp = nfp(&mut fpc); base.mems.push(fp); }
    let cnt = |k: u64| base.imports.iter().filter(|x| x.0 == k).count() as u64;
    let nimpk = [cnt(0), cnt(1), cnt(2), cnt(3), cnt(4)];
    let nfuncs = nimpk[0] + base.funcs.len() as u64;
    let nglobals = nimpk[1] + base.globals.len() as u64;
    // ---- the name section of the input ----
    let with_names = !r.chance(1, 12);
    let mut names = Names::default();
    if with_names {
        let sparse = r.chance(1, 4);
        let (pn, pd) = if sparse { (1, 2) } else { (9, 10) };
        if r.chance(4, 5) { tok += 1; names.module = Some(tok); }
        names.funcs = subset(r, nfuncs, pn, pd, &mut tok);
        for (j, (_, ty, extra)) in base.funcs.iter().enumerate() {
            let nl = (NPARAMS[*ty as usize] + *extra) as u64;
            if nl > 0 && r.chance(pn, pd) { let l = subset(r, nl, 3, 4, &mut tok); if !l.is_empty() { names.locals.push((nimpk[0] + j as u64, l)); } }
        }
        for j in 0..base.funcs.len() as u64 { if r.chance(1, 4) { tok += 1; names.labels.push((nimpk[0] + j, vec![(0, tok)])); } }
        names.types = subset(r, 3, 1, 2, &mut tok);
        names.tables = subset(r, nimpk[3] + 1, 1, 2, &mut tok);
        names.mems = subset(r, nimpk[2] + base.mems.len() as u64, 1, 2, &mut tok);
        names.globals = subset(r, nglobals, pn, pd, &mut tok);
        if base.has_elem { names.elems = subset(r, 1, 1, 2, &mut tok); }
        names.datas = subset(r, base.ndata, 1, 2, &mut tok);
        names.tags = subset(r, nimpk[4], 1, 2, &mut tok);
    }
    let bytes = build(&base, &names, with_names);
    let base_valid = validates(&bytes);

    // ---- history, executed while it is generated so that returned ids can be used ----
    let mut hist: Vec<NOp> = vec![];
    let mut rets: Vec<Option<u64>> = vec![];
    let mut api_panic = false;
    let mut fents: Vec<Ent> = (0..nfuncs).map(|i| Ent { id: i, import: i < nimpk[0], dead: false, late: false }).collect();
    let mut gents: Vec<Ent> = (0..nglobals).map(|i| Ent { id: i, import: i < nimpk[1], dead: false, late: false }).collect();
    // import entries: (kind, handle of the entity in its space when the harness knows it)
    let mut ients: Vec<(u64, Option<u64>)> = vec![];
    { let mut c = [0u64; 5]; for (k, _) in &base.imports { ients.push((*k, Some(c[*k as usize]))); c[*k as usize] += 1; } }
    let mut converted = false; let mut it_added = false; let mut quiet_mode = false;
    let res = catch_unwind(AssertUnwindSafe(|| {
        let mut module = Module::parse(&bytes, true).expect("parse");
        let nops = if r.chance(1, 10) { 0 } else { 1 + r.below(8) };
        let pick = |r: &mut Rng, v: &Vec<Ent>, want: &dyn Fn(&Ent) -> bool| -> Option<u64> {
            if v.is_empty() { return None; }
            let good: Vec<u64> = v.iter().filter(|e| !e.dead && want(e)).map(|e| e.id).collect();
            if !good.is_empty() && !r.chance(1, 14) { Some(*r.pick(&good)) } else { Some(r.pick(v).id) }
        };
        // quiet histories only append entities and call the naming API: no index of the input moves
        let quiet = r.chance(3, 10); quiet_mode = quiet;
        for _ in 0..nops {
            let choice = if quiet { *r.pick(&[4u64, 4, 11, 11, 12, 12, 12, 13, 15, 15, 16, 16, 17, 18]) } else { r.below(20) };
            let op = match choice {
                0 | 1 | 2 => NOp::Edit(Ed::AddImport(0, nfp(&mut fpc)), None),
                3 => { if it_added && !r.chance(1, 6) { continue; } NOp::Edit(Ed::AddImport(1, nfp(&mut fpc)), None) }
                4 => { if r.chance(1, 3) { NOp::Edit(Ed::ItAddGlobal(nfp(&mut fpc)), None) } else { NOp::Edit(Ed::AddLocalG(nfp(&mut fpc)), None) } }
                5 => { match pick(r, &fents, &|e| !e.late) { Some(id) => NOp::Edit(Ed::Delete(0, id), None), None => continue } }
                6 => { match pick(r, &gents, &|e| !e.late) { Some(id) => NOp::Edit(Ed::Delete(1, id), None), None => continue } }
                7 | 8 => { match pick(r, &fents, &|e| !e.import) { Some(id) => NOp::Edit(Ed::LocalToImport(id, nfp(&mut fpc)), None), None => continue } }
                9 | 10 => {
                    let safe: Vec<u64> = ients.iter().enumerate().filter(|(k, (kind, h))| *kind == 0 && *h == Some(*k as u64) && ients.iter().rposition(|x| x.0 == 0 && x.1 == *h) == Some(*k) && fents.iter().any(|e| e.id == *k as u64 && e.import && !e.dead)).map(|(k, _)| k as u64).collect();
                    let any: Vec<u64> = ients.iter().enumerate().filter(|(_, (kind, _))| *kind == 0).map(|(k, _)| k as u64).collect();
                    let k = if !safe.is_empty() && !r.chance(1, 10) { *r.pick(&safe) } else if !any.is_empty() && r.chance(1, 2) { *r.pick(&any) } else if !ients.is_empty() && r.chance(1, 6) { r.below(ients.len() as u64) } else { continue };
                    let bn = if r.chance(1, 3) { tok += 1; Some(tok) } else { None };
                    NOp::Edit(Ed::ImportToLocal(k, nfp(&mut fpc)), bn)
                }
                11 => { if converted && !r.chance(1, 8) { continue; } let bn = if r.chance(2, 3) { tok += 1; Some(tok) } else { None }; NOp::Edit(Ed::AddLocalF(nfp(&mut fpc)), bn) }
                12 | 13 | 14 => { match pick(r, &fents, &|_| true) { Some(id) => { tok += 1; NOp::SetFn(id, tok) } None => continue } }
                15 => { let want_local = !r.chance(1, 4); match pick(r, &fents, &|e| e.import != want_local) { Some(id) => { tok += 1; NOp::SetLocalFn(id, tok) } None => continue } }
                16 => { let want_imp = !r.chance(1, 5); match pick(r, &fents, &|e| e.import == want_imp) { Some(id) => { tok += 1; NOp::ImpSetFn(id, tok) } None => continue } }
                17 | 18 => {
                    if ients.is_empty() { continue; }
                    let fi: Vec<u64> = ients.iter().enumerate().filter(|(_, (kind, _))| *kind == 0).map(|(k, _)| k as u64).collect();
                    // names given to imported GLOBALS reach the name section too (keyed by the global's NEW index): pick them as
                    // often as function imports
                    let gi: Vec<u64> = ients.iter().enumerate().filter(|(_, (kind, _))| *kind == 1).map(|(k, _)| k as u64).collect();
                    let k = if !gi.is_empty() && r.chance(2, 5) { *r.pick(&gi) } else if !fi.is_empty() && r.chance(3, 4) { *r.pick(&fi) } else if r.chance(1, 25) { ients.len() as u64 + r.below(2) } else { r.below(ients.len() as u64) };
                    tok += 1; NOp::ImpSetName(k, tok)
                }
                _ => { if r.chance(1, 4) { NOp::Edit(Ed::AddImport(2, nfp(&mut fpc)), None) } else { NOp::Edit(Ed::AddImport(0, nfp(&mut fpc)), None) } }
            };
            hist.push(op.clone());
            // replace_import_in_module resolves the function through the import and silently refuses when no function is that import any more
            let i2l_fid: Option<u64> = if let NOp::Edit(Ed::ImportToLocal(k, _), _) = &op { module.functions.iter().position(|f| matches!(f.kind(), FuncKind::Import(i) if i.import_id.0 as u64 == *k)).map(|p| p as u64) } else { None };
            let rres = catch_unwind(AssertUnwindSafe(|| -> (Option<u64>, Option<u64>) {
                match &op {
                    NOp::Edit(Ed::AddLocalF(fp), bn) => {
                        let mut fb = FunctionBuilder::new(&[], &[]);
                        fb.i32_const(*fp as i32); fb.drop();
                        if let Some(t) = bn { fb.set_name(format!("n{t}")); }
                        (Some(*fb.finish_module(&mut module) as u64), None)
                    }
                    NOp::Edit(Ed::AddLocalG(fp), _) => (Some(*module.add_global(InitExpr::new(vec![InitInstr::Value(Value::I32(*fp as i32))]), DataType::I32, false, false) as u64), None),
                    NOp::Edit(Ed::AddImport(0, fp), _) => { let (a, b) = module.add_import_func("env".into(), format!("i{fp}"), TypeID(0)); (Some(*a as u64), Some(*b as u64)) }
                    NOp::Edit(Ed::AddImport(1, fp), _) => { let (a, b) = module.add_imported_global("env".into(), format!("i{fp}"), DataType::I32, false, false); (Some(*a as u64), Some(*b as u64)) }
                    NOp::Edit(Ed::AddImport(_, fp), _) => { let (a, b) = module.add_import_memory("env".into(), format!("i{fp}"), wasmparser::MemoryType { memory64: false, shared: false, initial: 1, maximum: None, page_size_log2: None }); (Some(*a as u64), Some(*b as u64)) }
                    NOp::Edit(Ed::Delete(0, id), _) => { module.delete_func(FunctionID(*id as u32)); (None, None) }
                    NOp::Edit(Ed::Delete(_, id), _) => { module.delete_global(GlobalID(*id as u32)); (None, None) }
                    NOp::Edit(Ed::LocalToImport(id, fp), _) => { module.convert_local_fn_to_import(FunctionID(*id as u32), "env".into(), format!("i{fp}"), TypeID(0)); (None, None) }
                    NOp::Edit(Ed::ImportToLocal(k, fp), bn) => {
                        let mut fb = FunctionBuilder::new(&[], &[]);
                        fb.i32_const(*fp as i32); fb.drop();
                        if let Some(t) = bn { fb.set_name(format!("n{t}")); }
                        fb.replace_import_in_module(&mut module, ImportsID(*k as u32)); (None, None)
                    }
                    NOp::Edit(Ed::ItAddGlobal(fp), _) => {
                        let mut it = ModuleIterator::new(&mut module, &vec![]);
                        (Some(*it.add_global(Global::new(GlobalKind::Local(LocalGlobal { global_id: GlobalID(0), ty: wasmparser::GlobalType { content_type: wasmparser::ValType::I32, mutable: false, shared: false }, init_expr: InitExpr::new(vec![InitInstr::Value(Value::I32(*fp as i32))]) }), None)) as u64), None)
                    }
                    NOp::SetFn(id, t) => { module.set_fn_name(FunctionID(*id as u32), format!("n{t}")); (None, None) }
                    NOp::SetLocalFn(id, t) => { let b = module.functions.set_local_fn_name(FunctionID(*id as u32), format!("n{t}")); (Some(b as u64), None) }
                    NOp::ImpSetFn(id, t) => { module.imports.set_fn_name(format!("n{t}"), FunctionID(*id as u32)); (None, None) }
                    NOp::ImpSetName(k, t) => { module.imports.set_name(format!("n{t}"), ImportsID(*k as u32)); (None, None) }
                }
            }));
            match rres {
                Err(_) => { api_panic = true; break; }
                Ok((ret, _imp_id)) => {
                    rets.push(ret);
                    match &op {
                        NOp::Edit(Ed::AddLocalF(_), _) => { if let Some(id) = ret { if !fents.iter().any(|e| e.id == id) { fents.push(Ent { id, import: false, dead: false, late: true }); } } }
                        NOp::Edit(Ed::AddLocalG(_), _) => { if let Some(id) = ret { if !gents.iter().any(|e| e.id == id) { gents.push(Ent { id, import: false, dead: false, late: false }); } } }
                        NOp::Edit(Ed::ItAddGlobal(_), _) => { it_added = true; if let Some(id) = ret { if !gents.iter().any(|e| e.id == id) { gents.push(Ent { id, import: false, dead: false, late: false }); } } }
                        NOp::Edit(Ed::AddImport(s, _), _) => {
                            ients.push((*s as u64, ret));
                            if let Some(id) = ret {
                                if *s == 0 && !fents.iter().any(|e| e.id == id) { fents.push(Ent { id, import: true, dead: false, late: true }); }
                                if *s == 1 && !gents.iter().any(|e| e.id == id) { gents.push(Ent { id, import: true, dead: false, late: true }); }
                            }
                        }
                        NOp::Edit(Ed::Delete(s, id), _) => { let v = if *s == 0 { &mut fents } else { &mut gents }; for e in v.iter_mut() { if e.id == *id { e.dead = true; } } }
                        NOp::Edit(Ed::LocalToImport(id, _), _) => {
                            let mut done = false;
                            for e in fents.iter_mut() { if e.id == *id && !e.import { e.import = true; e.dead = false; e.late = true; done = true; } }
                            if done { converted = true; ients.push((0, Some(*id))); }
                        }
                        NOp::Edit(Ed::ImportToLocal(..), _) => { if let Some(fid) = i2l_fid { for e in fents.iter_mut() { if e.id == fid { e.import = false; e.dead = false; e.late = true; } } } }
                        _ => {}
                    }
                }
            }
        }
        if api_panic { return None; }
        catch_unwind(AssertUnwindSafe(|| module.encode())).ok()
    }));
    let enc: Option<Vec<u8>> = match res { Ok(x) => x, Err(_) => { api_panic = true; None } };
    let dec = enc.as_ref().and_then(|o| decode(o));
    let undecodable = enc.is_some() && dec.is_none();
    let out_valid = enc.as_ref().map(|o| validates(o)).unwrap_or(false);
    let l = |v: &Vec<u64>| format!("[{}]", v.iter().map(|x| x.to_string()).collect::<Vec<_>>().join("; "));
    let enc_s = match &dec {
        Some(d) => {
            let mut n = d.names.clone();
            if d.name_sections != 1 { n.tags.push((TOK_BAD, d.name_sections)); }
            format!("(Some (mkE {} {} {} {} [], {}))", nm(&d.imports), l(&d.funcs), l(&d.globals), l(&d.mems), n.coq())
        }
        None => if undecodable { format!("(Some (mkE [] [] [] [] [], {}))", Names { tags: vec![(TOK_BAD, TOK_BAD)], ..Names::default() }.coq()) } else { "None".to_string() },
    };
    let funcs_fp: Vec<u64> = base.funcs.iter().map(|f| f.0).collect();
    let coq = format!(
        "mkNC {} {} {} {} {} [{}] [{}] {} {}",
        nm(&base.imports), l(&funcs_fp), l(&base.globals), l(&base.mems), names.coq(),
        hist.iter().map(|h| h.coq()).collect::<Vec<_>>().join("; "),
        rets.iter().map(|x| match x { Some(v) => format!("Some {v}"), None => "None".into() }).collect::<Vec<_>>().join("; "),
        coq_bool(api_panic), enc_s
    );
    let desc = format!(
        "imports={:?} funcs(fp,type,extra locals)={:?} globals={:?} mems={:?} names={:?} base_valid={} hist={:?} rets={:?} => api_panic={} {}",
        base.imports, base.funcs, base.globals, base.mems, names, base_valid, hist, rets, api_panic,
        match &dec { Some(d) => format!("imports={:?} funcs={:?} globals={:?} mems={:?} names={:?} valid={}", d.imports, d.funcs, d.globals, d.mems, d.names, out_valid), None => if undecodable { "UNDECODABLE".into() } else { "NO-OUTPUT".to_string() } }
    );
    let shifts = hist.iter().any(|h| matches!(h, NOp::Edit(Ed::AddImport(..) | Ed::Delete(..) | Ed::LocalToImport(..) | Ed::ImportToLocal(..), _)));
    let mut tags = vec![format!("hist_len={}", hist.len()), format!("api_panic={}", api_panic), format!("encoded={}", enc.is_some()), format!("base_valid={}", base_valid),
                        format!("name_section={}", if !with_names { "absent" } else if names.is_empty() { "empty" } else { "present" }), format!("index_shifting_edit={}", shifts), format!("quiet_history={}", quiet_mode)];
    for h in &hist { tags.push(h.tag()); }
    Case { seed, idx, coq, desc, nontrivial: with_names && !hist.is_empty(), tags }
}

