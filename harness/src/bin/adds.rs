// Correspondence harness of the additions engine (C30; C12 is served by the same binary).
// Base modules with imports of all five kinds, local functions / globals / memories (multi-memory), exports of
// four kinds, active and passive data segments; histories of module-level additions through the public API
// (add_global with every InitExpr form and bit pattern, add_imported_global, ModuleIterator::add_global,
// add_local_memory / add_import_memory with random limits and flags, add_data, exports.add_export_func / _mem,
// mod_global_init_expr) interleaved with deletions and import additions that shift indices.  The whole decoded
// global / memory / data / export / import sections of the real output are handed to Coq.
use std::panic::{catch_unwind, AssertUnwindSafe};
use vharness::wasmgen::validates;
use vharness::*;
use wasm_encoder::Encode;
use wasmparser::Operator;
use wirm::ir::id::*;
use wirm::ir::module::module_globals::{Global, GlobalKind, LocalGlobal};
use wirm::ir::types::{InitExpr, InitInstr, Location, Value};
use wirm::iterator::iterator_trait::IteratingInstrumenter;
use wirm::iterator::module_iterator::ModuleIterator;
use wirm::opcode::{Inject, Instrumenter};
use wirm::{DataSegment, DataSegmentKind, DataType, Module};

const MARK: u64 = 100000;
const PROBE_FP: u64 = 9999;

#[derive(Clone, Copy, Debug, PartialEq)]
enum Sp { F, G, M }
impl Sp {
    fn coq(&self) -> &'static str { match self { Sp::F => "SF", Sp::G => "SG", Sp::M => "SM" } }
    fn code(&self) -> usize { match self { Sp::F => 0, Sp::G => 1, Sp::M => 2 } }
}

// ---------------------------------------------------------------------------------------------
// value types as codes (see Model/Additions.v): what the *request* means and how the output is read back
const ABS: [wasmparser::AbstractHeapType; 14] = {
    use wasmparser::AbstractHeapType::*;
    [Func, Extern, Any, None, NoExtern, NoFunc, Eq, Struct, Array, I31, Exn, NoExn, Cont, NoCont]
};
fn code_dt(t: u32) -> DataType {
    match t {
        0 => DataType::I32, 1 => DataType::I64, 2 => DataType::F32, 3 => DataType::F64, 4 => DataType::V128,
        5 => DataType::FuncRefNull, 6 => DataType::ExternRefNull, 7 => DataType::FuncRef, 8 => DataType::ExternRef,
        9 => DataType::AnyNull, 10 => DataType::EqNull, 11 => DataType::I31Null, 12 => DataType::StructNull,
        13 => DataType::ArrayNull, 14 => DataType::Any, 15 => DataType::NoneNull, 16 => DataType::NoFuncNull,
        17 => DataType::NoExternNull, 18 => DataType::Eq, 19 => DataType::I31,
        20 => DataType::I8, 21 => DataType::I16,
        _ => DataType::I32,
    }
}
// (nullable, abstract heap type index) of the reference type a code stands for
fn code_ref(t: u32) -> Option<(bool, usize)> {
    Some(match t {
        5 => (true, 0), 6 => (true, 1), 7 => (false, 0), 8 => (false, 1), 9 => (true, 2), 10 => (true, 6), 11 => (true, 9),
        12 => (true, 7), 13 => (true, 8), 14 => (false, 2), 15 => (true, 3), 16 => (true, 5), 17 => (true, 4), 18 => (false, 6), 19 => (false, 9),
        _ => return None,
    })
}
fn code_wp(t: u32) -> wasmparser::ValType {
    use wasmparser::ValType as V;
    match t {
        0 => V::I32, 1 => V::I64, 2 => V::F32, 3 => V::F64, 4 => V::V128,
        t => match code_ref(t) {
            Some((n, k)) => V::Ref(wasmparser::RefType::new(n, wasmparser::HeapType::Abstract { shared: false, ty: ABS[k] }).unwrap()),
            None => V::I32,
        },
    }
}
fn code_enc(t: u32) -> wasm_encoder::ValType {
    use wasm_encoder::{AbstractHeapType as A, HeapType, RefType, ValType as V};
    const EA: [A; 14] = [A::Func, A::Extern, A::Any, A::None, A::NoExtern, A::NoFunc, A::Eq, A::Struct, A::Array, A::I31, A::Exn, A::NoExn, A::Cont, A::NoCont];
    match t {
        0 => V::I32, 1 => V::I64, 2 => V::F32, 3 => V::F64, 4 => V::V128,
        t => match code_ref(t) {
            Some((n, k)) => V::Ref(RefType { nullable: n, heap_type: HeapType::Abstract { shared: false, ty: EA[k] } }),
            None => V::I32,
        },
    }
}
fn wp_code(v: wasmparser::ValType) -> u64 {
    use wasmparser::ValType as V;
    match v {
        V::I32 => 0, V::I64 => 1, V::F32 => 2, V::F64 => 3, V::V128 => 4,
        V::Ref(r) => match r.heap_type() {
            wasmparser::HeapType::Abstract { shared: false, ty } => {
                let k = ABS.iter().position(|a| *a == ty).unwrap_or(99);
                for t in 5..20u32 { if code_ref(t) == Some((r.is_nullable(), k)) { return t as u64; } }
                900 + 2 * k as u64 + r.is_nullable() as u64
            }
            _ => 990,
        },
    }
}
// heap type codes of ref.null: 2 * abstract index + shared, 1000 + module type index
fn heap_wp(h: u32) -> wasmparser::HeapType {
    if h >= 1000 { wasmparser::HeapType::Concrete(wasmparser::UnpackedIndex::Module(h - 1000)) }
    else { wasmparser::HeapType::Abstract { shared: h % 2 == 1, ty: ABS[(h / 2) as usize % 14] } }
}
fn wp_heap(h: &wasmparser::HeapType) -> u64 {
    match h {
        wasmparser::HeapType::Abstract { shared, ty } => 2 * ABS.iter().position(|a| a == ty).unwrap_or(50) as u64 + *shared as u64,
        wasmparser::HeapType::Concrete(wasmparser::UnpackedIndex::Module(k)) => 1000 + *k as u64,
        _ => 5000,
    }
}
fn heap_enc(h: u32) -> wasm_encoder::HeapType {
    use wasm_encoder::AbstractHeapType as A;
    const EA: [A; 14] = [A::Func, A::Extern, A::Any, A::None, A::NoExtern, A::NoFunc, A::Eq, A::Struct, A::Array, A::I31, A::Exn, A::NoExn, A::Cont, A::NoCont];
    if h >= 1000 { wasm_encoder::HeapType::Concrete(h - 1000) } else { wasm_encoder::HeapType::Abstract { shared: h % 2 == 1, ty: EA[(h / 2) as usize % 14] } }
}

// ---------------------------------------------------------------------------------------------
#[derive(Clone, Debug, PartialEq)]
enum Val { I32(i32), I64(i64), F32(u32), F64(u64), V128(u128) }
#[derive(Clone, Debug, PartialEq)]
enum II { Val(Val), Global(u64), RefFunc(u64), RefNull(u32) }
#[derive(Clone, Debug, PartialEq)]
struct GTy { ty: u32, mutable: bool, shared: bool }
#[derive(Clone, Debug, PartialEq)]
struct MTy { m64: bool, shared: bool, initial: u64, max: Option<u64>, psl: Option<u32> }
#[derive(Clone, Debug)]
enum DSeg { Passive(Vec<u8>), Active(u64, Vec<II>, Vec<u8>) }
#[derive(Clone, Debug)]
enum AOp {
    AddGlobal(u64, GTy, Vec<II>), AddImpGlobal(u64, GTy), ItAddGlobal(u64, GTy, Vec<II>), AddMem(u64, MTy), AddImpMem(u64, MTy),
    AddImpFunc(u64), AddData(DSeg), AddExport(u32, u64, u64), DelExport(u64), ModInit(u64, Vec<II>), Delete(Sp, u64),
}
// decoded
#[derive(Clone, Debug)]
enum Cop { I32(i32), I64(i64), F32(u32), F64(u64), V128(i128), GlobalGet(u32), RefFunc(u32), RefNull(u64), Other(u64) }
#[derive(Clone, Debug)]
enum ODSeg { Passive(Vec<u8>), Active(u32, Vec<Cop>, Vec<u8>) }
#[derive(Clone, Debug)]
enum IDesc { None, Global(GTy), Mem(MTy) }
#[derive(Debug, Default)]
struct Dec {
    imports: Vec<(u64, u64, IDesc)>, funcs: Vec<u64>, globals: Vec<(GTy, Vec<Cop>)>, mems: Vec<MTy>, data: Vec<ODSeg>,
    exports: Vec<(u64, u64, u64)>, sites: Vec<(u64, u64)>, dcount: Option<u64>,
}

fn cz(z: i128) -> String { coq_z(z) }
fn cb(b: bool) -> &'static str { coq_bool(b) }
fn cl<T, F: Fn(&T) -> String>(v: &[T], f: F) -> String { coq_list(v, f) }
fn copt<T, F: Fn(&T) -> String>(v: &Option<T>, f: F) -> String { coq_opt(v, f) }
impl Val {
    fn coq(&self) -> String {
        match self {
            Val::I32(v) => format!("VI32 {}", cz(*v as i128)), Val::I64(v) => format!("VI64 {}", cz(*v as i128)),
            Val::F32(b) => format!("VF32 {}", cz(*b as i128)), Val::F64(b) => format!("VF64 {}", cz(*b as i128)),
            Val::V128(u) => format!("VV128 {}", if *u > i128::MAX as u128 { format!("{}%Z", u) } else { cz(*u as i128) }),
        }
    }
}
impl II {
    fn coq(&self) -> String {
        match self { II::Val(v) => format!("IVal ({})", v.coq()), II::Global(g) => format!("IGlobal {g}"), II::RefFunc(f) => format!("IRefFunc {f}"), II::RefNull(h) => format!("IRefNull {h}") }
    }
}
fn coq_init(e: &[II]) -> String { cl(e, |i| i.coq()) }
impl GTy { fn coq(&self) -> String { format!("(mkGT {} {} {})", self.ty, cb(self.mutable), cb(self.shared)) } }
impl MTy {
    fn coq(&self) -> String { format!("(mkMT {} {} {} {} {})", cb(self.m64), cb(self.shared), self.initial, copt(&self.max, |x| x.to_string()), copt(&self.psl, |x| x.to_string())) }
    fn wp(&self) -> wasmparser::MemoryType { wasmparser::MemoryType { memory64: self.m64, shared: self.shared, initial: self.initial, maximum: self.max, page_size_log2: self.psl } }
    fn enc(&self) -> wasm_encoder::MemoryType { wasm_encoder::MemoryType { memory64: self.m64, shared: self.shared, minimum: self.initial, maximum: self.max, page_size_log2: self.psl } }
    fn from_wp(m: &wasmparser::MemoryType) -> MTy { MTy { m64: m.memory64, shared: m.shared, initial: m.initial, max: m.maximum, psl: m.page_size_log2 } }
}
fn coq_bytes(b: &[u8]) -> String { cl(b, |x| x.to_string()) }
impl DSeg {
    fn coq(&self) -> String {
        match self { DSeg::Passive(b) => format!("DPassive {}", coq_bytes(b)), DSeg::Active(m, o, b) => format!("DActive {} {} {}", m, coq_init(o), coq_bytes(b)) }
    }
}
impl AOp {
    fn coq(&self) -> String {
        match self {
            AOp::AddGlobal(fp, t, e) => format!("OAddGlobal {} {} {}", fp, t.coq(), coq_init(e)),
            AOp::AddImpGlobal(fp, t) => format!("OAddImpGlobal {} {}", fp, t.coq()),
            AOp::ItAddGlobal(fp, t, e) => format!("OItAddGlobal {} {} {}", fp, t.coq(), coq_init(e)),
            AOp::AddMem(fp, t) => format!("OAddMem {} {}", fp, t.coq()),
            AOp::AddImpMem(fp, t) => format!("OAddImpMem {} {}", fp, t.coq()),
            AOp::AddImpFunc(fp) => format!("OAddImpFunc {}", fp),
            AOp::AddData(d) => format!("OAddData ({})", d.coq()),
            AOp::AddExport(k, n, id) => format!("OAddExport {} {} {}", k, n, id),
            AOp::DelExport(k) => format!("ODelExport {}", k),
            AOp::ModInit(g, e) => format!("OModInit {} {}", g, coq_init(e)),
            AOp::Delete(s, id) => format!("ODelete {} {}", s.coq(), id),
        }
    }
    fn tag(&self) -> &'static str {
        match self {
            AOp::AddGlobal(..) => "add_global", AOp::AddImpGlobal(..) => "add_imported_global", AOp::ItAddGlobal(..) => "iterator_add_global", AOp::AddMem(..) => "add_local_memory",
            AOp::AddImpMem(..) => "add_import_memory", AOp::AddImpFunc(..) => "add_import_func", AOp::AddData(DSeg::Passive(_)) => "add_data_passive", AOp::AddData(_) => "add_data_active",
            AOp::AddExport(0, ..) => "add_export_func", AOp::AddExport(..) => "add_export_mem", AOp::DelExport(..) => "delete_export", AOp::ModInit(..) => "mod_global_init_expr",
            AOp::Delete(Sp::F, _) => "delete_func", AOp::Delete(Sp::G, _) => "delete_global", AOp::Delete(Sp::M, _) => "delete_memory",
        }
    }
}
impl Cop {
    fn coq(&self) -> String {
        match self {
            Cop::I32(v) => format!("CI32 {}", cz(*v as i128)), Cop::I64(v) => format!("CI64 {}", cz(*v as i128)), Cop::F32(b) => format!("CF32 {}", cz(*b as i128)),
            Cop::F64(b) => format!("CF64 {}", cz(*b as i128)), Cop::V128(v) => format!("CV128 {}", cz(*v)), Cop::GlobalGet(q) => format!("CGlobalGet {q}"),
            Cop::RefFunc(q) => format!("CRefFunc {q}"), Cop::RefNull(h) => format!("CRefNull {h}"), Cop::Other(t) => format!("COther {t}"),
        }
    }
}
fn coq_cops(v: &[Cop]) -> String { cl(v, |c| c.coq()) }
impl IDesc { fn coq(&self) -> String { match self { IDesc::None => "IDNone".into(), IDesc::Global(t) => format!("(IDGlobal {})", t.coq()), IDesc::Mem(t) => format!("(IDMem {})", t.coq()) } } }

// ---------------------------------------------------------------------------------------------
// request -> wirm / wasm_encoder
fn to_instr(i: &II) -> InitInstr {
    match i {
        II::Val(Val::I32(v)) => InitInstr::Value(Value::I32(*v)),
        II::Val(Val::I64(v)) => InitInstr::Value(Value::I64(*v)),
        II::Val(Val::F32(b)) => InitInstr::Value(Value::F32(f32::from_bits(*b))),
        II::Val(Val::F64(b)) => InitInstr::Value(Value::F64(f64::from_bits(*b))),
        II::Val(Val::V128(u)) => InitInstr::Value(Value::V128(*u)),
        II::Global(g) => InitInstr::Global(GlobalID(*g as u32)),
        II::RefFunc(f) => InitInstr::RefFunc(FunctionID(*f as u32)),
        II::RefNull(h) => InitInstr::RefNull(wasmparser::RefType::new(true, heap_wp(*h)).unwrap()),
    }
}
fn to_init(e: &[II]) -> InitExpr { InitExpr::new(e.iter().map(to_instr).collect()) }
fn enc_init(e: &[II]) -> wasm_encoder::ConstExpr {
    use wasm_encoder::Instruction as I;
    let mut bytes = vec![];
    for i in e {
        match i {
            II::Val(Val::I32(v)) => I::I32Const(*v).encode(&mut bytes),
            II::Val(Val::I64(v)) => I::I64Const(*v).encode(&mut bytes),
            II::Val(Val::F32(b)) => { bytes.push(0x43); bytes.extend_from_slice(&b.to_le_bytes()); }
            II::Val(Val::F64(b)) => { bytes.push(0x44); bytes.extend_from_slice(&b.to_le_bytes()); }
            II::Val(Val::V128(u)) => I::V128Const(*u as i128).encode(&mut bytes),
            II::Global(g) => I::GlobalGet(*g as u32).encode(&mut bytes),
            II::RefFunc(f) => I::RefFunc(*f as u32).encode(&mut bytes),
            II::RefNull(h) => I::RefNull(heap_enc(*h)).encode(&mut bytes),
        }
    }
    wasm_encoder::ConstExpr::raw(bytes)
}
fn read_cops(ce: &wasmparser::ConstExpr) -> Option<Vec<Cop>> {
    let mut rd = ce.get_operators_reader();
    let mut v = vec![];
    loop {
        let op = rd.read().ok()?;
        v.push(match op {
            Operator::End => break,
            Operator::I32Const { value } => Cop::I32(value),
            Operator::I64Const { value } => Cop::I64(value),
            Operator::F32Const { value } => Cop::F32(value.bits()),
            Operator::F64Const { value } => Cop::F64(value.bits()),
            Operator::V128Const { value } => Cop::V128(value.i128()),
            Operator::GlobalGet { global_index } => Cop::GlobalGet(global_index),
            Operator::RefFunc { function_index } => Cop::RefFunc(function_index),
            Operator::RefNull { hty } => Cop::RefNull(wp_heap(&hty)),
            o => Cop::Other(fnv(&format!("{o:?}")) % 100000),
        });
    }
    Some(v)
}

// ---------------------------------------------------------------------------------------------
// generators
fn gen_i32(r: &mut Rng) -> i32 { match r.below(8) { 0 => 0, 1 => -1, 2 => i32::MIN, 3 => i32::MAX, 4 => r.below(200) as i32 - 100, _ => r.next() as u32 as i32 } }
fn gen_i64(r: &mut Rng) -> i64 { match r.below(8) { 0 => 0, 1 => -1, 2 => i64::MIN, 3 => i64::MAX, 4 => r.below(200) as i64 - 100, _ => r.next() as i64 } }
fn gen_f32(r: &mut Rng) -> u32 {
    let sign = (r.below(2) as u32) << 31;
    match r.below(9) {
        0 => sign, 1 => sign | 0x7f80_0000, 2 => sign | 0x7fc0_0000,
        3 => sign | 0x7fc0_0000 | (r.next() as u32 & 0x003f_ffff),                 // quiet NaN with payload
        4 => sign | 0x7f80_0000 | (1 + (r.next() as u32 % 0x003f_ffff)),            // signalling NaN (quiet bit clear, payload != 0)
        5 => sign | (r.next() as u32 & 0x007f_ffff),                              // subnormal
        6 => 0x3f80_0000, _ => r.next() as u32,
    }
}
fn gen_f64(r: &mut Rng) -> u64 {
    let sign = r.below(2) << 63;
    match r.below(9) {
        0 => sign, 1 => sign | 0x7ff0_0000_0000_0000, 2 => sign | 0x7ff8_0000_0000_0000,
        3 => sign | 0x7ff8_0000_0000_0000 | (r.next() & 0x0007_ffff_ffff_ffff),
        4 => sign | 0x7ff0_0000_0000_0000 | (1 + (r.next() % 0x0007_ffff_ffff_ffff)),
        5 => sign | (r.next() & 0x000f_ffff_ffff_ffff),
        6 => 0x3ff0_0000_0000_0000, _ => r.next(),
    }
}
fn gen_v128(r: &mut Rng) -> u128 {
    match r.below(6) { 0 => 0, 1 => u128::MAX, 2 => 1u128 << 127, 3 => (1u128 << 127) - 1, _ => ((r.next() as u128) << 64) | r.next() as u128 }
}
fn gen_mty(r: &mut Rng, plain: bool) -> MTy {
    let m64 = !plain && r.chance(1, 6);
    let shared = !plain && r.chance(1, 7);
    let initial = match r.below(6) { 0 => 0, 1 => 1, 2 => 65536, _ => r.below(40) };
    let max = if shared || r.chance(1, 2) { Some((initial + match r.below(4) { 0 => 0, 1 => 65536, _ => r.below(50) }).min(if m64 { u64::MAX } else { 65536 })) } else { None };
    let psl = if !plain && r.chance(1, 12) { Some(if r.chance(1, 2) { 0 } else { 16 }) } else { None };
    MTy { m64, shared, initial, max, psl }
}
struct GHandle { id: u64, imp: bool, ty: u32, mutable: bool }
struct MHandle { id: u64, m64: bool }
struct Known { f: Vec<u64>, g: Vec<GHandle>, m: Vec<MHandle>, dead: [Vec<u64>; 3] }
impl Known {
    fn live(&self, s: Sp) -> Vec<u64> {
        let all: Vec<u64> = match s { Sp::F => self.f.clone(), Sp::G => self.g.iter().map(|h| h.id).collect(), Sp::M => self.m.iter().map(|h| h.id).collect() };
        all.into_iter().filter(|x| !self.dead[s.code()].contains(x)).collect()
    }
    fn all(&self, s: Sp) -> Vec<u64> { match s { Sp::F => self.f.clone(), Sp::G => self.g.iter().map(|h| h.id).collect(), Sp::M => self.m.iter().map(|h| h.id).collect() } }
}
/// a (mostly well-typed) constant expression for a global of type `ty`
fn gen_init(r: &mut Rng, ty: u32, k: &Known, strict: bool) -> Vec<II> {
    if !strict && r.chance(1, 40) { return vec![]; }
    if !strict && r.chance(1, 40) { return vec![II::Val(Val::I32(gen_i32(r))), II::Val(Val::I32(gen_i32(r)))]; }
    // global.get of an imported immutable global of the same type
    let getters: Vec<u64> = k.g.iter().filter(|h| h.imp && !h.mutable && h.ty == ty && !k.dead[1].contains(&h.id)).map(|h| h.id).collect();
    if !getters.is_empty() && r.chance(1, 3) { return vec![II::Global(*r.pick(&getters))]; }
    let ty = if !strict && r.chance(1, 30) { r.below(10) as u32 } else { ty };   // occasionally a constant of another type
    let live_f = k.live(Sp::F);
    vec![match ty {
        0 => II::Val(Val::I32(gen_i32(r))), 1 => II::Val(Val::I64(gen_i64(r))), 2 => II::Val(Val::F32(gen_f32(r))), 3 => II::Val(Val::F64(gen_f64(r))),
        4 => II::Val(Val::V128(gen_v128(r))),
        5 | 7 => if !live_f.is_empty() && (ty == 7 || r.chance(1, 2)) { II::RefFunc(*r.pick(&live_f)) } else { II::RefNull(if r.chance(1, 6) { 10 } else { 0 }) },
        6 | 8 => II::RefNull(2),
        9 | 14 => II::RefNull(*r.pick(&[4u32, 6, 12, 18])), 10 | 18 => II::RefNull(*r.pick(&[12u32, 6, 18])), 11 | 19 => II::RefNull(18), 12 => II::RefNull(14),
        13 => II::RefNull(16), 15 => II::RefNull(6), 16 => II::RefNull(10), 17 => II::RefNull(8),
        _ => II::RefNull(if r.chance(1, 2) { 1000 } else { 2 * r.below(14) as u32 + r.below(2) as u32 }),
    }]
}
fn gen_gty(r: &mut Rng, base: bool) -> GTy {
    let ty = if base { *r.pick(&[0u32, 0, 1, 2, 3, 4, 5, 6]) } else {
        match r.below(20) { 0..=3 => 0, 4 | 5 => 1, 6 | 7 => 2, 8 | 9 => 3, 10 | 11 => 4, 12 | 13 => 5, 14 => 6, 15..=18 => 9 + r.below(11) as u32, _ => 0 }
    };
    let ty = if !base && r.chance(1, 150) { 20 + r.below(2) as u32 } else if !base && r.chance(1, 160) { 7 + r.below(2) as u32 } else { ty };
    GTy { ty, mutable: r.chance(1, 3), shared: !base && ty < 5 && r.chance(1, 10) }
}
fn gen_offset(r: &mut Rng, m64: bool, k: &Known) -> Vec<II> {
    let want = if m64 { 1 } else { 0 };
    let getters: Vec<u64> = k.g.iter().filter(|h| h.imp && !h.mutable && h.ty == want && !k.dead[1].contains(&h.id)).map(|h| h.id).collect();
    if !getters.is_empty() && r.chance(1, 3) { return vec![II::Global(*r.pick(&getters))]; }
    if m64 { vec![II::Val(Val::I64(r.below(70000) as i64))] } else { vec![II::Val(Val::I32(if r.chance(1, 10) { gen_i32(r) } else { r.below(70000) as i32 }))] }
}
fn gen_bytes(r: &mut Rng) -> Vec<u8> { let n = match r.below(5) { 0 => 0, 1 => 1, _ => r.below(12) }; (0..n).map(|_| r.next() as u8).collect() }
fn gen_dseg(r: &mut Rng, k: &Known, allow_dead: bool) -> DSeg {
    let mems = if allow_dead && r.chance(1, 15) { k.all(Sp::M) } else { k.live(Sp::M) };
    if mems.is_empty() || r.chance(1, 4) { return DSeg::Passive(gen_bytes(r)); }
    let m = *r.pick(&mems);
    let m64 = k.m.iter().find(|h| h.id == m).map(|h| h.m64).unwrap_or(false);
    DSeg::Active(m, gen_offset(r, m64, k), gen_bytes(r))
}

struct Base {
    imports: Vec<(u64, u64, IDesc)>, funcs: Vec<u64>, globals: Vec<(u64, GTy, Vec<II>)>, mems: Vec<(u64, MTy)>,
    data: Vec<DSeg>, exports: Vec<(u64, u32, u64)>, dcount: bool,
}
fn build(b: &Base) -> Vec<u8> {
    use wasm_encoder as we;
    let mut m = we::Module::new();
    let mut types = we::TypeSection::new();
    types.ty().function([], []);
    m.section(&types);
    if !b.imports.is_empty() {
        let mut is = we::ImportSection::new();
        for (k, fp, d) in &b.imports {
            let name = format!("i{fp}");
            match (k, d) {
                (0, _) => { is.import("env", &name, we::EntityType::Function(0)); }
                (1, IDesc::Global(t)) => { is.import("env", &name, we::EntityType::Global(we::GlobalType { val_type: code_enc(t.ty), mutable: t.mutable, shared: t.shared })); }
                (2, IDesc::Mem(t)) => { is.import("env", &name, we::EntityType::Memory(t.enc())); }
                (3, _) => { is.import("env", &name, we::EntityType::Table(we::TableType { element_type: we::RefType::FUNCREF, table64: false, minimum: 0, maximum: None, shared: false })); }
                _ => { is.import("env", &name, we::EntityType::Tag(we::TagType { kind: we::TagKind::Exception, func_type_idx: 0 })); }
            }
        }
        m.section(&is);
    }
    let mut fs = we::FunctionSection::new();
    for _ in &b.funcs { fs.function(0); }
    m.section(&fs);
    let mut ts = we::TableSection::new();
    ts.table(we::TableType { element_type: we::RefType::FUNCREF, table64: false, minimum: 4, maximum: None, shared: false });
    m.section(&ts);
    if !b.mems.is_empty() {
        let mut ms = we::MemorySection::new();
        for (_, t) in &b.mems { ms.memory(t.enc()); }
        m.section(&ms);
    }
    if !b.globals.is_empty() {
        let mut gs = we::GlobalSection::new();
        for (_, t, e) in &b.globals { gs.global(we::GlobalType { val_type: code_enc(t.ty), mutable: t.mutable, shared: t.shared }, &enc_init(e)); }
        m.section(&gs);
    }
    if !b.exports.is_empty() {
        let mut es = we::ExportSection::new();
        for (n, k, idx) in &b.exports {
            let kind = match k { 0 => we::ExportKind::Func, 1 => we::ExportKind::Global, 2 => we::ExportKind::Memory, 3 => we::ExportKind::Table, _ => we::ExportKind::Tag };
            es.export(&format!("e{n}"), kind, *idx as u32);
        }
        m.section(&es);
    }
    if b.dcount { m.section(&we::DataCountSection { count: b.data.len() as u32 }); }
    let mut code = we::CodeSection::new();
    for fp in &b.funcs {
        let mut f = we::Function::new([]);
        f.instruction(&we::Instruction::I32Const(*fp as i32));
        f.instruction(&we::Instruction::Drop);
        f.instruction(&we::Instruction::End);
        code.function(&f);
    }
    m.section(&code);
    if !b.data.is_empty() {
        let mut ds = we::DataSection::new();
        for d in &b.data {
            match d { DSeg::Passive(bytes) => { ds.passive(bytes.clone()); } DSeg::Active(mem, off, bytes) => { ds.active(*mem as u32, &enc_init(off), bytes.clone()); } }
        }
        m.section(&ds);
    }
    m.finish()
}

fn why_invalid(bytes: &[u8]) -> Option<String> {
    wasmparser::Validator::new_with_features(wasmparser::WasmFeatures::all()).validate_all(bytes).err().map(|e| e.message().to_string())
}
fn tok(name: &str, prefix: char) -> u64 { name.strip_prefix(prefix).and_then(|x| x.parse::<u64>().ok()).unwrap_or(999999) }

fn decode(out: &[u8]) -> Option<Dec> {
    let mut d = Dec::default();
    for p in wasmparser::Parser::new(0).parse_all(out) {
        match p.ok()? {
            wasmparser::Payload::ImportSection(r) => for i in r {
                let i = i.ok()?;
                let fp = tok(i.name, 'i');
                let (k, desc) = match i.ty {
                    wasmparser::TypeRef::Func(_) => (0, IDesc::None),
                    wasmparser::TypeRef::Global(g) => (1, IDesc::Global(GTy { ty: wp_code(g.content_type) as u32, mutable: g.mutable, shared: g.shared })),
                    wasmparser::TypeRef::Memory(m) => (2, IDesc::Mem(MTy::from_wp(&m))),
                    wasmparser::TypeRef::Table(_) => (3, IDesc::None),
                    wasmparser::TypeRef::Tag(_) => (4, IDesc::None),
                };
                d.imports.push((k, fp, desc));
            },
            wasmparser::Payload::GlobalSection(r) => for g in r {
                let g = g.ok()?;
                d.globals.push((GTy { ty: wp_code(g.ty.content_type) as u32, mutable: g.ty.mutable, shared: g.ty.shared }, read_cops(&g.init_expr)?));
            },
            wasmparser::Payload::MemorySection(r) => for mm in r { d.mems.push(MTy::from_wp(&mm.ok()?)); },
            wasmparser::Payload::ExportSection(r) => for e in r {
                let e = e.ok()?;
                let k = match e.kind { wasmparser::ExternalKind::Func => 0, wasmparser::ExternalKind::Global => 1, wasmparser::ExternalKind::Memory => 2, wasmparser::ExternalKind::Table => 3, wasmparser::ExternalKind::Tag => 4 };
                d.exports.push((tok(e.name, 'e'), k, e.index as u64));
            },
            wasmparser::Payload::DataCountSection { count, .. } => d.dcount = Some(count as u64),
            wasmparser::Payload::DataSection(r) => for s in r {
                let s = s.ok()?;
                d.data.push(match s.kind {
                    wasmparser::DataKind::Passive => ODSeg::Passive(s.data.to_vec()),
                    wasmparser::DataKind::Active { memory_index, offset_expr } => ODSeg::Active(memory_index, read_cops(&offset_expr)?, s.data.to_vec()),
                });
            },
            wasmparser::Payload::CodeSectionEntry(b) => {
                let mut ops = vec![];
                let mut rd = b.get_operators_reader().ok()?;
                while !rd.eof() { ops.push(rd.read().ok()?); }
                let mut fp = 0u64;
                let mut i = 0;
                while i < ops.len() {
                    if let Operator::I32Const { value } = ops[i] {
                        let v = value as u32 as u64;
                        if v >= MARK && v < MARK + 50000 {
                            let q = match ops.get(i + 2) {
                                Some(Operator::Call { function_index }) => *function_index as u64,
                                Some(Operator::GlobalGet { global_index }) => *global_index as u64,
                                Some(Operator::MemorySize { mem }) => *mem as u64,
                                _ => 444444,
                            };
                            d.sites.push((v - MARK, q));
                            i += 2;
                        } else if fp == 0 && value > 0 { fp = v; }
                    }
                    i += 1;
                }
                d.funcs.push(fp);
            }
            _ => {}
        }
    }
    d.sites.sort();
    Some(d)
}

fn main() {
    let args = parse_args();
    let header = "From Coq Require Import List NArith ZArith.\nImport ListNotations.\nFrom Orca Require Import Reindex Additions CheckAdds.\nOpen Scope N_scope.";
    let footer = format!("Eval vm_compute in (report_{} cases).", args.prop);
    let prop = args.prop.clone();
    run_shards(&args, header, "acase", &footer, |seed, idx| {
        let mut r = Rng::for_case(seed, idx);
        gen_case(&mut r, &prop, seed, idx)
    });
}

fn gen_case(r: &mut Rng, _prop: &str, seed: u64, idx: u64) -> Case {
    let mut fpc = 0u64;
    let mut nfp = |fpc: &mut u64| { *fpc += 1; *fpc };
    let mut namec = 0u64;
    let mut base = Base { imports: vec![], funcs: vec![], globals: vec![], mems: vec![], data: vec![], exports: vec![], dcount: r.chance(1, 2) };
    for _ in 0..r.below(6) {
        let k = match r.below(10) { 0 | 1 => 0, 2 | 3 | 4 => 1, 5 | 6 => 2, 7 => 3, 8 => 4, _ => 1 };
        let fp = nfp(&mut fpc);
        let d = match k {
            1 => IDesc::Global(GTy { ty: *r.pick(&[0u32, 0, 0, 1, 2, 3, 4, 5]), mutable: r.chance(1, 5), shared: false }),
            2 => { let p = r.chance(2, 3); IDesc::Mem(gen_mty(r, p)) }
            _ => IDesc::None,
        };
        base.imports.push((k, fp, d));
    }
    for _ in 0..r.below(3) { let fp = nfp(&mut fpc); base.funcs.push(fp); }
    base.funcs.push(PROBE_FP);
    let mut known = Known { f: vec![], g: vec![], m: vec![], dead: [vec![], vec![], vec![]] };
    for (k, _, d) in &base.imports {
        match (k, d) {
            (0, _) => { let id = known.f.len() as u64; known.f.push(id); }
            (1, IDesc::Global(t)) => { let id = known.g.len() as u64; known.g.push(GHandle { id, imp: true, ty: t.ty, mutable: t.mutable }); }
            (2, IDesc::Mem(t)) => { let id = known.m.len() as u64; known.m.push(MHandle { id, m64: t.m64 }); }
            _ => {}
        }
    }
    for _ in &base.funcs { let id = known.f.len() as u64; known.f.push(id); }
    let probe_id = known.f.len() as u64 - 1;
    for _ in 0..r.below(3) { let fp = nfp(&mut fpc); let p = r.chance(2, 3); let t = gen_mty(r, p); let id = known.m.len() as u64; known.m.push(MHandle { id, m64: t.m64 }); base.mems.push((fp, t)); }
    for _ in 0..r.below(4) {
        let fp = nfp(&mut fpc);
        let t = gen_gty(r, true);
        let e = gen_init(r, t.ty, &known, true);
        let id = known.g.len() as u64;
        known.g.push(GHandle { id, imp: false, ty: t.ty, mutable: t.mutable });
        base.globals.push((fp, t, e));
    }
    for _ in 0..r.below(4) {
        let k = match r.below(14) { 0..=4 => 0u32, 5 => 1, 6..=11 => 2, _ => 3 };
        let idx = match k { 0 => known.live(Sp::F), 1 => known.live(Sp::G), 2 => known.live(Sp::M), _ => vec![0] };
        if idx.is_empty() { continue; }
        namec += 1;
        base.exports.push((namec, k, *r.pick(&idx)));
    }
    for _ in 0..r.below(3) { let d = gen_dseg(r, &known, false); base.data.push(d); }
    let bytes = build(&base);
    let base_why = why_invalid(&bytes);
    let base_valid = base_why.is_none();

    // ---- history (executed while it is generated, so that the returned ids can be used) ----
    let mut hist: Vec<AOp> = vec![];
    let mut rets: Vec<Option<u64>> = vec![];
    let mut api_panic = false;
    let mut sites: Vec<(Sp, u64)> = vec![];
    let mut nexports = base.exports.len() as u64;
    let mut added: [Vec<u64>; 3] = [vec![], vec![], vec![]];
    let res = catch_unwind(AssertUnwindSafe(|| {
        let mut module = Module::parse(&bytes, true).expect("parse");
        let nops = 1 + r.below(7);
        for _ in 0..nops {
            let op = match r.below(40) {
                0..=8 => { let t = gen_gty(r, false); let e = gen_init(r, t.ty, &known, false); AOp::AddGlobal(nfp(&mut fpc), t, e) }
                9..=12 => { let mut t = gen_gty(r, false); if r.chance(2, 3) { t.mutable = false; } AOp::AddImpGlobal(nfp(&mut fpc), t) }
                13 => { let t = gen_gty(r, true); let e = gen_init(r, t.ty, &known, false); AOp::ItAddGlobal(nfp(&mut fpc), t, e) }
                14..=17 => { let p = r.chance(1, 2); AOp::AddMem(nfp(&mut fpc), gen_mty(r, p)) }
                18..=20 => { let p = r.chance(1, 2); AOp::AddImpMem(nfp(&mut fpc), gen_mty(r, p)) }
                21 | 22 => AOp::AddImpFunc(nfp(&mut fpc)),
                23..=28 => AOp::AddData(gen_dseg(r, &known, true)),
                29..=31 => {
                    let k = if r.chance(1, 2) { 0u32 } else { 2 };
                    let sp = if k == 0 { Sp::F } else { Sp::M };
                    let ids = if r.chance(1, 15) { known.all(sp) } else { known.live(sp) };
                    if ids.is_empty() { continue; }
                    namec += 1;
                    AOp::AddExport(k, namec, *r.pick(&ids))
                }
                32 => { if nexports == 0 && !r.chance(1, 10) { continue; } let extra = if r.chance(1, 20) { 1 } else { 0 }; AOp::DelExport(r.below(nexports + extra)) }
                33..=36 => {
                    // replace the initialiser of an existing (mostly local, live) global
                    let locals: Vec<&GHandle> = known.g.iter().filter(|h| !h.imp).collect();
                    let pool: Vec<&GHandle> = if r.chance(1, 12) { known.g.iter().collect() } else { locals };
                    if pool.is_empty() { continue; }
                    let h = *r.pick(&pool);
                    let (id, ty) = (if r.chance(1, 40) { h.id + 7 } else { h.id }, h.ty);
                    let e = gen_init(r, ty, &known, false);
                    AOp::ModInit(id, e)
                }
                _ => {
                    let sp = *r.pick(&[Sp::F, Sp::G, Sp::G, Sp::M, Sp::M]);
                    let ids: Vec<u64> = (if r.chance(1, 12) { known.all(sp) } else { known.live(sp) }).into_iter().filter(|x| !(sp == Sp::F && *x == probe_id)).collect();
                    if ids.is_empty() { continue; }
                    AOp::Delete(sp, *r.pick(&ids))
                }
            };
            hist.push(op.clone());
            let rres = catch_unwind(AssertUnwindSafe(|| -> Option<u64> {
                match &op {
                    AOp::AddGlobal(_, t, e) => Some(*module.add_global(to_init(e), code_dt(t.ty), t.mutable, t.shared) as u64),
                    AOp::AddImpGlobal(fp, t) => Some(*module.add_imported_global("env".into(), format!("i{fp}"), code_dt(t.ty), t.mutable, t.shared).0 as u64),
                    AOp::ItAddGlobal(_, t, e) => {
                        let mut it = ModuleIterator::new(&mut module, &vec![]);
                        Some(*it.add_global(Global::new(GlobalKind::Local(LocalGlobal { global_id: GlobalID(0), ty: wasmparser::GlobalType { content_type: code_wp(t.ty), mutable: t.mutable, shared: t.shared }, init_expr: to_init(e) }), None)) as u64)
                    }
                    AOp::AddMem(_, t) => Some(*module.add_local_memory(t.wp()) as u64),
                    AOp::AddImpMem(fp, t) => Some(*module.add_import_memory("env".into(), format!("i{fp}"), t.wp()).0 as u64),
                    AOp::AddImpFunc(fp) => Some(*module.add_import_func("env".into(), format!("i{fp}"), TypeID(0)).0 as u64),
                    AOp::AddData(d) => Some(*module.add_data(match d {
                        DSeg::Passive(b) => DataSegment { kind: DataSegmentKind::Passive, data: b.clone(), tag: None },
                        DSeg::Active(m, o, b) => DataSegment { kind: DataSegmentKind::Active { memory_index: *m as u32, offset_expr: to_init(o) }, data: b.clone(), tag: None },
                    }) as u64),
                    AOp::AddExport(0, n, id) => { module.exports.add_export_func(format!("e{n}"), *id as u32, None); None }
                    AOp::AddExport(_, n, id) => { module.exports.add_export_mem(format!("e{n}"), *id as u32, None); None }
                    AOp::DelExport(k) => { module.exports.delete(ExportsID(*k as u32)); None }
                    AOp::ModInit(g, e) => { module.mod_global_init_expr(GlobalID(*g as u32), to_init(e)); None }
                    AOp::Delete(Sp::F, id) => { module.delete_func(FunctionID(*id as u32)); None }
                    AOp::Delete(Sp::G, id) => { module.delete_global(GlobalID(*id as u32)); None }
                    AOp::Delete(Sp::M, id) => { module.delete_memory(MemoryID(*id as u32)); None }
                }
            }));
            match rres {
                Err(_) => { api_panic = true; break; }
                Ok(ret) => {
                    rets.push(ret);
                    match (&op, ret) {
                        (AOp::AddGlobal(_, t, _), Some(id)) | (AOp::ItAddGlobal(_, t, _), Some(id)) => { if !known.g.iter().any(|h| h.id == id) { known.g.push(GHandle { id, imp: false, ty: t.ty, mutable: t.mutable }); } added[1].push(id); }
                        (AOp::AddImpGlobal(_, t), Some(id)) => { if !known.g.iter().any(|h| h.id == id) { known.g.push(GHandle { id, imp: true, ty: if t.ty == 7 { 5 } else if t.ty == 8 { 6 } else { t.ty }, mutable: t.mutable }); } added[1].push(id); }
                        (AOp::AddMem(_, t), Some(id)) | (AOp::AddImpMem(_, t), Some(id)) => { if !known.m.iter().any(|h| h.id == id) { known.m.push(MHandle { id, m64: t.m64 }); } added[2].push(id); }
                        (AOp::AddImpFunc(_), Some(id)) => { if !known.f.contains(&id) { known.f.push(id); } added[0].push(id); }
                        (AOp::AddExport(..), _) => nexports += 1,
                        (AOp::Delete(s, id), _) => { if !known.dead[s.code()].contains(id) { known.dead[s.code()].push(*id); } }
                        _ => {}
                    }
                }
            }
        }
        if api_panic { return None; }
        // references to the handles, injected into the probe function: every added global / memory, some others
        for sp in [Sp::G, Sp::M, Sp::F] {
            for id in known.all(sp) {
                let dead = known.dead[sp.code()].contains(&id);
                let is_added = added[sp.code()].contains(&id);
                let take = if dead { r.chance(1, 25) } else if is_added { sp != Sp::F || r.chance(1, 2) } else { r.chance(if sp == Sp::F { 1 } else { 2 }, 4) };
                if take && !(sp == Sp::F && id == probe_id) { sites.push((sp, id)); }
            }
        }
        let enc = catch_unwind(AssertUnwindSafe(|| {
            {
                let mut fm = module.functions.get_fn_modifier(FunctionID(probe_id as u32)).unwrap();
                fm.before_at(Location::Module { func_idx: FunctionID(0), instr_idx: 0 });
                for (n, (sp, id)) in sites.iter().enumerate() {
                    fm.inject(Operator::I32Const { value: (MARK + n as u64) as i32 });
                    fm.inject(Operator::Drop);
                    match sp {
                        Sp::F => fm.inject(Operator::Call { function_index: *id as u32 }),
                        Sp::G => { fm.inject(Operator::GlobalGet { global_index: *id as u32 }); fm.inject(Operator::Drop); }
                        Sp::M => { fm.inject(Operator::MemorySize { mem: *id as u32 }); fm.inject(Operator::Drop); }
                    }
                }
            }
            module.encode()
        }));
        enc.ok()
    }));
    let enc: Option<Vec<u8>> = match res { Ok(x) => x, Err(_) => { api_panic = true; None } };
    let (dec, valid) = match &enc { Some(out) => (decode(out), validates(out)), None => (None, false) };
    let undecodable = enc.is_some() && dec.is_none();

    let enc_s = match &dec {
        Some(d) => format!(
            "(Some (mkO {} {} {} {} {} {} {} {}))",
            cl(&d.imports, |(k, fp, ds)| format!("mkOI {} {} {}", k, fp, ds.coq())), cl(&d.funcs, |x| x.to_string()),
            cl(&d.globals, |(t, e)| format!("mkOG {} {}", t.coq(), coq_cops(e))), cl(&d.mems, |t| t.coq()),
            cl(&d.data, |s| match s { ODSeg::Passive(b) => format!("OPassive {}", coq_bytes(b)), ODSeg::Active(m, o, b) => format!("OActive {} {} {}", m, coq_cops(o), coq_bytes(b)) }),
            cl(&d.exports, |(n, k, i)| format!("({n}, {k}, {i})")), cl(&d.sites, |(n, q)| format!("({n}, {q})")), copt(&d.dcount, |x| x.to_string())),
        None => if undecodable { "(Some (mkO [] [] [] [] [] [] [(999999, 999999)] None))".to_string() } else { "None".to_string() },
    };
    // what the base module looks like after parsing: FuncRef-style request codes are already the stored types
    let coq = format!(
        "mkAC {} {} {} {} {} {} {} {} {} {} {} {}",
        cl(&base.imports, |(k, fp, d)| format!("mkBI {} {} {}", k, fp, d.coq())), cl(&base.funcs, |x| x.to_string()),
        cl(&base.globals, |(fp, t, e)| format!("({}, mkGP {} (Some {}))", fp, t.coq(), coq_init(e))), cl(&base.mems, |(fp, t)| format!("({}, {})", fp, t.coq())),
        cl(&base.data, |d| d.coq()), cl(&base.exports, |(n, k, i)| format!("mkEx {n} {k} {i} false")), cb(base.dcount),
        cl(&hist, |h| h.coq()), cl(&sites, |(s, id)| format!("({}, {})", s.coq(), id)),
        cl(&rets, |x| match x { Some(v) => format!("Some {v}"), None => "None".into() }), cb(api_panic), enc_s
    );
    let desc = format!(
        "imports={:?} funcs={:?} globals={:?} mems={:?} data={:?} exports={:?} dcount={} base_valid={} hist={:?} rets={:?} sites={:?} => api_panic={} valid={} {}",
        base.imports, base.funcs, base.globals, base.mems, base.data, base.exports, base.dcount, base_valid, hist, rets, sites, api_panic, valid,
        match &dec { Some(d) => format!("{:?}", d), None => if undecodable { "UNDECODABLE".into() } else { "ENCODE-PANIC".to_string() } }
    );
    let mut tags = vec![format!("base_why={}", base_why.clone().unwrap_or_default().chars().take(40).collect::<String>()), format!("hist_len={}", hist.len()), format!("api_panic={}", api_panic), format!("encoded={}", enc.is_some()), format!("valid={}", valid), format!("base_valid={}", base_valid)];
    for h in &hist {
        tags.push(format!("op={}", h.tag()));
        let inits: Vec<&Vec<II>> = match h { AOp::AddGlobal(_, _, e) | AOp::ItAddGlobal(_, _, e) | AOp::ModInit(_, e) => vec![e], AOp::AddData(DSeg::Active(_, o, _)) => vec![o], _ => vec![] };
        for e in inits { for i in e { tags.push(format!("init={}", match i { II::Val(Val::I32(_)) => "i32", II::Val(Val::I64(_)) => "i64", II::Val(Val::F32(b)) => if (b & 0x7f80_0000) == 0x7f80_0000 && (b & 0x7f_ffff) != 0 { if b & 0x40_0000 != 0 { "f32_qnan" } else { "f32_snan" } } else { "f32" }, II::Val(Val::F64(b)) => if (b & 0x7ff0_0000_0000_0000) == 0x7ff0_0000_0000_0000 && (b & 0xf_ffff_ffff_ffff) != 0 { if b & 0x8_0000_0000_0000 != 0 { "f64_qnan" } else { "f64_snan" } } else { "f64" }, II::Val(Val::V128(_)) => "v128", II::Global(_) => "global.get", II::RefFunc(_) => "ref.func", II::RefNull(_) => "ref.null" })); } }
    }
    let nontrivial = hist.iter().any(|h| !matches!(h, AOp::Delete(..) | AOp::DelExport(..) | AOp::AddImpFunc(..)));
    Case { seed, idx, coq, desc, nontrivial, tags }
}
