// Correspondence harness of the additions engine (C30; C12 is served by the same binary).
// Base modules with imports of all five kinds, local functions / globals / memories (multi-memory), exports of
// four kinds, active and passive data segments; histories of module-level additions through the public API
// (add_global with every InitExpr form and bit pattern, add_imported_global, ModuleIterator::add_global,
// add_local_memory / add_import_memory with random limits and flags, add_data, exports.add_export_func / _mem,
// mod_global_init_expr) interleaved with deletions and import additions that shift indices.  The whole decoded
// global / memory / data / export / import sections of the real output are handed to Coq.
use std::panic::{catch_unwind, AssertUnwindSafe};
use vharness::wasmgen::validates;
use vharness::*;
use wasm_encoder::Encode;
use wasmparser::Operator;
use wirm::ir::id::*;
use wirm::ir::module::module_globals::{Global, GlobalKind, LocalGlobal};
use wirm::ir::types::{InitExpr, InitInstr, Location, Value};
use wirm::iterator::iterator_trait::IteratingInstrumenter;
use wirm::iterator::module_iterator::ModuleIterator;
use wirm::opcode::{Inject, Instrumenter};
use wirm::{DataSegment, DataSegmentKind, DataType, Module};

const MARK: u64 = 100000;
const PROBE_FP: u64 = 9999;

#[derive(Clone, Copy, Debug, PartialEq)]
enum Sp { F, G, M }
impl Sp {
    fn coq(&self) -> &'static str { match self { Sp::F => "SF", Sp::G => "SG", Sp::M => "SM" } }
    fn code(&self) -> usize { match self { Sp::F => 0, Sp::G => 1, Sp::M => 2 } }
}

// ---------------------------------------------------------------------------------------------
// value types as codes (see Model/Additions.v): what the *request* means and how the output is read back
const ABS: [wasmparser::AbstractHeapType; 14] = {
    use wasmparser::AbstractHeapType::*;
    [Func, Extern, Any, None, NoExtern, NoFunc, Eq, Struct, Array, I31, Exn, NoExn, Cont, NoCont]
};
fn code_dt(t: u32) -> DataType {
    match t {
        0 => DataType::I32, 1 => DataType::I64, 2 => DataType::F32, 3 => DataType::F64, 4 => DataType::V128,
        5 => DataType::FuncRefNull, 6 => DataType::ExternRefNull, 7 => DataType::FuncRef, 8 => DataType::ExternRef,
        9 => DataType::AnyNull, 10 => DataType::EqNull, 11 => DataType::I31Null, 12 => DataType::StructNull,
        13 => DataType::ArrayNull, 14 => DataType::Any, 15 => DataType::NoneNull, 16 => DataType::NoFuncNull,
        17 => DataType::NoExternNull, 18 => DataType::Eq, 19 => DataType::I31,
        20 => DataType::I8, 21 => DataType::I16,
        _ => DataType::I32,
    }
}
// (nullable, abstract heap type index) of the reference type a code stands for
fn code_ref(t: u32) -> Option<(bool, usize)> {
    Some(match t {
        5 => (true, 0), 6 => (true, 1), 7 => (false, 0), 8 => (false, 1), 9 => (true, 2), 10 => (true, 6), 11 => (true, 9),
        12 => (true, 7), 13 => (true, 8), 14 => (false, 2), 15 => (true, 3), 16 => (true, 5), 17 => (true, 4), 18 => (false, 6), 19 => (false, 9),
        _ => return None,
    })
}
fn code_wp(t: u32) -> wasmparser::ValType {
    use wasmparser::ValType as V;
    match t {
        0 => V::I32, 1 => V::I64, 2 => V::F32, 3 => V::F64, 4 => V::V128,
        t => match code_ref(t) {
            Some((n, k)) => V::Ref(wasmparser::RefType::new(n, wasmparser::HeapType::Abstract { shared: false, ty: ABS[k] }).unwrap()),
            None => V::I32,
        },
    }
}
fn code_enc(t: u32) -> wasm_encoder::ValType {
    use wasm_encoder::{AbstractHeapType as A, HeapType, RefType, ValType as V};
    const EA: [A; 14] = [A::Func, A::Extern, A::Any, A::None, A::NoExtern, A::NoFunc, A::Eq, A::Struct, A::Array, A::I31, A::Exn, A::NoExn, A::Cont, A::NoCont];
    match t {
        0 => V::I32, 1 => V::I64, 2 => V::F32, 3 => V::F64, 4 => V::V128,
        t => match code_ref(t) {
            Some((n, k)) => V::Ref(RefType { nullable: n, heap_type: HeapType::Abstract { shared: false, ty: EA[k] } }),
            None => V::I32,
        },
    }
}
fn wp_code(v: wasmparser::ValType) -> u64 {
    use wasmparser::ValType as V;
    match v {
        V::I32 => 0, V::I64 => 1, V::F32 => 2, V::F64 => 3, V::V128 => 4,
        V::Ref(r) => match r.heap_type() {
            wasmparser::HeapType::Abstract { shared: false, ty } => {
                let k = ABS.iter().position(|a| *a == ty).unwrap_or(99);
                for t in 5..20u32 { if code_ref(t) == Some((r.is_nullable(), k)) { return t as u64; } }
                900 + 2 * k as u64 + r.is_nullable() as u64
            }
            _ => 990,
        },
    }
}
// heap type codes of ref.null: 2 * abstract index + shared, 1000 + module type index
fn heap_wp(h: u32) -> wasmparser::HeapType {
    if h >= 1000 { wasmparser::HeapType::Concrete(wasmparser::UnpackedIndex::Module(h - 1000)) }
    else { wasmparser::HeapType::Abstract { shared: h % 2 == 1, ty: ABS[(h / 2) as usize % 14] } }
}
fn wp_heap(h: &wasmparser::HeapType) -> u64 {
    match h {
        wasmparser::HeapType::Abstract { shared, ty } => 2 * ABS.iter().position(|a| a == ty).unwrap_or(50) as u64 + *shared as u64,
        wasmparser::HeapType::Concrete(wasmparser::UnpackedIndex::Module(k)) => 1000 + *k as u64,
        _ => 5000,
    }
}
fn heap_enc(h: u32) -> wasm_encoder::HeapType {
    use wasm_encoder::AbstractHeapType as A;
    const EA: [A; 14] = [A::Func, A::Extern, A::Any, A::None, A::NoExtern, A::NoFunc, A::Eq, A::Struct, A::Array, A::I31, A::Exn, A::NoExn, A::Cont, A::NoCont];
    if h >= 1000 { wasm_encoder::HeapType::Concrete(h - 1000) } else { wasm_encoder::HeapType::Abstract { shared: h % 2 == 1, ty: EA[(h / 2) as usize % 14] } }
}

// ---------------------------------------------------------------------------------------------
#[derive(Clone, Debug, PartialEq)]
enum Val { I32(i32), I64(i64), F32(u32), F64(u64), V128(u128) }
#[derive(Clone, Debug, PartialEq)]
enum II { Val(Val), Global(u64), RefFunc(u64), RefNull(u32) }
#[derive(Clone, Debug, PartialEq)]
struct GTy { ty: u32, mutable: bool, shared: bool }
#[derive(Clone, Debug, PartialEq)]
struct MTy { m64: bool, shared: bool, initial: u64, max: Option<u64>, psl: Option<u32> }
#[derive(Clone, Debug)]
enum DSeg { Passive(Vec<u8>), Active(u64, Vec<II>, Vec<u8>) }
#[derive(Clone, Debug)]
enum AOp {
    AddGlobal(u64, GTy, Vec<II>), AddImpGlobal(u64, GTy), ItAddGlobal(u64, GTy, Vec<II>), AddMem(u64, MTy), AddImpMem(u64, MTy),
    AddImpFunc(u64), AddData(DSeg), AddExport(u32, u64, u64), DelExport(u64), ModInit(u64, Vec<II>), Delete(Sp, u64),
}
// decoded
#[derive(Clone, Debug)]
enum Cop { I32(i32), I64(i64), F32(u32), F64(u64), V128(i128), GlobalGet(u32), RefFunc(u32), RefNull(u64), Other(u64) }
#[derive(Clone, Debug)]
enum ODSeg { Passive(Vec<u8>), Active(u32, Vec<Cop>, Vec<u8>) }
#[derive(Clone, Debug)]
enum IDesc { None, Global(GTy), Mem(MTy) }
#[derive(Debug, Default)]
struct Dec {
    imports: Vec<(u64, u64, IDesc)>, funcs: Vec<u64>, globals: Vec<(GTy, Vec<Cop>)>, mems: Vec<MTy>, data: Vec<ODSeg>,
    exports: Vec<(u64, u64, u64)>, sites: Vec<(u64, u64)>, dcount: Option<u64>,
}

fn cz(z: i128) -> String { coq_z(z) }
fn cb(b: bool) -> &'static str { coq_bool(b) }
fn cl<T, F: Fn(&T) -> String>(v: &[T], f: F) -> String { coq_list(v, f) }
fn copt<T, F: Fn(&T) -> String>(v: &Option<T>, f: F) -> String { coq_opt(v, f) }
impl Val {
    fn coq(&self) -> String {
        match self {
            Val::I32(v) => format!("VI32 {}", cz(*v as i128)), Val::I64(v) => format!("VI64 {}", cz(*v as i128)),
            Val::F32(b) => format!("VF32 {}", cz(*b as i128)), Val::F64(b) => format!("VF64 {}", cz(*b as i128)),
            Val::V128(u) => format!("VV128 {}", if *u > i128::MAX as u128 { format!("{}%Z", u) } else { cz(*u as i128) }),
        }
    }
}
impl II {
    fn coq(&self) -> String {
        match self { II::Val(v) => format!("IVal ({})", v.coq()), II::Global(g) => format!("IGlobal {g}"), II::RefFunc(f) => format!("IRefFunc {f}"), II::RefNull(h) => format!("IRefNull {h}") }
    }
}
fn coq_init(e: &[II]) -> String { cl(e, |i| i.coq()) }
impl GTy { fn coq(&self) -> String { format!("(mkGT {} {} {})", self.ty, cb(self.mutable), cb(self.shared)) } }
impl MTy {
    fn coq(&self) -> String { format!("(mkMT {} {} {} {} {})", cb(self.m64), cb(self.shared), self.initial, copt(&self.max, |x| x.to_string()), copt(&self.psl, |x| x.to_string())) }
    fn wp(&self) -> wasmparser::MemoryType { wasmparser::MemoryType { memory64: self.m64, shared: self.shared, initial: self.initial, maximum: self.max, page_size_log2: self.psl } }
    fn enc(&self) -> wasm_encoder::MemoryType { wasm_encoder::MemoryType { memory64: self.m64, shared: self.shared, minimum: self.initial, maximum: self.max, page_size_log2: self.psl } }
    fn from_wp(m: &wasmparser::MemoryType) -> MTy { MTy { m64: m.memory64, shared: m.shared, initial: m.initial, max: m.maximum, psl: m.page_size_log2 } }
}
fn coq_bytes(b: &[u8]) -> String { cl(b, |x| x.to_string()) }
impl DSeg {
    fn coq(&self) -> String {
        match self { DSeg::Passive(b) => format!("DPassive {}", coq_bytes(b)), DSeg::Active(m, o, b) => format!("DActive {} {} {}", m, coq_init(o), coq_bytes(b)) }
    }
}
impl AOp {
    fn coq(&self) -> String {
        match self {
            AOp::AddGlobal(fp, t, e) => format!("OAddGlobal {} {} {}", fp, t.coq(), coq_init(e)),
            AOp::AddImpGlobal(fp, t) => format!("OAddImpGlobal {} {}", fp, t.coq()),
            AOp::ItAddGlobal(fp, t, e) => format!("OItAddGlobal {} {} {}", fp, t.coq(), coq_init(e)),
            AOp::AddMem(fp, t) => format!("OAddMem {} {}", fp, t.coq()),
            AOp::AddImpMem(fp, t) => format!("OAddImpMem {} {}", fp, t.coq()),
            AOp::AddImpFunc(fp) => format!("OAddImpFunc {}", fp),
            AOp::AddData(d) => format!("OAddData ({})", d.coq()),
            AOp::AddExport(k, n, id) => format!("OAddExport {} {} {}", k, n, id),
            AOp::DelExport(k) => format!("ODelExport {}", k),
            AOp::ModInit(g, e) => format!("OModInit {} {}", g, coq_init(e)),
            AOp::Delete(s, id) => format!("ODelete {} {}", s.coq(), id),
        }
    }
    fn tag(&self) -> &'static str {
        match self {
            AOp::AddGlobal(..) => "add_global", AOp::AddImpGlobal(..) => "add_imported_global", AOp::ItAddGlobal(..) => "iterator_add_global", AOp::AddMem(..) => "add_local_memory",
            AOp::AddImpMem(..) => "add_import_memory", AOp::AddImpFunc(..) => "add_import_func", AOp::AddData(DSeg::Passive(_)) => "add_data_passive", AOp::AddData(_) => "add_data_active",
            AOp::AddExport(0, ..) => "add_export_func", AOp::AddExport(..) => "add_export_mem", AOp::DelExport(..) => "delete_export", AOp::ModInit(..) => "mod_global_init_expr",
            AOp::Delete(Sp::F, _) => "delete_func", AOp::Delete(Sp::G, _) => "delete_global", AOp::Delete(Sp::M, _) => "delete_memory",
        }
    }
}
impl Cop {
    fn coq(&self) -> String {
        match self {
            Cop::I32(v) => format!("CI32 {}", cz(*v as i128)), Cop::I64(v) => format!("CI64 {}", cz(*v as i128)), Cop::F32(b) => format!("CF32 {}", cz(*b as i128)),
            Cop::F64(b) => format!("CF64 {}", cz(*b as i128)), Cop::V128(v) => format!("CV128 {}", cz(*v)), Cop::GlobalGet(q) => format!("CGlobalGet {q}"),
            Cop::RefFunc(q) => format!("CRefFunc {q}"), Cop::RefNull(h) => format!("CRefNull {h}"), Cop::Other(t) => format!("COther {t}"),
        }
    }
}
fn coq_cops(v: &[Cop]) -> String { cl(v, |c| c.coq()) }
impl IDesc { fn coq(&self) -> String { match self { IDesc::None => "IDNone".into(), IDesc::Global(t) => format!("(IDGlobal {})", t.coq()), IDesc::Mem(t) => format!("(IDMem {})", t.coq()) } } }

// ---------------------------------------------------------------------------------------------
// request -> wirm / wasm_encoder
fn to_instr(i: &II) -> InitInstr {
    match i {
        II::Val(Val::I32(v)) => InitInstr::Value(Value::I32(*v)),
        II::Val(Val::I64(v)) => InitInstr::Value(Value::I64(*v)),
        II::Val(Val::F32(b)) => InitInstr::Value(Value::F32(f32::from_bits(*b))),
        II::Val(Val::F64(b)) => InitInstr::Value(Value::F64(f64::from_bits(*b))),
        II::Val(Val::V128(u)) => InitInstr::Value(Value::V128(*u)),
        II::Global(g) => InitInstr::Global(GlobalID(*g as u32)),
        II::RefFunc(f) => InitInstr::RefFunc(FunctionID(*f as u32)),
        II::RefNull(h) => InitInstr::RefNull(wasmparser::RefType::new(true, heap_wp(*h)).unwrap()),
    }
}
fn to_init(e: &[II]) -> InitExpr { InitExpr::new(e.iter().map(to_instr).collect()) }
fn enc_init(e: &[II]) -> wasm_encoder::ConstExpr {
    use wasm_encoder::Instruction as I;
    let mut bytes = vec![];
    for i in e {
        match i {
            II::Val(Val::I32(v)) => I::I32Const(*v).encode(&mut bytes),
            II::Val(Val::I64(v)) => I::I64Const(*v).encode(&mut bytes),
            II::Val(Val::F32(b)) => { bytes.push(0x43); bytes.extend_from_slice(&b.to_le_bytes()); }
            II::Val(Val::F64(b)) => { bytes.push(0x44); bytes.extend_from_slice(&b.to_le_bytes()); }
            II::Val(Val::V128(u)) => I::V128Const(*u as i128).encode(&mut bytes),
            II::Global(g) => I::GlobalGet(*g as u32).encode(&mut bytes),
            II::RefFunc(f) => I::RefFunc(*f as u32).encode(&mut bytes),
            II::RefNull(h) => I::RefNull(heap_enc(*h)).encode(&mut bytes),
        }
    }
    wasm_encoder::ConstExpr::raw(bytes)
}
fn read_cops(ce: &wasmparser::ConstExpr) -> Option<Vec<Cop>> {
    let mut rd = ce.get_operators_reader();
    let mut v = vec![];
    loop {
        let op = rd.read().ok()?;
        v.push(match op {
            Operator::End => break,
            Operator::I32Const { value } => Cop::I32(value),
            Operator::I64Const { value } => Cop::I64(value),
            Operator::F32Const { value } => Cop::F32(value.bits()),
            Operator::F64Const { value } => Cop::F64(value.bits()),
            Operator::V128Const { value } => Cop::V128(value.i128()),
            Operator::GlobalGet { global_index } => Cop::GlobalGet(global_index),
            Operator::RefFunc { function_index } => Cop::RefFunc(function_index),
            Operator::RefNull { hty } => Cop::RefNull(wp_heap(&hty)),
            o => Cop::Other(fnv(&format!("{o:?}")) % 100000),
        });
    }
    Some(v)
}

// ---------------------------------------------------------------------------------------------
// generators
fn gen_i32(r: &mut Rng) -> i32 { match r.below(8) { 0 => 0, 1 => -1, 2 => i32::MIN, 3 => i32::MAX, 4 => r.below(200) as i32 - 100, _ => r.next() as u32 as i32 } }
fn gen_i64(r: &mut Rng) -> i64 { match r.below(8) { 0 => 0, 1 => -1, 2 => i64::MIN, 3 => i64::MAX, 4 => r.below(200) as i64 - 100, _ => r.next() as i64 } }
fn gen_f32(r: &mut Rng) -> u32 {
    let sign = (r.below(2) as u32) << 31;
    match r.below(9) {
        0 => sign, 1 => sign | 0x7f80_0000, 2 => sign | 0x7fc0_0000,
        3 => sign | 0x7fc0_0000 | (r.next() as u32 & 0x003f_ffff),                 // quiet NaN with payload
        4 => sign | 0x7f80_0000 | (1 + (r.next() as u32 % 0x003f_ffff)),            // signalling NaN (quiet bit clear, payload != 0)
        5 => sign | (r.next() as u32 & 0x007f_ffff),                              // subnormal
        6 => 0x3f80_0000, _ => r.next() as u32,
    }
}
fn gen_f64(r: &mut Rng) -> u64 {
    let sign = r.below(2) << 63;
    match r.below(9) {
        0 => sign, 1 => sign | 0x7ff0_0000_0000_0000, 2 => sign | 0x7ff8_0000_0000_0000,
        3 => sign | 0x7ff8_0000_0000_0000 | (r.next() & 0x0007_ffff_ffff_ffff),
        4 => sign | 0x7ff0_0000_0000_0000 | (1 + (r.next() % 0x0007_ffff_ffff_ffff)),
        5 => sign | (r.next() & 0x000f_ffff_ffff_ffff),
        6 => 0x3ff0_0000_0000_0000, _ => r.next(),
    }
}
fn gen_v128(r: &mut Rng) -> u128 {
    match r.below(6) { 0 => 0, 1 => u128::MAX, 2 => 1u128 << 127, 3 => (1u128 << 127) - 1, _ => ((r.next() as u128) << 64) | r.next() as u128 }
}
fn gen_mty(r: &mut Rng, plain: bool) -> MTy {
    let m64 = !plain && r.chance(1, 6);
    let shared = !plain && r.chance(1, 7);
    let initial = match r.below(6) { 0 => 0, 1 => 1, 2 => 65536, _ => r.below(40) };
    let max = if shared || r.chance(1, 2) { Some((initial + match r.below(4) { 0 => 0, 1 => 65536, _ => r.below(50) }).min(if m64 { u64::MAX } else { 65536 })) } else { None };
    let psl = if !plain && r.chance(1, 12) { Some(if r.chance(1, 2) { 0 } else { 16 }) } else { None };
    MTy { m64, shared, initial, max, psl }
}
struct GHandle { id: u64, imp: bool, ty: u32, mutable: bool }
struct MHandle { id: u64, m64: bool }
struct Known { f: Vec<u64>, g: Vec<GHandle>, m: Vec<MHandle>, dead: [Vec<u64>; 3] }
impl Known {
    fn live(&self, s: Sp) -> Vec<u64> {
        let all: Vec<u64> = match s { Sp::F => self.f.clone(), Sp::G => self.g.iter().map(|h| h.id).collect(), Sp::M => self.m.iter().map(|h| h.id).collect() };
        all.into_iter().filter(|x| !self.dead[s.code()].contains(x)).collect()
    }
    fn all(&self, s: Sp) -> Vec<u64> { match s { Sp::F => self.f.clone(), Sp::G => self.g.iter().map(|h| h.id).collect(), Sp::M => self.m.iter().map(|h| h.id).collect() } }
}
/// a (mostly well-typed) constant expression for a global of type `ty`
fn gen_init(r: &mut Rng, ty: u32, k: &Known, strict: bool) -> Vec<II> {
    if !strict && r.chance(1, 40) { return vec![]; }
    if !strict && r.chance(1, 40) { return vec![II::Val(Val::I32(gen_i32(r))), II::Val(Val::I32(gen_i32(r)))]; }
    // global.get of an imported immutable global of the same type
    let getters: Vec<u64> = k.g.iter().filter(|h| h.imp && !h.mutable && h.ty == ty && !k.dead[1].contains(&h.id)).map(|h| h.id).collect();
    if !getters.is_empty() && r.chance(1, 3) { return vec![II::Global(*r.pick(&getters))]; }
    let ty = if !strict && r.chance(1, 30) { r.below(10) as u32 } else { ty };   // occasionally a constant of another type
    let live_f = k.live(Sp::F);
    vec![match ty {
        0 => II::Val(Val::I32(gen_i32(r))), 1 => II::Val(Val::I64(gen_i64(r))), 2 => II::Val(Val::F32(gen_f32(r))), 3 => II::Val(Val::F64(gen_f64(r))),
        4 => II::Val(Val::V128(gen_v128(r))),
        5 | 7 => if !live_f.is_empty() && (ty == 7 || r.chance(1, 2)) { II::RefFunc(*r.pick(&live_f)) } else { II::RefNull(if r.chance(1, 6) { 10 } else { 0 }) },
        6 | 8 => II::RefNull(2),
        9 | 14 => II::RefNull(*r.pick(&[4u32, 6, 12, 18])), 10 | 18 => II::RefNull(*r.pick(&[12u32, 6, 18])), 11 | 19 => II::RefNull(18), 12 => II::RefNull(14),
        13 => II::RefNull(16), 15 => II::RefNull(6), 16 => II::RefNull(10), 17 => II::RefNull(8),
        _ => II::RefNull(if r.chance(1, 2) { 1000 } else { 2 * r.below(14) as u32 + r.below(2) as u32 }),
    }]
}
fn gen_gty(r: &mut Rng, base: bool) -> GTy {
    let ty = if base { *r.pick(&[0u32, 0, 1, 2, 3, 4, 5, 6]) } else {
        match r.below(20) { 0..=3 => 0, 4 | 5 => 1, 6 | 7 => 2, 8 | 9 => 3, 10 | 11 => 4, 12 | 13 => 5, 14 => 6, 15..=18 => 9 + r.below(11) as u32, _ => 0 }
    };
    let ty = if !base && r.chance(1, 150) { 20 + r.below(2) as u32 } else if !base && r.chance(1, 160) { 7 + r.below(2) as u32 } else { ty };
    GTy { ty, mutable: r.chance(1, 3), shared: !base && ty < 5 && r.chance(1, 10) }
}
fn gen_offset(r: &mut Rng, m64: bool, k: &Known) -> Vec<II> {
    let want = if m64 { 1 } else { 0 };
    let getters: Vec<u64> = k.g.iter().filter(|h| h.imp && !h.mutable && h.ty == want && !k.dead[1].contains(&h.id)).map(|h| h.id).collect();
    if !getters.is_empty() && r.chance(1, 3) { return vec![II::Global(*r.pick(&getters))]; }
    if m64 { vec![II::Val(Val::I64(r.below(70000) as i64))] } else { vec![II::Val(Val::I32(if r.chance(1, 10) { gen_i32(r) } else { r.below(70000) as i32 }))] }
}
fn gen_bytes(r: &mut Rng) -> Vec<u8> { let n = match r.below(5) { 0 => 0, 1 => 1, _ => r.below(12) }; (0..n).map(|_| r.next() as u8).collect() }
fn gen_dseg(r: &mut Rng, k: &Known, allow_dead: bool) -> DSeg {
    let mems = if allow_dead && r.chance(1, 15) { k.all(Sp::M) } else { k.live(Sp::M) };
    if mems.is_empty() || r.chance(1, 4) { return DSeg::Passive(gen_bytes(r)); }
    let m = *r.pick(&mems);
    let m64 = k.m.iter().find(|h| h.id == m).map(|h| h.m64).unwrap_or(false);
    DSeg::Active(m, gen_offset(r, m64, k), gen_bytes(r))
}

struct Base {
    imports: Vec<(u64, u64, IDesc)>, funcs: Vec<u64>, globals: Vec<(u64, GTy, Vec<II>)>, mems: Vec<(u64, MTy)>,
    data: Vec<DSeg>, exports: Vec<(u64, u32, u64)>, dcount: bool,
}
fn build(b: &Base) -> Vec<u8> {
    use wasm_encoder as we;
    let mut m = we::Module::new();
    let mut types = we::TypeSection::new();
    types.ty().function([], []);
    m.section(&types);
    if !b.imports.is_empty() {
        let mut is = we::ImportSection::new();
        for (k, fp, d) in &b.imports {
            let name = format!("i{fp}");
            match (k, d) {
                (0, _) => { is.import("env", &name, we::EntityType::Function(0)); }
                (1, IDesc::Global(t)) => { is.import("env", &name, we::EntityType::Global(we::GlobalType { val_type: code_enc(t.ty), mutable: t.mutable, shared: t.shared })); }
                (2, IDesc::Mem(t)) => { is.import("env", &name, we::EntityType::Memory(t.enc())); }
                (3, _) => { is.import("env", &name, we::EntityType::Table(we::TableType { element_type: we::RefType::FUNCREF, table64: false, minimum: 0, maximum: None, shared: false })); }
                _ => { is.import("env", &name, we::EntityType::Tag(we::TagType { kind: we::TagKind::Exception, func_type_idx: 0 })); }
            }
        }
        m.section(&is);
    }
    let mut fs = we::FunctionSection::new();
    for _ in &b.funcs { fs.function(0); }
    m.section(&fs);
    let mut ts = we::TableSection::new();
    ts.table(we::TableType { element_type: we::RefType::FUNCREF, table64: false, minimum: 4, maximum: None, shared: false });
    m.section(&ts);
    if !b.mems.is_empty() {
        let mut ms = we::MemorySection::new();
        for (_, t) in &b.mems { ms.memory(t.enc()); }
        m.section(&ms);
    }
    if !b.globals.is_empty() {
        let mut gs = we::GlobalSection::new();
        for (_, t, e) in &b.globals { gs.global(we::GlobalType { val_type: code_enc(t.ty), mutable: t.mutable, shared: t.shared }, &enc_init(e)); }
        m.section(&gs);
    }
    if !b.exports.is_empty() {
        let mut es = we::ExportSection::new();
        for (n, k, idx) in &b.exports {
            let kind = match k { 0 => we::ExportKind::Func, 1 => we::ExportKind::Global, 2 => we::ExportKind::Memory, 3 => we::ExportKind::Table, _ => we::ExportKind::Tag };
            es.export(&format!("e{n}"), kind, *idx as u32);
        }
        m.section(&es);
    }
    if b.dcount { m.section(&we::DataCountSection { count: b.data.len() as u32 }); }
    let mut code = we::CodeSection::new();
    for fp in &b.funcs {
        let mut f = we::Function::new([]);
        f.instruction(&we::Instruction::I32Const(*fp as i32));
        f.instruction(&we::Instruction::Drop);
        f.instruction(&we::Instruction::End);
        code.function(&f);
    }
    m.section(&code);
    if !b.data.is_empty() {
        let mut ds = we::DataSection::new();
        for d in &b.data {
            match d { DSeg::Passive(bytes) => { ds.passive(bytes.clone()); } DSeg::Active(mem, off, bytes) => { ds.active(*mem as u32, &enc_init(off), bytes.clone()); } }
        }
        m.section(&ds);
    }
    m.finish()
}

fn why_invalid(bytes: &[u8]) -> Option<String> {
    wasmparser::Validator::new_with_features(wasmparser::WasmFeatures::all()).validate_all(bytes).err().map(|e| e.message().to_string())
}
fn tok(name: &str, prefix: char) -> u64 { name.strip_prefix(prefix).and_then(|x| x.parse::<u64>().ok()).unwrap_or(999999) }

fn decode(out: &[u8]) -> Option<Dec> {
    let mut d = Dec::default();
    for p in wasmparser::Parser::new(0).parse_all(out) {
        match p.ok()? {
            wasmparser::Payload::ImportSection(r) => for i in r {
                let i = i.ok()?;
                let fp = tok(i.name, 'i');
                let (k, desc) = match i.ty {
                    wasmparser::TypeRef::Func(_) => (0, IDesc::None),
                    wasmparser::TypeRef::Global(g) => (1, IDesc::Global(GTy { ty: wp_code(g.content_type) as u32, mutable: g.mutable, shared: g.shared })),
                    wasmparser::TypeRef::Memory(m) => (2, IDesc::Mem(MTy::from_wp(&m))),
                    wasmparser::TypeRef::Table(_) => (3, IDesc::None),
                    wasmparser::TypeRef::Tag(_) => (4, IDesc::None),
                };
                d.imports.push((k, fp, desc));
            },
            wasmparser::Payload::GlobalSection(r) => for g in r {
                let g = g.ok()?;
                d.globals.push((GTy { ty: wp_code(g.ty.content_type) as u32, mutable: g.ty.mutable, shared: g.ty.shared }, read_cops(&g.init_expr)?));
            },
            wasmparser::Payload::MemorySection(r) => for mm in r { d.mems.push(MTy::from_wp(&mm.ok()?)); },
            wasmparser::Payload::ExportSection(r) => for e in r {
                let e = e.ok()?;
                let k = match e.kind { wasmparser::ExternalKind::Func => 0, wasmparser::ExternalKind::Global => 1, wasmparser::ExternalKind::Memory => 2, wasmparser::ExternalKind::Table => 3, wasmparser::ExternalKind::Tag => 4 };
                d.exports.push((tok(e.name, 'e'), k, e.index as u64));
            },
            wasmparser::Payload::DataCountSection { count, .. } => d.dcount = Some(count as u64),
            wasmparser::Payload::DataSection(r) => for s in r {
                let s = s.ok()?;
                d.data.push(match s.kind {
                    wasmparser::DataKind::Passive => ODSeg::Passive(s.data.to_vec()),
                    wasmparser::DataKind::Active { memory_index, offset_expr } => ODSeg::Active(memory_index, read_cops(&offset_expr)?, s.data.to_vec()),
                });
            },
            wasmparser::Payload::CodeSectionEntry(b) => {
                let mut ops = vec![];
                let mut rd = b.get_operators_reader().ok()?;
                while !rd.eof() { ops.push(rd.read().ok()?); }
                let mut fp = 0u64;
                let mut i = 0;
                while i < ops.len() {
                    if let Operator::I32Const { value } = ops[i] {
                        let v = value as u32 as u64;
                        if v >= MARK && v < MARK + 50000 {
                            let q = match ops.get(i + 2) {
                                Some(Operator::Call { function_index }) => *function_index as u64,
                                Some(Operator::GlobalGet { global_index }) => *global_index as u64,
                                Some(Operator::MemorySize { mem }) => *mem as u64,
                                _ => 444444,
                            };
                            d.sites.push((v - MARK, q));
                            i += 2;
                        } else if fp == 0 && value > 0 { fp = v; }
                    }
                    i += 1;
                }
                d.funcs.push(fp);
            }
            _ => {}
        }
    }
    d.sites.sort();
    Some(d)
}

fn main() {
    let args = parse_args();
    let footer = format!("Eval vm_compute in (report_{} cases).", args.prop);
    if args.prop == "C12" {
        let header = "From Coq Require Import List NArith ZArith.\nImport ListNotations.\nFrom Orca Require Import Reindex Builder CheckBuild.\nOpen Scope N_scope.";
        run_shards(&args, header, "bcase", &footer, |seed, idx| {
            let mut r = Rng::for_case(seed, idx);
            gen_case_c12(&mut r, seed, idx)
        });
        return;
    }
    let header = "From Coq Require Import List NArith ZArith.\nImport ListNotations.\nFrom Orca Require Import Reindex Additions CheckAdds.\nOpen Scope N_scope.";
    let prop = args.prop.clone();
    run_shards(&args, header, "acase", &footer, |seed, idx| {
        let mut r = Rng::for_case(seed, idx);
        gen_case(&mut r, &prop, seed, idx)
    });
}

fn gen_case(r: &mut Rng, _prop: &str, seed: u64, idx: u64) -> Case {
    let mut fpc = 0u64;
    let mut nfp = |fpc: &mut u64| { *fpc += 1; *fpc };
    let mut namec = 0u64;
    let mut base = Base { imports: vec![], funcs: vec![], globals: vec![], mems: vec![], data: vec![], exports: vec![], dcount: r.chance(1, 2) };
    for _ in 0..r.below(6) {
        let k = match r.below(10) { 0 | 1 => 0, 2 | 3 | 4 => 1, 5 | 6 => 2, 7 => 3, 8 => 4, _ => 1 };
        let fp = nfp(&mut fpc);
        let d = match k {
            1 => IDesc::Global(GTy { ty: *r.pick(&[0u32, 0, 0, 1, 2, 3, 4, 5]), mutable: r.chance(1, 5), shared: false }),
            2 => { let p = r.chance(2, 3); IDesc::Mem(gen_mty(r, p)) }
            _ => IDesc::None,
        };
        base.imports.push((k, fp, d));
    }
    for _ in 0..r.below(3) { let fp = nfp(&mut fpc); base.funcs.push(fp); }
    base.funcs.push(PROBE_FP);
    let mut known = Known { f: vec![], g: vec![], m: vec![], dead: [vec![], vec![], vec![]] };
    for (k, _, d) in &base.imports {
        match (k, d) {
            (0, _) => { let id = known.f.len() as u64; known.f.push(id); }
            (1, IDesc::Global(t)) => { let id = known.g.len() as u64; known.g.push(GHandle { id, imp: true, ty: t.ty, mutable: t.mutable }); }
            (2, IDesc::Mem(t)) => { let id = known.m.len() as u64; known.m.push(MHandle { id, m64: t.m64 }); }
            _ => {}
        }
    }
    for _ in &base.funcs { let id = known.f.len() as u64; known.f.push(id); }
    let probe_id = known.f.len() as u64 - 1;
    for _ in 0..r.below(3) { let fp = nfp(&mut fpc); let p = r.chance(2, 3); let t = gen_mty(r, p); let id = known.m.len() as u64; known.m.push(MHandle { id, m64: t.m64 }); base.mems.push((fp, t)); }
    for _ in 0..r.below(4) {
        let fp = nfp(&mut fpc);
        let t = gen_gty(r, true);
        let e = gen_init(r, t.ty, &known, true);
        let id = known.g.len() as u64;
        known.g.push(GHandle { id, imp: false, ty: t.ty, mutable: t.mutable });
        base.globals.push((fp, t, e));
    }
    for _ in 0..r.below(4) {
        let k = match r.below(14) { 0..=4 => 0u32, 5 => 1, 6..=11 => 2, _ => 3 };
        let idx = match k { 0 => known.live(Sp::F), 1 => known.live(Sp::G), 2 => known.live(Sp::M), _ => vec![0] };
        if idx.is_empty() { continue; }
        namec += 1;
        base.exports.push((namec, k, *r.pick(&idx)));
    }
    for _ in 0..r.below(3) { let d = gen_dseg(r, &known, false); base.data.push(d); }
    let bytes = build(&base);
    let base_why = why_invalid(&bytes);
    let base_valid = base_why.is_none();

    // ---- history (executed while it is generated, so that the returned ids can be used) ----
    let mut hist: Vec<AOp> = vec![];
    let mut rets: Vec<Option<u64>> = vec![];
    let mut api_panic = false;
    let mut sites: Vec<(Sp, u64)> = vec![];
    let mut nexports = base.exports.len() as u64;
    let mut added: [Vec<u64>; 3] = [vec![], vec![], vec![]];
    let res = catch_unwind(AssertUnwindSafe(|| {
        let mut module = Module::parse(&bytes, true).expect("parse");
        let nops = 1 + r.below(7);
        for _ in 0..nops {
            let op = match r.below(40) {
                0..=8 => { let t = gen_gty(r, false); let e = gen_init(r, t.ty, &known, false); AOp::AddGlobal(nfp(&mut fpc), t, e) }
                9..=12 => { let mut t = gen_gty(r, false); if r.chance(2, 3) { t.mutable = false; } AOp::AddImpGlobal(nfp(&mut fpc), t) }
                13 => { let t = gen_gty(r, true); let e = gen_init(r, t.ty, &known, false); AOp::ItAddGlobal(nfp(&mut fpc), t, e) }
                14..=17 => { let p = r.chance(1, 2); AOp::AddMem(nfp(&mut fpc), gen_mty(r, p)) }
                18..=20 => { let p = r.chance(1, 2); AOp::AddImpMem(nfp(&mut fpc), gen_mty(r, p)) }
                21 | 22 => AOp::AddImpFunc(nfp(&mut fpc)),
                23..=28 => AOp::AddData(gen_dseg(r, &known, true)),
                29..=31 => {
                    let k = if r.chance(1, 2) { 0u32 } else { 2 };
                    let sp = if k == 0 { Sp::F } else { Sp::M };
                    let ids = if r.chance(1, 15) { known.all(sp) } else { known.live(sp) };
                    if ids.is_empty() { continue; }
                    namec += 1;
                    AOp::AddExport(k, namec, *r.pick(&ids))
                }
                32 => { if nexports == 0 && !r.chance(1, 10) { continue; } let extra = if r.chance(1, 20) { 1 } else { 0 }; AOp::DelExport(r.below(nexports + extra)) }
                33..=36 => {
                    // replace the initialiser of an existing (mostly local, live) global
                    let locals: Vec<&GHandle> = known.g.iter().filter(|h| !h.imp).collect();
                    let pool: Vec<&GHandle> = if r.chance(1, 12) { known.g.iter().collect() } else { locals };
                    if pool.is_empty() { continue; }
                    let h = *r.pick(&pool);
                    let (id, ty) = (if r.chance(1, 40) { h.id + 7 } else { h.id }, h.ty);
                    let e = gen_init(r, ty, &known, false);
                    AOp::ModInit(id, e)
                }
                _ => {
                    let sp = *r.pick(&[Sp::F, Sp::G, Sp::G, Sp::M, Sp::M]);
                    let ids: Vec<u64> = (if r.chance(1, 12) { known.all(sp) } else { known.live(sp) }).into_iter().filter(|x| !(sp == Sp::F && *x == probe_id)).collect();
                    if ids.is_empty() { continue; }
                    AOp::Delete(sp, *r.pick(&ids))
                }
            };
            hist.push(op.clone());
            let rres = catch_unwind(AssertUnwindSafe(|| -> Option<u64> {
                match &op {
                    AOp::AddGlobal(_, t, e) => Some(*module.add_global(to_init(e), code_dt(t.ty), t.mutable, t.shared) as u64),
                    AOp::AddImpGlobal(fp, t) => Some(*module.add_imported_global("env".into(), format!("i{fp}"), code_dt(t.ty), t.mutable, t.shared).0 as u64),
                    AOp::ItAddGlobal(_, t, e) => {
                        let mut it = ModuleIterator::new(&mut module, &vec![]);
                        Some(*it.add_global(Global::new(GlobalKind::Local(LocalGlobal { global_id: GlobalID(0), ty: wasmparser::GlobalType { content_type: code_wp(t.ty), mutable: t.mutable, shared: t.shared }, init_expr: to_init(e) }), None)) as u64)
                    }
                    AOp::AddMem(_, t) => Some(*module.add_local_memory(t.wp()) as u64),
                    AOp::AddImpMem(fp, t) => Some(*module.add_import_memory("env".into(), format!("i{fp}"), t.wp()).0 as u64),
                    AOp::AddImpFunc(fp) => Some(*module.add_import_func("env".into(), format!("i{fp}"), TypeID(0)).0 as u64),
                    AOp::AddData(d) => Some(*module.add_data(match d {
                        DSeg::Passive(b) => DataSegment { kind: DataSegmentKind::Passive, data: b.clone(), tag: None },
                        DSeg::Active(m, o, b) => DataSegment { kind: DataSegmentKind::Active { memory_index: *m as u32, offset_expr: to_init(o) }, data: b.clone(), tag: None },
                    }) as u64),
                    AOp::AddExport(0, n, id) => { module.exports.add_export_func(format!("e{n}"), *id as u32, None); None }
                    AOp::AddExport(_, n, id) => { module.exports.add_export_mem(format!("e{n}"), *id as u32, None); None }
                    AOp::DelExport(k) => { module.exports.delete(ExportsID(*k as u32)); None }
                    AOp::ModInit(g, e) => { module.mod_global_init_expr(GlobalID(*g as u32), to_init(e)); None }
                    AOp::Delete(Sp::F, id) => { module.delete_func(FunctionID(*id as u32)); None }
                    AOp::Delete(Sp::G, id) => { module.delete_global(GlobalID(*id as u32)); None }
                    AOp::Delete(Sp::M, id) => { module.delete_memory(MemoryID(*id as u32)); None }
                }
            }));
            match rres {
                Err(_) => { api_panic = true; break; }
                Ok(ret) => {
                    rets.push(ret);
                    match (&op, ret) {
                        (AOp::AddGlobal(_, t, _), Some(id)) | (AOp::ItAddGlobal(_, t, _), Some(id)) => { if !known.g.iter().any(|h| h.id == id) { known.g.push(GHandle { id, imp: false, ty: t.ty, mutable: t.mutable }); } added[1].push(id); }
                        (AOp::AddImpGlobal(_, t), Some(id)) => { if !known.g.iter().any(|h| h.id == id) { known.g.push(GHandle { id, imp: true, ty: if t.ty == 7 { 5 } else if t.ty == 8 { 6 } else { t.ty }, mutable: t.mutable }); } added[1].push(id); }
                        (AOp::AddMem(_, t), Some(id)) | (AOp::AddImpMem(_, t), Some(id)) => { if !known.m.iter().any(|h| h.id == id) { known.m.push(MHandle { id, m64: t.m64 }); } added[2].push(id); }
                        (AOp::AddImpFunc(_), Some(id)) => { if !known.f.contains(&id) { known.f.push(id); } added[0].push(id); }
                        (AOp::AddExport(..), _) => nexports += 1,
                        (AOp::Delete(s, id), _) => { if !known.dead[s.code()].contains(id) { known.dead[s.code()].push(*id); } }
                        _ => {}
                    }
                }
            }
        }
        if api_panic { return None; }
        // references to the handles, injected into the probe function: every added global / memory, some others
        for sp in [Sp::G, Sp::M, Sp::F] {
            for id in known.all(sp) {
                let dead = known.dead[sp.code()].contains(&id);
                let is_added = added[sp.code()].contains(&id);
                let take = if dead { r.chance(1, 25) } else if is_added { sp != Sp::F || r.chance(1, 2) } else { r.chance(if sp == Sp::F { 1 } else { 2 }, 4) };
                if take && !(sp == Sp::F && id == probe_id) { sites.push((sp, id)); }
            }
        }
        let enc = catch_unwind(AssertUnwindSafe(|| {
            {
                let mut fm = module.functions.get_fn_modifier(FunctionID(probe_id as u32)).unwrap();
                fm.before_at(Location::Module { func_idx: FunctionID(0), instr_idx: 0 });
                for (n, (sp, id)) in sites.iter().enumerate() {
                    fm.inject(Operator::I32Const { value: (MARK + n as u64) as i32 });
                    fm.inject(Operator::Drop);
                    match sp {
                        Sp::F => fm.inject(Operator::Call { function_index: *id as u32 }),
                        Sp::G => { fm.inject(Operator::GlobalGet { global_index: *id as u32 }); fm.inject(Operator::Drop); }
                        Sp::M => { fm.inject(Operator::MemorySize { mem: *id as u32 }); fm.inject(Operator::Drop); }
                    }
                }
            }
            module.encode()
        }));
        enc.ok()
    }));
    let enc: Option<Vec<u8>> = match res { Ok(x) => x, Err(_) => { api_panic = true; None } };
    let (dec, valid) = match &enc { Some(out) => (decode(out), validates(out)), None => (None, false) };
    let undecodable = enc.is_some() && dec.is_none();

    let enc_s = match &dec {
        Some(d) => format!(
            "(Some (mkO {} {} {} {} {} {} {} {}))",
            cl(&d.imports, |(k, fp, ds)| format!("mkOI {} {} {}", k, fp, ds.coq())), cl(&d.funcs, |x| x.to_string()),
            cl(&d.globals, |(t, e)| format!("mkOG {} {}", t.coq(), coq_cops(e))), cl(&d.mems, |t| t.coq()),
            cl(&d.data, |s| match s { ODSeg::Passive(b) => format!("OPassive {}", coq_bytes(b)), ODSeg::Active(m, o, b) => format!("OActive {} {} {}", m, coq_cops(o), coq_bytes(b)) }),
            cl(&d.exports, |(n, k, i)| format!("({n}, {k}, {i})")), cl(&d.sites, |(n, q)| format!("({n}, {q})")), copt(&d.dcount, |x| x.to_string())),
        None => if undecodable { "(Some (mkO [] [] [] [] [] [] [(999999, 999999)] None))".to_string() } else { "None".to_string() },
    };
    // what the base module looks like after parsing: FuncRef-style request codes are already the stored types
    let coq = format!(
        "mkAC {} {} {} {} {} {} {} {} {} {} {} {}",
        cl(&base.imports, |(k, fp, d)| format!("mkBI {} {} {}", k, fp, d.coq())), cl(&base.funcs, |x| x.to_string()),
        cl(&base.globals, |(fp, t, e)| format!("({}, mkGP {} (Some {}))", fp, t.coq(), coq_init(e))), cl(&base.mems, |(fp, t)| format!("({}, {})", fp, t.coq())),
        cl(&base.data, |d| d.coq()), cl(&base.exports, |(n, k, i)| format!("mkEx {n} {k} {i} false")), cb(base.dcount),
        cl(&hist, |h| h.coq()), cl(&sites, |(s, id)| format!("({}, {})", s.coq(), id)),
        cl(&rets, |x| match x { Some(v) => format!("Some {v}"), None => "None".into() }), cb(api_panic), enc_s
    );
    let desc = format!(
        "imports={:?} funcs={:?} globals={:?} mems={:?} data={:?} exports={:?} dcount={} base_valid={} hist={:?} rets={:?} sites={:?} => api_panic={} valid={} {}",
        base.imports, base.funcs, base.globals, base.mems, base.data, base.exports, base.dcount, base_valid, hist, rets, sites, api_panic, valid,
        match &dec { Some(d) => format!("{:?}", d), None => if undecodable { "UNDECODABLE".into() } else { "ENCODE-PANIC".to_string() } }
    );
    let mut tags = vec![format!("base_why={}", base_why.clone().unwrap_or_default().chars().take(40).collect::<String>()), format!("hist_len={}", hist.len()), format!("api_panic={}", api_panic), format!("encoded={}", enc.is_some()), format!("valid={}", valid), format!("base_valid={}", base_valid)];
    for h in &hist {
        tags.push(format!("op={}", h.tag()));
        let inits: Vec<&Vec<II>> = match h { AOp::AddGlobal(_, _, e) | AOp::ItAddGlobal(_, _, e) | AOp::ModInit(_, e) => vec![e], AOp::AddData(DSeg::Active(_, o, _)) => vec![o], _ => vec![] };
        for e in inits { for i in e { tags.push(format!("init={}", match i { II::Val(Val::I32(_)) => "i32", II::Val(Val::I64(_)) => "i64", II::Val(Val::F32(b)) => if (b & 0x7f80_0000) == 0x7f80_0000 && (b & 0x7f_ffff) != 0 { if b & 0x40_0000 != 0 { "f32_qnan" } else { "f32_snan" } } else { "f32" }, II::Val(Val::F64(b)) => if (b & 0x7ff0_0000_0000_0000) == 0x7ff0_0000_0000_0000 && (b & 0xf_ffff_ffff_ffff) != 0 { if b & 0x8_0000_0000_0000 != 0 { "f64_qnan" } else { "f64_snan" } } else { "f64" }, II::Val(Val::V128(_)) => "v128", II::Global(_) => "global.get", II::RefFunc(_) => "ref.func", II::RefNull(_) => "ref.null" })); } }
    }
    let nontrivial = hist.iter().any(|h| !matches!(h, AOp::Delete(..) | AOp::DelExport(..) | AOp::AddImpFunc(..)));
    Case { seed, idx, coq, desc, nontrivial, tags }
}

// =============================================================================================
// C12: functions built with FunctionBuilder (signature, add_local, Opcode helpers, set_name, finish_module)
// interleaved with add_import_func / delete_func / convert_local_fn_to_import.
use wirm::ir::function::FunctionBuilder;
use wirm::ir::types::BlockType as WBt;
use wirm::module_builder::AddLocal;
use wirm::opcode::{MacroOpcode, Opcode};

const TOK_END: u64 = 1;
fn name_tok(n: &str) -> u64 { if n == "end" { TOK_END } else { 1000 + fnv(n) % 1_000_000_000 } }

// helper, the Operator variant it is expected to emit, mnemonic, operand types, result type (0 i32 1 i64 2 f32 3 f64)
macro_rules! plain_ops {
    ($( ($h:ident, $v:ident, $name:expr, [$($i:expr),*], $o:expr) ),* $(,)?) => {
        const PLAIN: &[(&str, &[u32], u32)] = &[ $( ($name, &[$($i),*], $o) ),* ];
        fn plain_apply(k: usize, fb: &mut FunctionBuilder) { let mut n = 0usize; $( if n == k { fb.$h(); return; } n += 1; )* let _ = n; }
        fn plain_name(op: &Operator) -> Option<&'static str> { match op { $( Operator::$v => Some($name), )* _ => None } }
    };
}
plain_ops![
    (i32_add, I32Add, "i32.add", [0, 0], 0), (i32_sub, I32Sub, "i32.sub", [0, 0], 0), (i32_mul, I32Mul, "i32.mul", [0, 0], 0),
    (i32_div_signed, I32DivS, "i32.div_s", [0, 0], 0), (i32_div_unsigned, I32DivU, "i32.div_u", [0, 0], 0),
    (i32_rem_signed, I32RemS, "i32.rem_s", [0, 0], 0), (i32_rem_unsigned, I32RemU, "i32.rem_u", [0, 0], 0),
    (i32_and, I32And, "i32.and", [0, 0], 0), (i32_or, I32Or, "i32.or", [0, 0], 0), (i32_xor, I32Xor, "i32.xor", [0, 0], 0),
    (i32_shl, I32Shl, "i32.shl", [0, 0], 0), (i32_shr_signed, I32ShrS, "i32.shr_s", [0, 0], 0), (i32_shr_unsigned, I32ShrU, "i32.shr_u", [0, 0], 0),
    (i32_rotl, I32Rotl, "i32.rotl", [0, 0], 0), (i32_rotr, I32Rotr, "i32.rotr", [0, 0], 0),
    (i32_eq, I32Eq, "i32.eq", [0, 0], 0), (i32_ne, I32Ne, "i32.ne", [0, 0], 0), (i32_eqz, I32Eqz, "i32.eqz", [0], 0),
    (i32_lt_signed, I32LtS, "i32.lt_s", [0, 0], 0), (i32_lt_unsigned, I32LtU, "i32.lt_u", [0, 0], 0),
    (i32_gt_signed, I32GtS, "i32.gt_s", [0, 0], 0), (i32_gt_unsigned, I32GtU, "i32.gt_u", [0, 0], 0),
    (i32_lte_signed, I32LeS, "i32.le_s", [0, 0], 0), (i32_lte_unsigned, I32LeU, "i32.le_u", [0, 0], 0),
    (i32_gte_signed, I32GeS, "i32.ge_s", [0, 0], 0), (i32_gte_unsigned, I32GeU, "i32.ge_u", [0, 0], 0),
    (i32_wrap_i64, I32WrapI64, "i32.wrap_i64", [1], 0), (i32_extend_8s, I32Extend8S, "i32.extend8_s", [0], 0), (i32_extend_16s, I32Extend16S, "i32.extend16_s", [0], 0),
    (i32_trunc_f32s, I32TruncF32S, "i32.trunc_f32_s", [2], 0), (i32_trunc_f64u, I32TruncF64U, "i32.trunc_f64_u", [3], 0), (i32_reinterpret_f32, I32ReinterpretF32, "i32.reinterpret_f32", [2], 0),
    (i64_add, I64Add, "i64.add", [1, 1], 1), (i64_sub, I64Sub, "i64.sub", [1, 1], 1), (i64_mul, I64Mul, "i64.mul", [1, 1], 1),
    (i64_and, I64And, "i64.and", [1, 1], 1), (i64_or, I64Or, "i64.or", [1, 1], 1), (i64_xor, I64Xor, "i64.xor", [1, 1], 1),
    (i64_shl, I64Shl, "i64.shl", [1, 1], 1), (i64_shr_unsigned, I64ShrU, "i64.shr_u", [1, 1], 1), (i64_rotl, I64Rotl, "i64.rotl", [1, 1], 1),
    (i64_eq, I64Eq, "i64.eq", [1, 1], 0), (i64_ne, I64Ne, "i64.ne", [1, 1], 0), (i64_eqz, I64Eqz, "i64.eqz", [1], 0),
    (i64_lt_signed, I64LtS, "i64.lt_s", [1, 1], 0), (i64_gte_unsigned, I64GeU, "i64.ge_u", [1, 1], 0),
    (i64_extend_i32s, I64ExtendI32S, "i64.extend_i32_s", [0], 1), (i64_extend_i32u, I64ExtendI32U, "i64.extend_i32_u", [0], 1),
    (i64_trunc_f64s, I64TruncF64S, "i64.trunc_f64_s", [3], 1), (i64_reinterpret_f64, I64ReinterpretF64, "i64.reinterpret_f64", [3], 1),
    (f32_add, F32Add, "f32.add", [2, 2], 2), (f32_sub, F32Sub, "f32.sub", [2, 2], 2), (f32_mul, F32Mul, "f32.mul", [2, 2], 2), (f32_div, F32Div, "f32.div", [2, 2], 2),
    (f32_min, F32Min, "f32.min", [2, 2], 2), (f32_max, F32Max, "f32.max", [2, 2], 2), (f32_copysign, F32Copysign, "f32.copysign", [2, 2], 2),
    (f32_abs, F32Abs, "f32.abs", [2], 2), (f32_ceil, F32Ceil, "f32.ceil", [2], 2), (f32_floor, F32Floor, "f32.floor", [2], 2), (f32_sqrt, F32Sqrt, "f32.sqrt", [2], 2),
    (f32_eq, F32Eq, "f32.eq", [2, 2], 0), (f32_lt, F32Lt, "f32.lt", [2, 2], 0), (f32_ge, F32Ge, "f32.ge", [2, 2], 0),
    (f32_convert_i32s, F32ConvertI32S, "f32.convert_i32_s", [0], 2), (f32_convert_i64u, F32ConvertI64U, "f32.convert_i64_u", [1], 2),
    (f32_demote_f64, F32DemoteF64, "f32.demote_f64", [3], 2), (f32_reinterpret_i32, F32ReinterpretI32, "f32.reinterpret_i32", [0], 2),
    (f64_add, F64Add, "f64.add", [3, 3], 3), (f64_sub, F64Sub, "f64.sub", [3, 3], 3), (f64_mul, F64Mul, "f64.mul", [3, 3], 3), (f64_div, F64Div, "f64.div", [3, 3], 3),
    (f64_abs, F64Abs, "f64.abs", [3], 3), (f64_sqrt, F64Sqrt, "f64.sqrt", [3], 3), (f64_trunc, F64Trunc, "f64.trunc", [3], 3),
    (f64_eq, F64Eq, "f64.eq", [3, 3], 0), (f64_le, F64Le, "f64.le", [3, 3], 0),
    (f64_promote_f32, F64PromoteF32, "f64.promote_f32", [2], 3), (f64_convert_i32u, F64ConvertI32U, "f64.convert_i32_u", [0], 3),
    (f64_convert_i64s, F64ConvertI64S, "f64.convert_i64_s", [1], 3), (f64_reinterpret_i64, F64ReinterpretI64, "f64.reinterpret_i64", [1], 3),
];

#[derive(Clone, Debug)]
enum BI {
    I32Const(i32), I64Const(i64), F32Const(u32), F64Const(u64), U32Const(u32), U64Const(u64),
    LocalGet(u32), LocalSet(u32), LocalTee(u32), Block(i32), Loop(i32), If(i32), Else, End, Br(u32), BrIf(u32),
    Return, Unreachable, Nop, Select, Drop, Plain(usize), RefNull(u32), RefIsNull,
}
type Tok = (String, Vec<i128>);
fn wbt(b: i32) -> WBt { if b < 0 { WBt::Empty } else { WBt::Type(code_dt(b as u32)) } }
impl BI {
    fn apply(&self, fb: &mut FunctionBuilder) {
        match self {
            BI::I32Const(v) => { fb.i32_const(*v); } BI::I64Const(v) => { fb.i64_const(*v); }
            BI::F32Const(b) => { fb.f32_const(f32::from_bits(*b)); } BI::F64Const(b) => { fb.f64_const(f64::from_bits(*b)); }
            BI::U32Const(v) => { fb.u32_const(*v); } BI::U64Const(v) => { fb.u64_const(*v); }
            BI::LocalGet(x) => { fb.local_get(LocalID(*x)); } BI::LocalSet(x) => { fb.local_set(LocalID(*x)); } BI::LocalTee(x) => { fb.local_tee(LocalID(*x)); }
            BI::Block(b) => { fb.block(wbt(*b)); } BI::Loop(b) => { fb.loop_stmt(wbt(*b)); } BI::If(b) => { fb.if_stmt(wbt(*b)); }
            BI::Else => { fb.else_stmt(); } BI::End => { fb.end(); } BI::Br(k) => { fb.br(*k); } BI::BrIf(k) => { fb.br_if(*k); }
            BI::Return => { fb.return_stmt(); } BI::Unreachable => { fb.unreachable(); } BI::Nop => { fb.nop(); } BI::Select => { fb.select(); } BI::Drop => { fb.drop(); }
            BI::Plain(k) => plain_apply(*k, fb),
            BI::RefNull(h) => { fb.ref_null(wirm::ir::module::module_types::HeapType::from(heap_wp(2 * *h))); }
            BI::RefIsNull => { fb.ref_is_null(); }
        }
    }
    /// what the encoded function is expected to contain for this call: mnemonic and immediates
    fn tok(&self) -> Tok {
        let s = |n: &str, v: Vec<i128>| (n.to_string(), v);
        match self {
            BI::I32Const(v) => s("i32.const", vec![*v as i128]), BI::I64Const(v) => s("i64.const", vec![*v as i128]),
            BI::F32Const(b) => s("f32.const", vec![*b as i128]), BI::F64Const(b) => s("f64.const", vec![*b as i128]),
            BI::U32Const(v) => s("i32.const", vec![*v as i32 as i128]), BI::U64Const(v) => s("i64.const", vec![*v as i64 as i128]),
            BI::LocalGet(x) => s("local.get", vec![*x as i128]), BI::LocalSet(x) => s("local.set", vec![*x as i128]), BI::LocalTee(x) => s("local.tee", vec![*x as i128]),
            BI::Block(b) => s("block", vec![*b as i128]), BI::Loop(b) => s("loop", vec![*b as i128]), BI::If(b) => s("if", vec![*b as i128]),
            BI::Else => s("else", vec![]), BI::End => s("end", vec![]), BI::Br(k) => s("br", vec![*k as i128]), BI::BrIf(k) => s("br_if", vec![*k as i128]),
            BI::Return => s("return", vec![]), BI::Unreachable => s("unreachable", vec![]), BI::Nop => s("nop", vec![]), BI::Select => s("select", vec![]), BI::Drop => s("drop", vec![]),
            BI::Plain(k) => s(PLAIN[*k].0, vec![]), BI::RefNull(h) => s("ref.null", vec![2 * *h as i128]), BI::RefIsNull => s("ref.is_null", vec![]),
        }
    }
}
fn wp_bt(b: &wasmparser::BlockType) -> i128 {
    match b { wasmparser::BlockType::Empty => -1, wasmparser::BlockType::Type(v) => wp_code(*v) as i128, wasmparser::BlockType::FuncType(i) => 100000 + *i as i128 }
}
/// the decoded operator as mnemonic and immediates (independent table)
fn op_tok(op: &Operator) -> Tok {
    let s = |n: &str, v: Vec<i128>| (n.to_string(), v);
    match op {
        Operator::I32Const { value } => s("i32.const", vec![*value as i128]), Operator::I64Const { value } => s("i64.const", vec![*value as i128]),
        Operator::F32Const { value } => s("f32.const", vec![value.bits() as i128]), Operator::F64Const { value } => s("f64.const", vec![value.bits() as i128]),
        Operator::LocalGet { local_index } => s("local.get", vec![*local_index as i128]), Operator::LocalSet { local_index } => s("local.set", vec![*local_index as i128]),
        Operator::LocalTee { local_index } => s("local.tee", vec![*local_index as i128]),
        Operator::Block { blockty } => s("block", vec![wp_bt(blockty)]), Operator::Loop { blockty } => s("loop", vec![wp_bt(blockty)]), Operator::If { blockty } => s("if", vec![wp_bt(blockty)]),
        Operator::Else => s("else", vec![]), Operator::End => s("end", vec![]),
        Operator::Br { relative_depth } => s("br", vec![*relative_depth as i128]), Operator::BrIf { relative_depth } => s("br_if", vec![*relative_depth as i128]),
        Operator::Return => s("return", vec![]), Operator::Unreachable => s("unreachable", vec![]), Operator::Nop => s("nop", vec![]), Operator::Select => s("select", vec![]), Operator::Drop => s("drop", vec![]),
        Operator::RefNull { hty } => s("ref.null", vec![wp_heap(hty) as i128]), Operator::RefIsNull => s("ref.is_null", vec![]),
        Operator::Call { function_index } => s("call", vec![*function_index as i128]),
        Operator::V128Const { value } => s("v128.const", vec![value.i128()]),
        o => match plain_name(o) { Some(n) => s(n, vec![]), None => s(&format!("other:{o:?}"), vec![]) },
    }
}
fn coq_tok(t: &Tok) -> String { format!("({}, {})", name_tok(&t.0), cl(&t.1, |z| cz(*z))) }
fn coq_toks(v: &[Tok]) -> String { cl(v, coq_tok) }
fn show_toks(v: &[Tok]) -> String { v.iter().map(|(n, i)| if i.is_empty() { n.clone() } else { format!("{n} {}", i.iter().map(|x| x.to_string()).collect::<Vec<_>>().join(" ")) }).collect::<Vec<_>>().join("; ") }

/// typed generator: pushes instructions that leave one value of type `ty` (0..3; 4.. through a local)
struct BGen<'r> { r: &'r mut Rng, out: Vec<BI>, space: Vec<u32>, labels: Vec<bool>, budget: i32, results: Vec<u32> }
impl<'r> BGen<'r> {
    fn locals_of(&self, ty: u32) -> Vec<u32> { self.space.iter().enumerate().filter(|(_, t)| **t == ty).map(|(i, _)| i as u32).collect() }
    fn konst(&mut self, ty: u32) {
        let bi = match ty {
            0 => if self.r.chance(1, 5) { BI::U32Const(self.r.next() as u32) } else { BI::I32Const(gen_i32(self.r)) },
            1 => if self.r.chance(1, 5) { BI::U64Const(self.r.next()) } else { BI::I64Const(gen_i64(self.r)) },
            2 => BI::F32Const(gen_f32(self.r)), _ => BI::F64Const(gen_f64(self.r)),
        };
        self.out.push(bi);
    }
    fn expr(&mut self, ty: u32, depth: u32) {
        self.budget -= 1;
        let ls = self.locals_of(ty);
        if ty > 3 {
            if ty == 5 && self.r.chance(1, 2) { self.out.push(BI::RefNull(0)); } else if ty == 6 && self.r.chance(1, 2) { self.out.push(BI::RefNull(1)); }
            else if !ls.is_empty() { let x = *self.r.pick(&ls); self.out.push(BI::LocalGet(x)); } else { self.out.push(BI::Unreachable); }
            return;
        }
        let choice = if depth >= 3 || self.budget <= 0 { self.r.below(3) } else { self.r.below(12) };
        match choice {
            0 | 1 => self.konst(ty),
            2 => if !ls.is_empty() { let x = *self.r.pick(&ls); self.out.push(BI::LocalGet(x)); } else { self.konst(ty) },
            3 => if !ls.is_empty() { let x = *self.r.pick(&ls); self.expr(ty, depth + 1); self.out.push(BI::LocalTee(x)); } else { self.konst(ty) },
            4 => { self.out.push(BI::Block(ty as i32)); self.labels.push(false); self.stmts(depth + 1); self.expr(ty, depth + 1); self.labels.pop(); self.out.push(BI::End); }
            5 => { self.expr(0, depth + 1); self.out.push(BI::If(ty as i32)); self.labels.push(false); self.expr(ty, depth + 1); self.out.push(BI::Else); self.expr(ty, depth + 1); self.labels.pop(); self.out.push(BI::End); }
            6 => { self.expr(ty, depth + 1); self.expr(ty, depth + 1); self.expr(0, depth + 1); self.out.push(BI::Select); }
            7 if ty == 0 && self.r.chance(1, 2) => { let h = self.r.below(2) as u32; self.out.push(BI::RefNull(h)); self.out.push(BI::RefIsNull); }
            _ => {
                let rows: Vec<usize> = (0..PLAIN.len()).filter(|k| PLAIN[*k].2 == ty).collect();
                let k = *self.r.pick(&rows);
                for t in PLAIN[k].1 { self.expr(*t, depth + 1); }
                self.out.push(BI::Plain(k));
            }
        }
    }
    fn stmts(&mut self, depth: u32) {
        let n = if self.budget <= 0 { 0 } else if depth == 0 { 1 + self.r.below(7) } else { self.r.below(4) };
        for _ in 0..n {
            self.budget -= 1;
            match self.r.below(12) {
                0 | 1 | 2 => { let ty = self.r.below(4) as u32; self.expr(ty, depth + 1); self.out.push(BI::Drop); }
                3 | 4 => {
                    if self.space.is_empty() { self.out.push(BI::Nop); continue; }
                    let x = self.r.below(self.space.len() as u64) as u32; let ty = self.space[x as usize];
                    if ty == 7 || ty == 8 { self.out.push(BI::Nop); continue; }
                    self.expr(ty, depth + 1); self.out.push(BI::LocalSet(x));
                }
                5 if depth < 3 => { self.out.push(BI::Block(-1)); self.labels.push(true); self.stmts(depth + 1); self.labels.pop(); self.out.push(BI::End); }
                6 if depth < 3 => { self.out.push(BI::Loop(-1)); self.labels.push(true); self.stmts(depth + 1); self.labels.pop(); self.out.push(BI::End); }
                7 if depth < 3 => {
                    self.expr(0, depth + 1); self.out.push(BI::If(-1)); self.labels.push(true); self.stmts(depth + 1);
                    if self.r.chance(1, 2) { self.out.push(BI::Else); self.stmts(depth + 1); }
                    self.labels.pop(); self.out.push(BI::End);
                }
                8 => {
                    // br_if to an enclosing label that takes no value
                    let ok: Vec<u32> = self.labels.iter().rev().enumerate().filter(|(_, e)| **e).map(|(k, _)| k as u32).collect();
                    if ok.is_empty() { self.out.push(BI::Nop); } else { let k = *self.r.pick(&ok); self.expr(0, depth + 1); self.out.push(BI::BrIf(k)); }
                }
                9 => {
                    let ok: Vec<u32> = self.labels.iter().rev().enumerate().filter(|(_, e)| **e).map(|(k, _)| k as u32).collect();
                    if ok.is_empty() || !self.r.chance(1, 2) { self.out.push(BI::Nop); } else { let k = *self.r.pick(&ok); self.out.push(BI::Br(k)); return; }
                }
                10 if self.r.chance(1, 4) => { if self.results.is_empty() { self.out.push(BI::Return); } else { self.out.push(BI::Unreachable); } return; }
                _ => self.out.push(BI::Nop),
            }
        }
    }
}

#[derive(Clone, Debug)]
struct BFun { fp: u64, params: Vec<u32>, results: Vec<u32>, locals: Vec<u32>, body: Vec<Tok>, name: Option<u64> }
#[derive(Clone, Debug)]
enum BOp { Build(BFun, Vec<BI>), AddImpFunc(u64), Delete(u64), LocalToImport(u64, u64) }
impl BOp {
    fn coq(&self) -> String {
        match self {
            BOp::Build(f, _) => format!("BBuild {} {} {} {} {} {}", f.fp, cl(&f.params, |x| x.to_string()), cl(&f.results, |x| x.to_string()), cl(&f.locals, |x| x.to_string()), coq_toks(&f.body), copt(&f.name, |x| x.to_string())),
            BOp::AddImpFunc(fp) => format!("BAddImpFunc {fp}"), BOp::Delete(id) => format!("BDelete {id}"), BOp::LocalToImport(id, fp) => format!("BLocalToImport {id} {fp}"),
        }
    }
    fn show(&self) -> String {
        match self {
            BOp::Build(f, _) => format!("Build(fp={} params={:?} results={:?} locals={:?} name={:?} body=[{}])", f.fp, f.params, f.results, f.locals, f.name, show_toks(&f.body)),
            o => format!("{:?}", o),
        }
    }
}
#[derive(Clone, Debug)]
struct FObs { fp: u64, params: Vec<u64>, results: Vec<u64>, groups: Vec<(u64, u64)>, body: Vec<Tok>, name: Option<u64> }

fn gen_sig_ty(r: &mut Rng) -> u32 { match r.below(16) { 0..=3 => 0, 4 | 5 => 1, 6 | 7 => 2, 8 | 9 => 3, 10 | 11 => 4, 12 | 13 => 5, 14 => 6, _ => if r.chance(1, 4) { 7 + r.below(2) as u32 } else { 0 } } }

fn gen_case_c12(r: &mut Rng, seed: u64, idx: u64) -> Case {
    use wasm_encoder as we;
    let mut fpc = 0u64;
    let mut nfp = |fpc: &mut u64| { *fpc += 1; *fpc };
    let mut namec = 0u64;
    // ---- base module: 1-3 distinct function types, imports, local functions of type 0 with declared locals and names ----
    let mut types: Vec<(Vec<u32>, Vec<u32>)> = vec![(vec![], vec![])];
    for _ in 0..r.below(3) {
        let p: Vec<u32> = (0..r.below(3)).map(|_| gen_sig_ty(r)).collect();
        let q: Vec<u32> = (0..r.below(2)).map(|_| gen_sig_ty(r)).collect();
        if !types.contains(&(p.clone(), q.clone())) { types.push((p, q)); }
    }
    // a third of the bases declare a structurally equal type twice (legal, kept by the parser): the id a build gets for a
    // new signature must then still be the next free position of the type table, not the size of the dedup map
    if r.chance(1, 3) { let d = r.pick(&types).clone(); types.push(d); if r.chance(1, 3) { let d2 = r.pick(&types).clone(); types.push(d2); } }
    let mut imports: Vec<(u64, u64)> = vec![];
    for _ in 0..r.below(4) { let k = match r.below(8) { 0..=4 => 0, 5 => 1, 6 => 2, _ => 3 }; let fp = nfp(&mut fpc); imports.push((k, fp)); }
    let mut bfuncs: Vec<FObs> = vec![];
    let nloc = r.below(3);
    for i in 0..=nloc {
        let fp = if i == nloc { PROBE_FP } else { nfp(&mut fpc) };
        let groups: Vec<(u64, u64)> = (0..r.below(3)).map(|_| (r.below(3), *r.pick(&[0u64, 1, 2, 3, 4, 5])) ).collect();
        let name = if r.chance(1, 2) { namec += 1; Some(namec) } else { None };
        bfuncs.push(FObs { fp, params: vec![], results: vec![], groups, body: vec![("i32.const".into(), vec![fp as i128]), ("drop".into(), vec![]), ("end".into(), vec![])], name });
    }
    let nimpf = imports.iter().filter(|x| x.0 == 0).count() as u64;
    let mut m = we::Module::new();
    let mut ts = we::TypeSection::new();
    for (p, q) in &types { ts.ty().function(p.iter().map(|t| code_enc(*t)), q.iter().map(|t| code_enc(*t))); }
    m.section(&ts);
    if !imports.is_empty() {
        let mut is = we::ImportSection::new();
        for (k, fp) in &imports {
            let name = format!("i{fp}");
            match k {
                0 => { is.import("env", &name, we::EntityType::Function(0)); }
                1 => { is.import("env", &name, we::EntityType::Global(we::GlobalType { val_type: we::ValType::I32, mutable: false, shared: false })); }
                2 => { is.import("env", &name, we::EntityType::Memory(we::MemoryType { minimum: 1, maximum: None, memory64: false, shared: false, page_size_log2: None })); }
                _ => { is.import("env", &name, we::EntityType::Table(we::TableType { element_type: we::RefType::FUNCREF, table64: false, minimum: 0, maximum: None, shared: false })); }
            }
        }
        m.section(&is);
    }
    let mut fs = we::FunctionSection::new();
    for _ in &bfuncs { fs.function(0); }
    m.section(&fs);
    let mut code = we::CodeSection::new();
    for f in &bfuncs {
        let mut fx = we::Function::new(f.groups.iter().map(|(c, t)| (*c as u32, code_enc(*t as u32))));
        fx.instruction(&we::Instruction::I32Const(f.fp as i32));
        fx.instruction(&we::Instruction::Drop);
        fx.instruction(&we::Instruction::End);
        code.function(&fx);
    }
    m.section(&code);
    if bfuncs.iter().any(|f| f.name.is_some()) {
        let mut ns = we::NameSection::new();
        let mut nm = we::NameMap::new();
        for (i, f) in bfuncs.iter().enumerate() { if let Some(n) = f.name { nm.append(nimpf as u32 + i as u32, &format!("n{n}")); } }
        ns.functions(&nm);
        m.section(&ns);
    }
    let bytes = m.finish();
    let base_why = why_invalid(&bytes);

    // ---- history ----
    let probe_id = nimpf + bfuncs.len() as u64 - 1;
    let mut known: Vec<u64> = (0..nimpf + bfuncs.len() as u64).collect();
    let mut locals_known: Vec<u64> = (nimpf..nimpf + bfuncs.len() as u64).collect();
    let mut dead: Vec<u64> = vec![];
    let mut built: Vec<(u64, Vec<u32>, Vec<u32>)> = vec![];
    let mut hist: Vec<BOp> = vec![];
    let mut rets: Vec<Option<u64>> = vec![];
    let mut api_panic = false;
    let mut sites: Vec<u64> = vec![];
    let mut converted = false;
    let res = catch_unwind(AssertUnwindSafe(|| {
        let mut module = Module::parse(&bytes, true).expect("parse");
        let nops = 1 + r.below(6);
        let mut forced_build = false;
        for step in 0..nops {
            let c = if step + 1 == nops && !forced_build && built.is_empty() { 0 } else { r.below(40) / 2 };
            let op = match c {
                0..=10 => {
                    forced_build = true;
                    let params: Vec<u32> = (0..r.below(4)).map(|_| gen_sig_ty(r)).collect();
                    let results: Vec<u32> = (0..match r.below(6) { 0..=2 => 0, 3 | 4 => 1, _ => 2 }).map(|_| gen_sig_ty(r)).collect();
                    // sometimes reuse a signature that is already in the type section (dedup path)
                    let (params, results) = if r.chance(1, 4) { r.pick(&types).clone() } else { (params, results) };
                    let mut locals: Vec<u32> = vec![];
                    for _ in 0..r.below(5) { let t = if r.chance(1, 2) && !locals.is_empty() { *locals.last().unwrap() } else { gen_sig_ty(r) }; locals.push(t); }
                    for t in &results { if *t > 3 && !params.contains(t) && !locals.contains(t) { locals.push(*t); } }
                    let fp = nfp(&mut fpc);
                    let mut space = params.clone(); space.extend(locals.iter().cloned());
                    let r2budget = r.below(40) as i32;
                    let mut g = BGen { r: &mut *r, out: vec![BI::I32Const(fp as i32), BI::Drop], space, labels: vec![], budget: 10 + r2budget, results: results.clone() };
                    g.stmts(0);
                    let res2 = g.results.clone();
                    for t in &res2 { g.expr(*t, 1); }
                    let bis = g.out;
                    let name = if r.chance(1, 2) { namec += 1; Some(namec) } else { None };
                    let body: Vec<Tok> = bis.iter().map(|b| b.tok()).collect();   // finish_module adds the final end
                    BOp::Build(BFun { fp, params, results, locals, body, name }, bis)
                }
                11..=14 => BOp::AddImpFunc(nfp(&mut fpc)),
                15 | 16 => {
                    let pool: Vec<u64> = (if r.chance(1, 12) { known.clone() } else { known.iter().cloned().filter(|x| !dead.contains(x)).collect() }).into_iter().filter(|x| *x != probe_id).collect();
                    if pool.is_empty() { continue; }
                    BOp::Delete(*r.pick(&pool))
                }
                17 if r.chance(1, 2) => {
                    let pool: Vec<u64> = locals_known.iter().cloned().filter(|x| *x != probe_id && !dead.contains(x)).collect();
                    if pool.is_empty() { continue; }
                    BOp::LocalToImport(*r.pick(&pool), nfp(&mut fpc))
                }
                _ => continue,
            };
            hist.push(op.clone());
            let rres = catch_unwind(AssertUnwindSafe(|| -> Option<u64> {
                match &op {
                    BOp::Build(f, bis) => {
                        let ps: Vec<DataType> = f.params.iter().map(|t| code_dt(*t)).collect();
                        let rs: Vec<DataType> = f.results.iter().map(|t| code_dt(*t)).collect();
                        let mut fb = FunctionBuilder::new(&ps, &rs);
                        // locals may be declared before or between the instructions: declare a prefix first, the rest after half of the body
                        let cut = if f.locals.is_empty() { 0 } else { (f.fp as usize) % (f.locals.len() + 1) };
                        let mut ids: Vec<u32> = vec![];
                        for t in &f.locals[..cut] { ids.push(*fb.add_local(code_dt(*t))); }
                        let half = bis.len() / 2;
                        for b in &bis[..half] { b.apply(&mut fb); }
                        for t in &f.locals[cut..] { ids.push(*fb.add_local(code_dt(*t))); }
                        for b in &bis[half..] { b.apply(&mut fb); }
                        // the ids add_local returned must be params.len() + k (C14); a deviation is reported through the name token
                        let ok = ids.iter().enumerate().all(|(k, id)| *id as usize == f.params.len() + k);
                        if let Some(n) = f.name { fb.set_name(format!("n{n}")); }
                        let id = *fb.finish_module(&mut module) as u64;
                        Some(if ok { id } else { 888888 })
                    }
                    BOp::AddImpFunc(fp) => Some(*module.add_import_func("env".into(), format!("i{fp}"), TypeID(0)).0 as u64),
                    BOp::Delete(id) => { module.delete_func(FunctionID(*id as u32)); None }
                    BOp::LocalToImport(id, fp) => { module.convert_local_fn_to_import(FunctionID(*id as u32), "env".into(), format!("i{fp}"), TypeID(0)); None }
                }
            }));
            match rres {
                Err(_) => { api_panic = true; break; }
                Ok(ret) => {
                    rets.push(ret);
                    match (&op, ret) {
                        (BOp::Build(f, _), Some(id)) => { if !known.contains(&id) { known.push(id); locals_known.push(id); } built.push((id, f.params.clone(), f.results.clone())); }
                        (BOp::AddImpFunc(_), Some(id)) => { if !known.contains(&id) { known.push(id); } }
                        (BOp::Delete(id), _) => { if !dead.contains(id) { dead.push(*id); } }
                        (BOp::LocalToImport(id, _), _) => { converted = true; locals_known.retain(|x| x != id); dead.retain(|x| x != id); }
                        _ => {}
                    }
                }
            }
        }
        if api_panic { return None; }
        for id in &known {
            if *id == probe_id { continue; }
            let is_built = built.iter().any(|b| b.0 == *id);
            let take = if dead.contains(id) { r.chance(1, 25) } else if is_built { true } else { r.chance(1, 2) };
            if take { sites.push(*id); }
        }
        let enc = catch_unwind(AssertUnwindSafe(|| {
            {
                let mut fm = module.functions.get_fn_modifier(FunctionID(probe_id as u32)).unwrap();
                fm.before_at(Location::Module { func_idx: FunctionID(0), instr_idx: 0 });
                for (n, id) in sites.iter().enumerate() {
                    fm.inject(Operator::I32Const { value: (MARK + n as u64) as i32 });
                    fm.inject(Operator::Drop);
                    let (ps, rs) = built.iter().find(|b| b.0 == *id).map(|b| (b.1.clone(), b.2.clone())).unwrap_or((vec![], vec![]));
                    for t in &ps {
                        let opx = match t {
                            0 => Operator::I32Const { value: 0 }, 1 => Operator::I64Const { value: 0 }, 2 => Operator::F32Const { value: wasmparser::Ieee32::from(0.0f32) },
                            3 => Operator::F64Const { value: wasmparser::Ieee64::from(0.0f64) }, 4 => continue, // no public constructor for a v128 immediate: the call site stays ill-typed
                            6 | 8 => Operator::RefNull { hty: heap_wp(2) }, _ => Operator::RefNull { hty: heap_wp(0) },
                        };
                        fm.inject(opx);
                    }
                    fm.inject(Operator::Call { function_index: *id as u32 });
                    for _ in &rs { fm.inject(Operator::Drop); }
                }
            }
            module.encode()
        }));
        enc.ok()
    }));
    let enc: Option<Vec<u8>> = match res { Ok(x) => x, Err(_) => { api_panic = true; None } };
    let dec = enc.as_ref().and_then(|o| decode_c12(o));
    let out_why = enc.as_ref().and_then(|o| why_invalid(o));
    let undecodable = enc.is_some() && dec.is_none();
    let coq_fobs = |f: &FObs| format!("mkFO {} {} {} {} {} {}", f.fp, cl(&f.params, |x| x.to_string()), cl(&f.results, |x| x.to_string()), cl(&f.groups, |(c, t)| format!("({c}, {t})")), coq_toks(&f.body), copt(&f.name, |x| x.to_string()));
    let enc_s = match &dec {
        Some((imps, funcs, ss)) => format!("(Some (mkBO {} {} {}))", cl(imps, |(k, fp)| format!("({k}, {fp})")), cl(funcs, |f| coq_fobs(f)), cl(ss, |(n, q)| format!("({n}, {q})"))),
        None => if undecodable { "(Some (mkBO [] [] [(999999, 999999)]))".to_string() } else { "None".to_string() },
    };
    let coq = format!(
        "mkBC {} {} {} {} {} {} {} {}",
        cl(&types, |(p, q)| format!("({}, {})", cl(p, |x| x.to_string()), cl(q, |x| x.to_string()))), cl(&imports, |(k, fp)| format!("({k}, {fp})")), cl(&bfuncs, |f| coq_fobs(f)),
        cl(&hist, |h| h.coq()), cl(&sites, |x| x.to_string()), cl(&rets, |x| match x { Some(v) => format!("Some {v}"), None => "None".into() }), cb(api_panic), enc_s
    );
    let desc = format!(
        "types={:?} imports={:?} funcs={:?} hist=[{}] rets={:?} sites={:?} => api_panic={} out_invalid={:?} {}",
        types, imports, bfuncs.iter().map(|f| (f.fp, f.groups.clone(), f.name)).collect::<Vec<_>>(), hist.iter().map(|h| h.show()).collect::<Vec<_>>().join(" | "), rets, sites, api_panic, out_why,
        match &dec { Some((i, f, s)) => format!("imports={:?} funcs=[{}] sites={:?}", i, f.iter().map(|x| format!("(fp={} {:?}->{:?} groups={:?} name={:?} [{}])", x.fp, x.params, x.results, x.groups, x.name, show_toks(&x.body))).collect::<Vec<_>>().join(" "), s), None => if undecodable { "UNDECODABLE".into() } else { "PANIC".to_string() } }
    );
    let mut tags = vec![format!("base_why={}", base_why.unwrap_or_default().chars().take(40).collect::<String>()), format!("out_why={}", out_why.clone().unwrap_or_default().chars().take(30).collect::<String>()),
                        format!("hist_len={}", hist.len()), format!("api_panic={}", api_panic), format!("encoded={}", enc.is_some()), format!("valid={}", enc.is_some() && out_why.is_none()), format!("converted_before={}", converted)];
    let mut helpers: Vec<String> = vec![];
    for h in &hist {
        tags.push(format!("op={}", match h { BOp::Build(..) => "finish_module", BOp::AddImpFunc(_) => "add_import_func", BOp::Delete(_) => "delete_func", BOp::LocalToImport(..) => "convert_local_fn_to_import" }));
        if let BOp::Build(f, bis) = h {
            tags.push(format!("body_len_bucket={}", bis.len() / 10 * 10)); tags.push(format!("nlocals={}", f.locals.len())); tags.push(format!("named={}", f.name.is_some()));
            for b in bis { let n = match b { BI::U32Const(_) => "u32_const".to_string(), BI::U64Const(_) => "u64_const".to_string(), o => o.tok().0 }; if !helpers.contains(&n) { helpers.push(n); } }
        }
    }
    tags.push(format!("distinct_helpers_bucket={}", helpers.len() / 5 * 5));
    let nontrivial = hist.iter().any(|h| matches!(h, BOp::Build(..)));
    Case { seed, idx, coq, desc, nontrivial, tags }
}

fn decode_c12(out: &[u8]) -> Option<(Vec<(u64, u64)>, Vec<FObs>, Vec<(u64, u64)>)> {
    let mut types: Vec<(Vec<u64>, Vec<u64>)> = vec![];
    let mut imports: Vec<(u64, u64)> = vec![];
    let mut ftypes: Vec<u32> = vec![];
    let mut funcs: Vec<FObs> = vec![];
    let mut sites: Vec<(u64, u64)> = vec![];
    let mut names: Vec<(u32, u64)> = vec![];
    for p in wasmparser::Parser::new(0).parse_all(out) {
        match p.ok()? {
            wasmparser::Payload::TypeSection(r) => for g in r {
                for st in g.ok()?.into_types() {
                    match &st.composite_type.inner {
                        wasmparser::CompositeInnerType::Func(f) => types.push((f.params().iter().map(|t| wp_code(*t)).collect(), f.results().iter().map(|t| wp_code(*t)).collect())),
                        _ => types.push((vec![777], vec![777])),
                    }
                }
            },
            wasmparser::Payload::ImportSection(r) => for i in r {
                let i = i.ok()?;
                let k = match i.ty { wasmparser::TypeRef::Func(_) => 0, wasmparser::TypeRef::Global(_) => 1, wasmparser::TypeRef::Memory(_) => 2, wasmparser::TypeRef::Table(_) => 3, wasmparser::TypeRef::Tag(_) => 4 };
                imports.push((k, tok(i.name, 'i')));
            },
            wasmparser::Payload::FunctionSection(r) => for t in r { ftypes.push(t.ok()?); },
            wasmparser::Payload::CodeSectionEntry(b) => {
                let mut groups = vec![];
                let mut lr = b.get_locals_reader().ok()?;
                for _ in 0..lr.get_count() { let (c, t) = lr.read().ok()?; groups.push((c as u64, wp_code(t))); }
                let mut ops = vec![];
                let mut rd = b.get_operators_reader().ok()?;
                while !rd.eof() { ops.push(rd.read().ok()?); }
                let mut fp = 0u64;
                let mut i = 0;
                while i < ops.len() {
                    if let Operator::I32Const { value } = ops[i] {
                        let v = value as u32 as u64;
                        if v >= MARK && v < MARK + 50000 {
                            let mut j = i + 1; let mut q = 444444u64;
                            while j < ops.len() {
                                match &ops[j] { Operator::Call { function_index } => { q = *function_index as u64; break; } Operator::I32Const { value } if (*value as u32 as u64) >= MARK => break, _ => {} }
                                j += 1;
                            }
                            sites.push((v - MARK, q));
                        } else if fp == 0 && value > 0 { fp = v; }
                    }
                    i += 1;
                }
                let k = funcs.len();
                let (params, results) = ftypes.get(k).and_then(|t| types.get(*t as usize)).cloned().unwrap_or((vec![888], vec![888]));
                // the probe's body carries the injected references; its own operators are not part of the observation
                let body = if fp == PROBE_FP { vec![("i32.const".to_string(), vec![PROBE_FP as i128]), ("drop".to_string(), vec![]), ("end".to_string(), vec![])] } else { ops.iter().map(op_tok).collect() };
                let fp = if ops.iter().any(|o| matches!(o, Operator::I32Const { value } if *value as u32 as u64 == PROBE_FP)) { PROBE_FP } else { fp };
                funcs.push(FObs { fp, params, results, groups, body, name: None });
            }
            wasmparser::Payload::CustomSection(c) => {
                if let wasmparser::KnownCustom::Name(r) = c.as_known() {
                    for sub in r { if let wasmparser::Name::Function(m) = sub.ok()? { for n in m { let n = n.ok()?; names.push((n.index, tok(n.name, 'n'))); } } }
                }
            }
            _ => {}
        }
    }
    let nimp = imports.iter().filter(|x| x.0 == 0).count() as u32;
    for (k, f) in funcs.iter_mut().enumerate() {
        let mine: Vec<u64> = names.iter().filter(|(i, _)| *i == nimp + k as u32).map(|(_, n)| *n).collect();
        f.name = match mine.len() { 0 => None, 1 => Some(mine[0]), _ => Some(999998) };
    }
    sites.sort();
    Some((imports, funcs, sites))
}
