// Correspondence harness of the iterator engine (C25 module iterator, C26 component iterator).
//
// C25: a generated core module (0..3 imported functions so that local function ids do not start at
//      0, 0..6 local functions with 1..8 instructions each), a random skip list and a call script
//        construct ; [at most k next() calls ; reset()] ; full traversal ; [curr_loc() after the end]
//      driven against the real `ModuleIterator` through the public `Iterator` trait, every call under
//      catch_unwind.  The observation is the list of events (see coq/Model/Iter.v, `ev`).
// C26: a generated component with 1..4 such core modules and a skip map, the same script against the real
//      `ComponentIterator`; in addition the same `before` probes (i32.const k; drop) are injected at
//      a few locations once through a ComponentIterator and once through per-module ModuleIterators
//      and the two encoded components (hence every encoded module) are compared byte for byte.
use std::collections::HashMap;
use std::panic::{catch_unwind, AssertUnwindSafe};
use vharness::wasmgen::*;
use vharness::*;
use wasmparser::Operator;
use wirm::ir::id::{FunctionID, ModuleID};
use wirm::ir::types::Location;
use wirm::iterator::component_iterator::ComponentIterator;
use wirm::iterator::iterator_trait::{IteratingInstrumenter, Iterator as WIter};
use wirm::iterator::module_iterator::ModuleIterator;
use wirm::opcode::InjectAt;
use wirm::opcode::Inject;
use wirm::{Component, Module};

const STEP_LIMIT: u64 = 100_000;

#[derive(Clone, Debug)]
struct MSpec {
    nimp: u32,              // imported functions (ids 0..nimp)
    other_import: bool,     // a global import between the function imports
    funcs: Vec<Vec<Op>>,    // local function bodies (ids nimp..), last op = End
}
impl MSpec {
    fn meta(&self) -> Vec<(u32, usize)> { self.funcs.iter().enumerate().map(|(j, b)| (self.nimp + j as u32, b.len())).collect() }
    fn op_at(&self, f: u32, i: usize) -> Option<Operator<'static>> {
        if f < self.nimp { return None; }
        self.funcs.get((f - self.nimp) as usize).and_then(|b| b.get(i)).map(|o| o.wp())
    }
}

fn build_module(s: &MSpec) -> wasm_encoder::Module {
    use wasm_encoder as we;
    let mut m = we::Module::new();
    let mut types = we::TypeSection::new();
    types.ty().function(vec![], vec![]);
    m.section(&types);
    if s.nimp > 0 || s.other_import {
        let mut is = we::ImportSection::new();
        for i in 0..s.nimp {
            if i == 1 && s.other_import {
                is.import("env", "g", we::EntityType::Global(we::GlobalType { val_type: we::ValType::I32, mutable: false, shared: false }));
            }
            is.import("env", &format!("f{i}"), we::EntityType::Function(0));
        }
        if s.other_import && s.nimp < 2 {
            is.import("env", "g", we::EntityType::Global(we::GlobalType { val_type: we::ValType::I32, mutable: false, shared: false }));
        }
        m.section(&is);
    }
    if !s.funcs.is_empty() {
        let mut funcs = we::FunctionSection::new();
        for _ in &s.funcs { funcs.function(0); }
        m.section(&funcs);
        let mut ex = we::ExportSection::new();
        ex.export("first", we::ExportKind::Func, s.nimp);
        m.section(&ex);
        let mut code = we::CodeSection::new();
        for b in &s.funcs {
            let mut f = we::Function::new(vec![]);
            for op in b { f.instruction(&op.enc()); }
            code.function(&f);
        }
        m.section(&code);
    }
    m
}

fn build_component(ms: &[MSpec], decorate: bool) -> Vec<u8> {
    use wasm_encoder as we;
    let mut c = we::Component::new();
    for (i, s) in ms.iter().enumerate() {
        if decorate && i % 2 == 1 {
            c.section(&we::CustomSection { name: "between".into(), data: std::borrow::Cow::Borrowed(&[1u8, 2, 3]) });
        }
        c.section(&we::ModuleSection(&build_module(s)));
    }
    c.finish()
}

fn gen_body(midx: u32, j: usize, n: usize) -> Vec<Op> {
    let mut b = vec![];
    let mut i = 0;
    if (n - 1) % 2 == 1 { b.push(Op::Other(T_NOP)); i += 1; }
    while i + 2 <= n - 1 {
        b.push(Op::Const((midx * 10000 + (j as u32) * 100 + i as u32) as i32));
        b.push(Op::Drop);
        i += 2;
    }
    b.push(Op::End);
    assert_eq!(b.len(), n);
    b
}
fn mspec_of(midx: u32, nimp: u32, other_import: bool, lens: &[usize]) -> MSpec {
    MSpec { nimp, other_import, funcs: lens.iter().enumerate().map(|(j, n)| gen_body(midx, j, *n)).collect() }
}
fn gen_mspec(r: &mut Rng, midx: u32, p_empty_den: u64) -> MSpec {
    let nimp = r.below(4) as u32;
    let nloc = if r.chance(1, p_empty_den) { 0 } else { 1 + r.below(6) as usize };
    let lens: Vec<usize> = (0..nloc).map(|_| 1 + r.below(8) as usize).collect();
    mspec_of(midx, nimp, r.chance(1, 3), &lens)
}

// risky = styles that may skip the first / last / all local functions
fn gen_skip(r: &mut Rng, midx: u32, s: &mut MSpec, risky: bool) -> (Vec<u32>, &'static str) {
    let nloc = s.funcs.len() as u32;
    let ids: Vec<u32> = (0..nloc).map(|j| s.nimp + j).collect();
    let mut v: Vec<u32> = vec![];
    let style;
    if !risky {
        match r.below(4) {
            0 | 1 => { style = "empty"; }
            2 => { style = "imports_or_unknown"; for i in 0..s.nimp { if r.chance(1, 2) { v.push(i); } } if r.chance(1, 2) { v.push(s.nimp + nloc + r.below(3) as u32); } }
            _ => { style = "interior"; for j in 1..nloc.saturating_sub(1) { if r.chance(1, 2) { v.push(ids[j as usize]); } } }
        }
    } else {
        match r.below(7) {
            0 => { style = "random_third"; for id in &ids { if r.chance(1, 3) { v.push(*id); } } for i in 0..s.nimp { if r.chance(1, 4) { v.push(i); } } }
            1 => { style = "all"; v = ids.clone(); if r.chance(1, 2) { v.reverse(); } }
            2 => { style = "trailing"; let t = 1 + r.below(nloc.max(1) as u64) as u32; for j in nloc.saturating_sub(t)..nloc { v.push(ids[j as usize]); } }
            3 => { style = "first"; if nloc > 0 { v.push(ids[0]); } for id in ids.iter().skip(1) { if r.chance(1, 4) { v.push(*id); } } }
            4 => { style = "all_but_one"; if nloc > 0 { let keep = r.below(nloc as u64) as u32; for j in 0..nloc { if j != keep { v.push(ids[j as usize]); } } } }
            5 => { style = "random_half_dups"; for id in &ids { if r.chance(1, 2) { v.push(*id); if r.chance(1, 3) { v.push(*id); } } } }
            _ => { style = "first_same_len"; // function 0 skipped, the next function has the same length when possible
                   if nloc > 0 { v.push(ids[0]); }
                   if nloc > 1 { let n = s.funcs[0].len(); let j = 1 + r.below(nloc as u64 - 1) as usize; for q in 1..j { v.push(ids[q]); } s.funcs[j] = gen_body(midx, j, n); } }
        }
    }
    if r.chance(1, 5) && v.len() > 1 { let a = r.below(v.len() as u64) as usize; let b = r.below(v.len() as u64) as usize; v.swap(a, b); }
    (v, style)
}

#[derive(Clone, Debug, PartialEq)]
enum Ev { V(u32, u32, usize, bool, bool), Panic, Reset, After }
impl Ev {
    fn coq(&self) -> String {
        match self {
            Ev::V(m, f, i, e, ok) => format!("V {} {} {} {} {}", m, f, i, coq_bool(*e), coq_bool(*ok)),
            Ev::Panic => "EPanic".into(), Ev::Reset => "EReset".into(), Ev::After => "EAfter".into(),
        }
    }
    fn show(&self) -> String {
        match self {
            Ev::V(m, f, i, e, ok) => format!("{}:{}@{}{}{}", m, f, i, if *e { "$" } else { "" }, if *ok { "" } else { "!op" }),
            Ev::Panic => "PANIC".into(), Ev::Reset => "RESET".into(), Ev::After => "AFTER".into(),
        }
    }
}
fn loc3(l: Location) -> (u32, u32, usize) {
    match l {
        Location::Module { func_idx, instr_idx } => (0, *func_idx, instr_idx),
        Location::Component { mod_idx, func_idx, instr_idx } => (*mod_idx, *func_idx, instr_idx),
    }
}

#[derive(PartialEq)]
enum WEnd { Panic, Fuel, Stopped, End }

// mirrors `walk` of coq/Model/Iter.v
fn walk<T: WIter>(it: &mut T, mut lim: Option<u64>, op_at: &dyn Fn(u32, u32, usize) -> Option<Operator<'static>>, out: &mut Vec<Ev>) -> WEnd {
    let mut guard = 0u64;
    loop {
        guard += 1;
        if guard > STEP_LIMIT { return WEnd::Fuel; }
        match catch_unwind(AssertUnwindSafe(|| it.curr_op().is_some())) {
            Err(_) => { out.push(Ev::Panic); return WEnd::Panic; }
            Ok(false) => return WEnd::End,
            Ok(true) => {}
        }
        let (loc, e) = match catch_unwind(AssertUnwindSafe(|| it.curr_loc())) {
            Err(_) => { out.push(Ev::Panic); return WEnd::Panic; }
            Ok(x) => x,
        };
        let (m, f, i) = loc3(loc);
        let want = op_at(m, f, i);
        let ok = catch_unwind(AssertUnwindSafe(|| match (it.curr_op(), &want) { (Some(o), Some(w)) => o == w, _ => false })).unwrap_or(false);
        out.push(Ev::V(m, f, i, e, ok));
        if lim == Some(0) { return WEnd::Stopped; }
        match catch_unwind(AssertUnwindSafe(|| it.next().is_some())) {
            Err(_) => { out.push(Ev::Panic); return WEnd::Panic; }
            Ok(false) => return WEnd::End,
            Ok(true) => {}
        }
        lim = lim.map(|k| k.saturating_sub(1));
    }
}
fn full<T: WIter>(it: &mut T, probe: bool, op_at: &dyn Fn(u32, u32, usize) -> Option<Operator<'static>>, out: &mut Vec<Ev>) {
    if walk(it, None, op_at, out) == WEnd::End && probe {
        match catch_unwind(AssertUnwindSafe(|| it.curr_loc())) {
            Err(_) => out.push(Ev::Panic),
            Ok(_) => out.push(Ev::After),
        }
    }
}
// mirrors `run` (after construction)
fn run_script<T: WIter>(it: &mut T, k: Option<u64>, probe: bool, op_at: &dyn Fn(u32, u32, usize) -> Option<Operator<'static>>, out: &mut Vec<Ev>) {
    match k {
        None => full(it, probe, op_at, out),
        Some(k) => {
            let w = walk(it, Some(k), op_at, out);
            if w == WEnd::Panic || w == WEnd::Fuel { return; }
            out.push(Ev::Reset);
            match catch_unwind(AssertUnwindSafe(|| it.reset())) {
                Err(_) => out.push(Ev::Panic),
                Ok(()) => full(it, probe, op_at, out),
            }
        }
    }
}

fn coq_meta(m: &[(u32, usize)]) -> String { coq_list(m, |(f, n)| format!("({}, {})", f, n)) }
fn coq_skip(s: &[u32]) -> String { coq_list(s, |x| format!("{}", x)) }
fn coq_k(k: Option<u64>) -> String { match k { None => "None".into(), Some(k) => format!("(Some {}%nat)", k) } }
fn show_evs(v: &[Ev]) -> String { v.iter().map(|e| e.show()).collect::<Vec<_>>().join(" ") }

// the visits a correct iterator makes (used only to choose injection targets and k, and for tags)
fn expected(ms: &[MSpec], skips: &[Vec<u32>]) -> Vec<(u32, u32, usize)> {
    let mut v = vec![];
    for (m, s) in ms.iter().enumerate() {
        for (f, n) in s.meta() {
            if skips[m].contains(&f) { continue; }
            for i in 0..n { v.push((m as u32, f, i)); }
        }
    }
    v
}

fn shape_tags(s: &MSpec, skip: &[u32], tags: &mut Vec<String>) {
    let meta = s.meta();
    if meta.is_empty() { tags.push("shape=no_local_functions".into()); return; }
    if meta.iter().all(|(f, _)| skip.contains(f)) { tags.push("shape=all_skipped".into()); return; }
    if skip.contains(&meta[0].0) { tags.push("shape=first_skipped".into()); }
    if skip.contains(&meta[meta.len() - 1].0) { tags.push("shape=last_skipped".into()); }
    if meta.iter().any(|(f, _)| skip.contains(f)) { tags.push("shape=some_skipped".into()); } else { tags.push("shape=none_skipped".into()); }
}

const WITNESS_BASE: u64 = 1 << 40;

struct In25 { s: MSpec, skip: Vec<u32>, style: &'static str, k: Option<u64>, probe: bool }
// hand-written regression inputs: the minimal witnesses of the shapes of D12, repaired since (case index WITNESS_BASE + w)
fn witness25(w: u64) -> In25 {
    let m = |nimp: u32, lens: &[usize]| mspec_of(0, nimp, false, lens);
    match w {
        0 => In25 { s: m(0, &[1, 5]), skip: vec![0], style: "witness", k: None, probe: false },       // function 0 skipped (f1 used to be walked with f0's length)
        1 => In25 { s: m(1, &[3, 2]), skip: vec![1], style: "witness", k: None, probe: false },       // same, longer f0 (curr_op used to index out of bounds)
        2 => In25 { s: m(1, &[]), skip: vec![], style: "witness", k: None, probe: false },            // no local function
        3 => In25 { s: m(0, &[2]), skip: vec![0], style: "witness", k: None, probe: false },          // every function skipped
        4 => In25 { s: m(0, &[2, 1]), skip: vec![1], style: "witness", k: None, probe: true },        // trailing skipped: curr_loc after the end
        5 => In25 { s: m(0, &[1, 1]), skip: vec![0, 1], style: "witness", k: Some(0), probe: false }, // all skipped, with a reset
        _ => In25 { s: m(2, &[2, 3, 1]), skip: vec![3], style: "witness", k: Some(2), probe: true },  // a holding case
    }
}
fn gen25(seed: u64, idx: u64) -> In25 {
    if idx >= WITNESS_BASE { return witness25(idx - WITNESS_BASE); }
    let mut r = Rng::for_case(seed, idx);
    let mut s = gen_mspec(&mut r, 0, 12);
    let risky = r.chance(1, 2);
    let (skip, style) = gen_skip(&mut r, 0, &mut s, risky);
    let exp = expected(std::slice::from_ref(&s), std::slice::from_ref(&skip));
    let k = if r.chance(2, 5) { Some(r.below(exp.len() as u64 + 3)) } else { None };
    let probe = r.chance(1, 2);
    In25 { s, skip, style, k, probe }
}

fn try_new_mi<'a, 'b>(m: &'a mut Module<'b>, skip: Vec<FunctionID>) -> Result<ModuleIterator<'a, 'b>, ()> {
    catch_unwind(AssertUnwindSafe(move || { let sk = skip; ModuleIterator::new({ m }, &sk) })).map_err(|_| ())
}

fn case25(seed: u64, idx: u64) -> Case {
    let In25 { s, skip, style, k, probe } = gen25(seed, idx);
    let exp = expected(std::slice::from_ref(&s), std::slice::from_ref(&skip));
    let bytes = build_module(&s).finish();
    let skipv: Vec<FunctionID> = skip.iter().map(|x| FunctionID(*x)).collect();
    let op_at = |_m: u32, f: u32, i: usize| s.op_at(f, i);
    let mut obs = vec![];
    let mut meta_ok = true;
    match catch_unwind(AssertUnwindSafe(|| Module::parse(&bytes, false).expect("parse"))) {
        Err(_) => obs.push(Ev::Panic),
        Ok(mut module) => {
            meta_ok = module.get_func_metadata().iter().map(|(f, n)| (**f, *n)).collect::<Vec<_>>() == s.meta();
            match try_new_mi(&mut module, skipv.clone()) {
                Err(_) => obs.push(Ev::Panic),
                Ok(mut it) => run_script(&mut it, k, probe, &op_at, &mut obs),
            }
        }
    }
    let coq = format!("mkMC {} {} {} {} {} {}", coq_meta(&s.meta()), s.nimp, coq_skip(&skip), coq_k(k), coq_bool(probe), coq_list(&obs, |e| e.coq()));
    let desc = format!("nimp={} meta={:?} skip={:?} k={:?} probe_after_end={} => {}{}", s.nimp, s.meta(), skip, k, probe, show_evs(&obs), if meta_ok { "" } else { " [get_func_metadata differs from the generated module]" });
    let mut tags = vec![format!("skip_style={}", style), format!("nloc={}", s.funcs.len()), format!("script={}", if k.is_some() { "partial+reset+full" } else { "full" }), format!("probe_after_end={}", probe)];
    shape_tags(&s, &skip, &mut tags);
    if obs.contains(&Ev::Panic) { tags.push("obs=panic".into()); } else { tags.push("obs=no_panic".into()); }
    if !meta_ok { tags.push("metadata_differs".into()); }
    let nontrivial = s.funcs.len() >= 1 && exp.len() >= 2;
    Case { seed, idx, coq, desc, nontrivial, tags }
}

// injects `before: i32.const c; drop` at every target the iterator reaches
fn inject_walk<'a, T: WIter + IteratingInstrumenter<'a> + Inject<'a> + InjectAt<'a>>(it: &mut T, targets: &[(u32, u32, usize)], m_override: Option<u32>) {
    let mut guard = 0;
    loop {
        guard += 1;
        if guard > STEP_LIMIT { break; }
        let (m, f, i) = loc3(it.curr_loc().0);
        let m = m_override.unwrap_or(m);
        if let Some(p) = targets.iter().position(|t| *t == (m, f, i)) {
            // the way the probe is injected varies with the target (the same calls are made through both kinds of iterator)
            let c = Operator::I32Const { value: 777000 + p as i32 };
            // (derived from the target itself: with at most a handful of targets `p` alone never reached the last styles)
            match (p + (f as usize) * 3 + i * 5 + (m as usize)) % 6 {
                0 => { it.before(); it.inject(c); it.inject(Operator::Drop); }
                1 => { it.after(); it.inject(c); it.inject(Operator::Drop); }
                2 => { it.func_entry(); it.inject(c); it.inject(Operator::Drop); }
                3 => { it.func_exit(); it.inject(c); it.inject(Operator::Drop); }
                4 => { it.inject_at(i, wirm::ir::types::InstrumentationMode::Before, c); it.inject_at(i, wirm::ir::types::InstrumentationMode::Before, Operator::Drop); }
                // an explicit-location injection while a function-level mode is active on the function
                _ => { it.func_entry(); it.inject(c); it.inject(Operator::Drop); it.inject_at(i, wirm::ir::types::InstrumentationMode::Before, Operator::Nop); }
            }
        }
        if it.next().is_none() { break; }
    }
}

struct In26 { ms: Vec<MSpec>, skips: Vec<Vec<u32>>, present: Vec<bool>, styles: Vec<&'static str>, k: Option<u64>, probe: bool, decorate: bool, targets: Vec<(u32, u32, usize)> }
// hand-written regression inputs: the minimal witnesses of the shapes of D13 (and of D12 seen through the component iterator), repaired since
fn witness26(w: u64) -> In26 {
    let m = |midx: u32, nimp: u32, lens: &[usize]| mspec_of(midx, nimp, false, lens);
    let mk = |ms: Vec<MSpec>, skips: Vec<Vec<u32>>, k: Option<u64>, probe: bool, targets: Vec<(u32, u32, usize)>| {
        let n = ms.len();
        In26 { ms, skips, present: vec![true; n], styles: vec!["witness"; n], k, probe, decorate: false, targets }
    };
    match w {
        0 => mk(vec![m(0, 0, &[1, 1]), m(1, 0, &[1])], vec![vec![1], vec![]], None, false, vec![(1, 0, 0)]),       // last function of module 0 skipped (module 1 used to be never visited)
        1 => mk(vec![m(0, 0, &[1]), m(1, 0, &[])], vec![vec![], vec![]], None, false, vec![]),                    // module without local functions (next() used to panic)
        2 => mk(vec![m(0, 0, &[1, 1]), m(1, 0, &[1, 1])], vec![vec![], vec![0]], Some(9), false, vec![]),         // reset (used to keep module 1's skip list)
        3 => mk(vec![m(0, 0, &[1]), m(1, 0, &[1, 2])], vec![vec![], vec![0]], None, false, vec![]),               // D12 inside module 1
        4 => mk(vec![m(0, 0, &[])], vec![vec![]], None, false, vec![]),                                           // only module has no local function (construction used to panic)
        _ => mk(vec![m(0, 1, &[2, 1]), m(1, 0, &[3])], vec![vec![0], vec![]], Some(1), true, vec![(0, 1, 1), (1, 0, 0)]), // a holding case
    }
}
fn gen26(seed: u64, idx: u64) -> In26 {
    if idx >= WITNESS_BASE { return witness26(idx - WITNESS_BASE); }
    let mut r = Rng::for_case(seed, idx);
    let nmods = 1 + r.below(4) as usize;
    let mut ms: Vec<MSpec> = (0..nmods).map(|m| gen_mspec(&mut r, m as u32, 25)).collect();
    let risky_case = r.chance(2, 5);
    let mut skips: Vec<Vec<u32>> = vec![];
    let mut present: Vec<bool> = vec![];
    let mut styles = vec![];
    for (m, s) in ms.iter_mut().enumerate() {
        let risky = risky_case && r.chance(1, 2);
        let (v, st) = gen_skip(&mut r, m as u32, s, risky);
        present.push(!v.is_empty() || r.chance(1, 2));
        skips.push(v);
        styles.push(st);
    }
    if r.chance(1, 6) { let v = skips[0].clone(); for s in skips.iter_mut() { *s = v.clone(); } }   // same list everywhere
    for (m, v) in skips.iter().enumerate() { if !v.is_empty() { present[m] = true; } }
    let exp = expected(&ms, &skips);
    let k = if r.chance(1, 3) { Some(r.below(exp.len() as u64 + 3)) } else { None };
    let probe = r.chance(1, 2);
    let decorate = r.chance(1, 2);
    let ntargets = r.below(7) as usize;
    let mut targets: Vec<(u32, u32, usize)> = vec![];
    for _ in 0..ntargets { if !exp.is_empty() { let t = *r.pick(&exp); if !targets.contains(&t) { targets.push(t); } } }
    In26 { ms, skips, present, styles, k, probe, decorate, targets }
}

fn case26(seed: u64, idx: u64) -> Case {
    let In26 { ms, skips, present, styles, k, probe, decorate, targets } = gen26(seed, idx);
    let nmods = ms.len();
    let exp = expected(&ms, &skips);
    let bytes = build_component(&ms, decorate);
    let mk_map = || -> HashMap<ModuleID, Vec<FunctionID>> {
        let mut h = HashMap::new();
        for (m, v) in skips.iter().enumerate() { if present[m] { h.insert(ModuleID(m as u32), v.iter().map(|x| FunctionID(*x)).collect()); } }
        h
    };
    let op_at = |m: u32, f: u32, i: usize| ms.get(m as usize).and_then(|s| s.op_at(f, i));
    let mut obs = vec![];
    let mut meta_ok = true;
    match catch_unwind(AssertUnwindSafe(|| Component::parse(&bytes, false).expect("parse"))) {
        Err(_) => obs.push(Ev::Panic),
        Ok(mut comp) => {
            meta_ok = comp.modules.len() == nmods && comp.num_modules == nmods
                && comp.modules.iter().zip(ms.iter()).all(|(a, b)| a.get_func_metadata().iter().map(|(f, n)| (**f, *n)).collect::<Vec<_>>() == b.meta());
            let cref = &mut comp;
            let map = mk_map();
            match catch_unwind(AssertUnwindSafe(move || ComponentIterator::new({ cref }, map))) {
                Err(_) => obs.push(Ev::Panic),
                Ok(mut it) => run_script(&mut it, k, probe, &op_at, &mut obs),
            }
        }
    }
    // second half: the same injections through the component iterator and through module iterators
    let via_comp = catch_unwind(AssertUnwindSafe(|| {
        let mut comp = Component::parse(&bytes, false).expect("parse");
        { let mut it = ComponentIterator::new(&mut comp, mk_map()); inject_walk(&mut it, &targets, None); }
        comp.encode()
    }));
    let via_mods = catch_unwind(AssertUnwindSafe(|| {
        let mut comp = Component::parse(&bytes, false).expect("parse");
        for m in 0..nmods {
            if !targets.iter().any(|t| t.0 == m as u32) { continue; }
            let skipv: Vec<FunctionID> = skips[m].iter().map(|x| FunctionID(*x)).collect();
            let mut it = ModuleIterator::new(&mut comp.modules[m], &skipv);
            inject_walk(&mut it, &targets, Some(m as u32));
        }
        comp.encode()
    }));
    let plain = catch_unwind(AssertUnwindSafe(|| Component::parse(&bytes, false).expect("parse").encode())).ok();
    let inj_same = match (&via_comp, &via_mods) { (Ok(a), Ok(b)) => a == b, _ => false };
    let inj_effect = match (&via_mods, &plain) { (Ok(a), Some(p)) => a != p, _ => false };
    let metas: Vec<Vec<(u32, usize)>> = ms.iter().map(|s| s.meta()).collect();
    let coq = format!("mkCC {} {} {} {} {} {} {}", coq_list(&metas, |m| coq_meta(m)), coq_list(&skips, |s| coq_skip(s)), coq_k(k), coq_bool(probe),
                      coq_list(&obs, |e| e.coq()), targets.len(), coq_bool(inj_same));
    let desc = format!("metas={:?} skips={:?} in_map={:?} k={:?} probe_after_end={} => {} ; injections at {:?}: comp {} / modules {} / same bytes {}{}",
                       metas, skips, present, k, probe, show_evs(&obs), targets,
                       if via_comp.is_ok() { "encoded" } else { "PANIC" }, if via_mods.is_ok() { "encoded" } else { "PANIC" }, inj_same,
                       if meta_ok { "" } else { " [parsed component differs from the generated one]" });
    let mut tags = vec![format!("nmods={}", nmods), format!("script={}", if k.is_some() { "partial+reset+full" } else { "full" }), format!("probe_after_end={}", probe),
                        format!("injections={}", targets.len()), format!("inj_same={}", inj_same)];
    for (m, s) in ms.iter().enumerate() { shape_tags(s, &skips[m], &mut tags); tags.push(format!("skip_style={}", styles[m])); }
    if inj_effect { tags.push("injection_changed_bytes".into()); }
    if obs.contains(&Ev::Panic) { tags.push("obs=panic".into()); } else { tags.push("obs=no_panic".into()); }
    if !meta_ok { tags.push("metadata_differs".into()); }
    let nontrivial = exp.len() >= 2;
    Case { seed, idx, coq, desc, nontrivial, tags }
}

extern "C" { fn dup2(a: i32, b: i32) -> i32; }

fn main() {
    // ComponentIterator::new prints the metadata to stdout: send fd 1 to /dev/null
    {
        use std::os::unix::io::AsRawFd;
        if let Ok(f) = std::fs::OpenOptions::new().write(true).open("/dev/null") {
            unsafe { dup2(f.as_raw_fd(), 1); }
            std::mem::forget(f);
        }
    }
    let args = parse_args();
    let header = "From Coq Require Import List NArith.\nImport ListNotations.\nFrom Orca Require Import Iter CheckIter.\nOpen Scope N_scope.";
    let footer = format!("Eval vm_compute in (report_{} cases).", args.prop);
    let prop = args.prop.clone();
    let ty = if prop == "C26" { "ccase" } else { "mcase" };
    run_shards(&args, header, ty, &footer, |seed, idx| if prop == "C26" { case26(seed, idx) } else { case25(seed, idx) });
}
