(* Two's-complement wrap-around arithmetic on Z: the meaning of Rust's integer `as` casts and of the
   reinterpretation of an unsigned constant as the signed immediate of i32.const / i64.const. *)
From Coq Require Import ZArith Lia.
Local Open Scope Z_scope.

Definition two31 : Z := 2147483648.                 (* 2^31 *)
Definition two32 : Z := 4294967296.                 (* 2^32 *)
Definition two63 : Z := 9223372036854775808.        (* 2^63 *)
Definition two64 : Z := 18446744073709551616.       (* 2^64 *)

Lemma two31_pow : two31 = 2 ^ 31. Proof. reflexivity. Qed.
Lemma two32_pow : two32 = 2 ^ 32. Proof. reflexivity. Qed.
Lemma two63_pow : two63 = 2 ^ 63. Proof. reflexivity. Qed.
Lemma two64_pow : two64 = 2 ^ 64. Proof. reflexivity. Qed.

(* the unsigned reading of the low 32 / 64 bits of an integer (Rust: `z as u32`, `z as u64`) *)
Definition to_u32 (z : Z) : Z := z mod two32.
Definition to_u64 (z : Z) : Z := z mod two64.

(* the signed reading of the low 32 / 64 bits of an integer (Rust: `z as i32`, `z as i64` for every
   integer source type: truncation, then two's complement) *)
Definition wrap_s32 (z : Z) : Z := (z + two31) mod two32 - two31.
Definition wrap_s64 (z : Z) : Z := (z + two63) mod two64 - two63.

(* the two's-complement reinterpretation of an unsigned 32 / 64-bit value, written the way the
   WebAssembly specification writes signed_N: i if i < 2^(N-1), i - 2^N otherwise *)
Definition as_i32 (v : Z) : Z := if v <? two31 then v else v - two32.
Definition as_i64 (v : Z) : Z := if v <? two63 then v else v - two64.

Definition in_u32 (z : Z) : bool := (0 <=? z) && (z <? two32).
Definition in_u64 (z : Z) : bool := (0 <=? z) && (z <? two64).
Definition in_i32 (z : Z) : bool := (- two31 <=? z) && (z <? two31).
Definition in_i64 (z : Z) : bool := (- two63 <=? z) && (z <? two63).
Definition in_u8 (z : Z) : bool := (0 <=? z) && (z <? 256).

Lemma in_u32_iff z : in_u32 z = true <-> 0 <= z < two32.
Proof. unfold in_u32. rewrite Bool.andb_true_iff, Z.leb_le, Z.ltb_lt. tauto. Qed.
Lemma in_u64_iff z : in_u64 z = true <-> 0 <= z < two64.
Proof. unfold in_u64. rewrite Bool.andb_true_iff, Z.leb_le, Z.ltb_lt. tauto. Qed.
Lemma in_i32_iff z : in_i32 z = true <-> - two31 <= z < two31.
Proof. unfold in_i32. rewrite Bool.andb_true_iff, Z.leb_le, Z.ltb_lt. tauto. Qed.
Lemma in_i64_iff z : in_i64 z = true <-> - two63 <= z < two63.
Proof. unfold in_i64. rewrite Bool.andb_true_iff, Z.leb_le, Z.ltb_lt. tauto. Qed.

(* ---- 32 bits ---- *)
Lemma as_i32_range v : 0 <= v < two32 -> - two31 <= as_i32 v < two31.
Proof. unfold as_i32, two31, two32. intros H. destruct (Z.ltb_spec v 2147483648); lia. Qed.

(* the bits are preserved: reading the signed immediate back as unsigned gives the original value *)
Lemma to_u32_as_i32 v : 0 <= v < two32 -> to_u32 (as_i32 v) = v.
Proof.
  unfold to_u32, as_i32, two31, two32. intros H. destruct (Z.ltb_spec v 2147483648).
  - apply Z.mod_small. lia.
  - symmetry. apply (Z.mod_unique _ _ (-1)); lia.
Qed.

Lemma as_i32_to_u32 z : - two31 <= z < two31 -> as_i32 (to_u32 z) = z.
Proof.
  unfold to_u32, as_i32, two31, two32. intros H.
  destruct (Z.neg_nonneg_cases z) as [Hn | Hp].
  - assert (E : z mod 4294967296 = z + 4294967296) by (symmetry; apply (Z.mod_unique _ _ (-1)); lia).
    rewrite E. destruct (Z.ltb_spec (z + 4294967296) 2147483648); lia.
  - rewrite Z.mod_small by lia. destruct (Z.ltb_spec z 2147483648); lia.
Qed.

Lemma as_i32_inj a b : 0 <= a < two32 -> 0 <= b < two32 -> as_i32 a = as_i32 b -> a = b.
Proof. intros Ha Hb E. rewrite <- (to_u32_as_i32 a Ha), <- (to_u32_as_i32 b Hb), E. reflexivity. Qed.

(* Rust's `v as i32` on a u32 is that reinterpretation *)
Lemma wrap_s32_u32 v : 0 <= v < two32 -> wrap_s32 v = as_i32 v.
Proof.
  unfold wrap_s32, as_i32, two31, two32. intros H. destruct (Z.ltb_spec v 2147483648).
  - rewrite Z.mod_small; lia.
  - assert (E : (v + 2147483648) mod 4294967296 = v - 2147483648) by (symmetry; apply (Z.mod_unique _ _ 1); lia).
    rewrite E. lia.
Qed.
Lemma wrap_s32_id z : - two31 <= z < two31 -> wrap_s32 z = z.
Proof. unfold wrap_s32, two31, two32. intros H. rewrite Z.mod_small; lia. Qed.
Lemma wrap_s32_range z : - two31 <= wrap_s32 z < two31.
Proof. unfold wrap_s32, two31, two32. pose proof (Z.mod_pos_bound (z + 2147483648) 4294967296 ltac:(lia)). lia. Qed.
Lemma to_u32_range z : 0 <= to_u32 z < two32.
Proof. unfold to_u32, two32. apply Z.mod_pos_bound. lia. Qed.
Lemma to_u32_id z : 0 <= z < two32 -> to_u32 z = z.
Proof. unfold to_u32. intros. apply Z.mod_small. assumption. Qed.

(* ---- 64 bits ---- *)
Lemma as_i64_range v : 0 <= v < two64 -> - two63 <= as_i64 v < two63.
Proof. unfold as_i64, two63, two64. intros H. destruct (Z.ltb_spec v 9223372036854775808); lia. Qed.

Lemma to_u64_as_i64 v : 0 <= v < two64 -> to_u64 (as_i64 v) = v.
Proof.
  unfold to_u64, as_i64, two63, two64. intros H. destruct (Z.ltb_spec v 9223372036854775808).
  - apply Z.mod_small. lia.
  - symmetry. apply (Z.mod_unique _ _ (-1)); lia.
Qed.

Lemma as_i64_to_u64 z : - two63 <= z < two63 -> as_i64 (to_u64 z) = z.
Proof.
  unfold to_u64, as_i64, two63, two64. intros H.
  destruct (Z.neg_nonneg_cases z) as [Hn | Hp].
  - assert (E : z mod 18446744073709551616 = z + 18446744073709551616) by (symmetry; apply (Z.mod_unique _ _ (-1)); lia).
    rewrite E. destruct (Z.ltb_spec (z + 18446744073709551616) 9223372036854775808); lia.
  - rewrite Z.mod_small by lia. destruct (Z.ltb_spec z 9223372036854775808); lia.
Qed.

Lemma as_i64_inj a b : 0 <= a < two64 -> 0 <= b < two64 -> as_i64 a = as_i64 b -> a = b.
Proof. intros Ha Hb E. rewrite <- (to_u64_as_i64 a Ha), <- (to_u64_as_i64 b Hb), E. reflexivity. Qed.

Lemma wrap_s64_u64 v : 0 <= v < two64 -> wrap_s64 v = as_i64 v.
Proof.
  unfold wrap_s64, as_i64, two63, two64. intros H. destruct (Z.ltb_spec v 9223372036854775808).
  - rewrite Z.mod_small; lia.
  - assert (E : (v + 9223372036854775808) mod 18446744073709551616 = v - 9223372036854775808) by (symmetry; apply (Z.mod_unique _ _ 1); lia).
    rewrite E. lia.
Qed.
Lemma wrap_s64_id z : - two63 <= z < two63 -> wrap_s64 z = z.
Proof. unfold wrap_s64, two63, two64. intros H. rewrite Z.mod_small; lia. Qed.
Lemma wrap_s64_range z : - two63 <= wrap_s64 z < two63.
Proof. unfold wrap_s64, two63, two64. pose proof (Z.mod_pos_bound (z + 9223372036854775808) 18446744073709551616 ltac:(lia)). lia. Qed.
Lemma to_u64_range z : 0 <= to_u64 z < two64.
Proof. unfold to_u64, two64. apply Z.mod_pos_bound. lia. Qed.
Lemma to_u64_id z : 0 <= z < two64 -> to_u64 z = z.
Proof. unfold to_u64. intros. apply Z.mod_small. assumption. Qed.

(* ---- 128 bits (appended by the additions engine, C30): Rust's `u128 as i128` of a v128 constant ---- *)
Definition two127 : Z := 170141183460469231731687303715884105728.            (* 2^127 *)
Definition two128 : Z := 340282366920938463463374607431768211456.            (* 2^128 *)
Lemma two127_pow : two127 = 2 ^ 127. Proof. reflexivity. Qed.
Lemma two128_pow : two128 = 2 ^ 128. Proof. reflexivity. Qed.
Definition to_u128 (z : Z) : Z := z mod two128.
Definition wrap_s128 (z : Z) : Z := (z + two127) mod two128 - two127.
Definition as_i128 (v : Z) : Z := if v <? two127 then v else v - two128.
Definition in_u128 (z : Z) : bool := (0 <=? z) && (z <? two128).
Definition in_i128 (z : Z) : bool := (- two127 <=? z) && (z <? two127).
Lemma in_u128_iff z : in_u128 z = true <-> 0 <= z < two128.
Proof. unfold in_u128. rewrite Bool.andb_true_iff, Z.leb_le, Z.ltb_lt. tauto. Qed.
Lemma in_i128_iff z : in_i128 z = true <-> - two127 <= z < two127.
Proof. unfold in_i128. rewrite Bool.andb_true_iff, Z.leb_le, Z.ltb_lt. tauto. Qed.

Lemma as_i128_range v : 0 <= v < two128 -> - two127 <= as_i128 v < two127.
Proof. unfold as_i128, two127, two128. intros H. destruct (Z.ltb_spec v 170141183460469231731687303715884105728); lia. Qed.
Lemma to_u128_as_i128 v : 0 <= v < two128 -> to_u128 (as_i128 v) = v.
Proof.
  unfold to_u128, as_i128, two127, two128. intros H. destruct (Z.ltb_spec v 170141183460469231731687303715884105728).
  - apply Z.mod_small. lia.
  - symmetry. apply (Z.mod_unique _ _ (-1)); lia.
Qed.
Lemma as_i128_to_u128 z : - two127 <= z < two127 -> as_i128 (to_u128 z) = z.
Proof.
  unfold to_u128, as_i128, two127, two128. intros H.
  destruct (Z.neg_nonneg_cases z) as [Hn | Hp].
  - assert (E : z mod 340282366920938463463374607431768211456 = z + 340282366920938463463374607431768211456)
      by (symmetry; apply (Z.mod_unique _ _ (-1)); lia).
    rewrite E. destruct (Z.ltb_spec (z + 340282366920938463463374607431768211456) 170141183460469231731687303715884105728); lia.
  - rewrite Z.mod_small by lia. destruct (Z.ltb_spec z 170141183460469231731687303715884105728); lia.
Qed.
Lemma as_i128_inj a b : 0 <= a < two128 -> 0 <= b < two128 -> as_i128 a = as_i128 b -> a = b.
Proof. intros Ha Hb E. rewrite <- (to_u128_as_i128 a Ha), <- (to_u128_as_i128 b Hb), E. reflexivity. Qed.
(* Rust's `v as i128` on a u128 is that reinterpretation *)
Lemma wrap_s128_u128 v : 0 <= v < two128 -> wrap_s128 v = as_i128 v.
Proof.
  unfold wrap_s128, as_i128, two127, two128. intros H. destruct (Z.ltb_spec v 170141183460469231731687303715884105728).
  - rewrite Z.mod_small; lia.
  - assert (E : (v + 170141183460469231731687303715884105728) mod 340282366920938463463374607431768211456
                = v - 170141183460469231731687303715884105728) by (symmetry; apply (Z.mod_unique _ _ 1); lia).
    rewrite E. lia.
Qed.
Lemma wrap_s128_id z : - two127 <= z < two127 -> wrap_s128 z = z.
Proof. unfold wrap_s128, two127, two128. intros H. rewrite Z.mod_small; lia. Qed.
Lemma wrap_s128_range z : - two127 <= wrap_s128 z < two127.
Proof.
  unfold wrap_s128, two127, two128.
  pose proof (Z.mod_pos_bound (z + 170141183460469231731687303715884105728) 340282366920938463463374607431768211456 ltac:(lia)). lia.
Qed.
Lemma to_u128_range z : 0 <= to_u128 z < two128.
Proof. unfold to_u128, two128. apply Z.mod_pos_bound. lia. Qed.
Lemma to_u128_id z : 0 <= z < two128 -> to_u128 z = z.
Proof. unfold to_u128. intros. apply Z.mod_small. assumption. Qed.
(* the bits survive the cast: the unsigned reading of `u as i128` is u again *)
Lemma to_u128_wrap_s128 u : 0 <= u < two128 -> to_u128 (wrap_s128 u) = u.
Proof. intros H. rewrite wrap_s128_u128 by exact H. apply to_u128_as_i128. exact H. Qed.
