(* Shared utilities: the report combinator every engine's Check module uses. *)
From Coq Require Import List NArith Bool.
Import ListNotations.
Local Open Scope N_scope.

(* a verdict on one case: (model agrees with the implementation, the case is inside the property's
   domain, the property holds of the *observed* output, known-finding classes the input belongs to) *)
Definition verdict := (bool * bool * bool * list N)%type.

Record report := mkReport {
  r_total : N;
  r_mismatch : list N;          (* model and implementation disagree *)
  r_fail : list N;              (* in domain, property fails on the observed output, and either no known class
                                   or the output is not the one the model of the known defect predicts *)
  r_known : list (N * N);       (* in domain, property fails, inside a known class: (case, class) *)
  r_in_domain : N;
  r_known_clean : N }.          (* in domain, inside a known class, but the property holds *)

Fixpoint run_go {A} (v : A -> verdict) (i : N) (cs : list A) (acc : report) : report :=
  match cs with
  | [] => mkReport (r_total acc) (rev (r_mismatch acc)) (rev (r_fail acc)) (rev (r_known acc))
                   (r_in_domain acc) (r_known_clean acc)
  | c :: cs' =>
      let '(ag, dom, holds, known) := v c in
      let mm := if ag then r_mismatch acc else i :: r_mismatch acc in
      let bad := dom && negb holds in
      (* a known class excuses a failure only when the implementation behaves exactly as the model of the
         known defect predicts ([ag]); a failing case that also disagrees with the model is a different violation *)
      let excused := match known with [] => false | _ => ag end in
      let fl := if bad && negb excused then i :: r_fail acc else r_fail acc in
      let kn := if bad && excused then map (fun k => (i, k)) known ++ r_known acc else r_known acc in
      let kc := if dom && holds then match known with [] => r_known_clean acc | _ => r_known_clean acc + 1 end
                else r_known_clean acc in
      run_go v (i + 1) cs' (mkReport (r_total acc + 1) mm fl kn (if dom then r_in_domain acc + 1 else r_in_domain acc) kc)
  end.
Definition run_report {A} (v : A -> verdict) (cs : list A) : N * list N * list N * list (N * N) * N * N :=
  let r := run_go v 0 cs (mkReport 0 [] [] [] 0 0) in
  (r_total r, r_mismatch r, r_fail r, r_known r, r_in_domain r, r_known_clean r).
