(* C17 — function entry/exit probes fire once per call on every normal path.  Statements only. *)
From Coq Require Import String.
From Coq Require Import List Arith NArith ZArith Bool.
Import ListNotations.
From Orca Require Import Util Flat Lowering CheckLow Tree TreeLower WasmP SemProofs EvalP Sim SimFn Peel SimFnReal CheckSem KnownSem SelfCase Commute Flatten GenAddInstr GenAddInstrProofs.

(* The specification [exec_fn .. true] fires the entry probes before any original instruction (they are part of
   the before-probes of instruction 0), and the exit probes X once when the body falls off its end, once when it
   returns, once when it branches to the function's outermost label (from any depth), and immediately before an
   explicit unreachable / throw / return_call.  For every body, every plan of straight-line probe code with
   neutral exit probes, every start configuration and every fuel: the plain interpreter on the lowered function
   -- the lowered body wrapped in a block of the function's result type, followed by X -- returns the same
   results (multi-value: the first nres stack values), the same globals and the same event trace, and traps in
   the same cases.  Scope: no semantic-after on branch instructions ([nbl]); branch depths in range. *)
Theorem C17_function_entry_exit_lowering_correct :
  forall (ftypes : list (nat * nat)) (F : nat -> flags) (X : list fop),
    pcode X ->
    (forall i, pcode (bef F i) /\ pcode (aft F i) /\ pcode (be_ F i) /\ pcode (bx_ F i) /\ pcode (sa_ F i)) ->
    neutral X ->
    forall (ty : N) (nres : nat), arity ftypes (BtFunc ty) = (0, nres)%nat ->
    forall fuel body fe c ob,
      exec_fn ftypes F [] X true fuel body fe c = ob -> ob <> OFuel -> nbl F body -> stack c = [] ->
      (forall n p c', exec ftypes F X true fuel false body c = OBr n p c' -> n = 0%nat) ->
      exists fuel' ob', exec_fn ftypes nof [] [] false fuel' (fn_tree F X ty body fe) 0 c = ob' /\ res_eq nres ob ob'.
Proof. exact sim_fn. Qed.
Print Assumptions C17_function_entry_exit_lowering_correct.

(* The same for the placement the implementation really emits -- the before-code of instruction 0 (the user's
   before-probes, then the entry probes) in front of the wrapper block's opener:
       real_tree = pre ++ [block ty (lowered body without instruction 0's before-code ++ bef(final end)) end] ++ X.
   CheckSem.tree_tie compares exactly this tree with the emitted body on every sampled program. *)
Theorem C17_real_placement_correct :
  forall (ftypes : list (nat * nat)) (F : nat -> flags) (X : list fop),
    pcode X ->
    (forall i, pcode (bef F i) /\ pcode (aft F i) /\ pcode (be_ F i) /\ pcode (bx_ F i) /\ pcode (sa_ F i)) ->
    neutral X -> neutral (bef F 0) ->
    forall (ty : N) (nres : nat), arity ftypes (BtFunc ty) = (0, nres)%nat ->
    forall fuel x rest fe c ob,
      exec_fn ftypes F [] X true fuel (x :: rest) fe c = ob -> ob <> OFuel -> nbl F (x :: rest) -> stack c = [] ->
      head_at_0 x -> ~ In 0 (positions rest) -> fe <> 0%nat ->
      (forall c1 n p c', exec ftypes (F0 F) X true fuel false (x :: rest) c1 = OBr n p c' -> n = 0%nat) ->
      exists fuel' ob', exec_fn ftypes nof [] [] false fuel' (real_tree F X ty (x :: rest) fe) 0 c = ob' /\ res_eq nres ob ob'.
Proof. exact sim_fn_real. Qed.
Print Assumptions C17_real_placement_correct.

(* the exit probes are spliced in front of every return / return_call / unreachable / throw of the body *)
Theorem C17_exit_before_every_exit_instruction :
  forall F X i o, is_exit_op o = true -> lower F X (IPlain i o) = ins (bef F i) ++ ins X ++ [IPlain i o] ++ ins (aft F i).
Proof. intros F X i o H. cbn [lower]. rewrite H. reflexivity. Qed.
Print Assumptions C17_exit_before_every_exit_instruction.

(* [is_exit_op] is the operator list of resolve_function_exit as the translator reads it from /repo/src/ir/module/mod.rs on
   every check (return, return_call, return_call_indirect, return_call_ref, unreachable, throw, rethrow, throw_ref,
   resume_throw), and each listed operator has a constructor of its own in the model *)
Theorem C17_exit_instruction_list_is_the_model :
  (forall o n, In n (fop_names o) -> mem n gen_exit_ops = is_exit_op o) /\
  forallb (fun n => existsb (fun o => mem n (fop_names o)) representative_ops) gen_exit_ops = true.
Proof.
  split; [intros o n H; exact (proj2 (proj2 (classification_is_the_source_lists o n H))) | vm_compute; reflexivity].
Qed.
Print Assumptions C17_exit_instruction_list_is_the_model.

(* non-vacuity: a function with a return at depth 2, a branch to the function label from depth 1 and a
   fall-through path; entry and exit probes fire exactly once on each of the three paths *)
Example C17_nonvacuous :
  let body := [FBlock BtEmpty; FLocalGet 0; FIf BtEmpty; FConst 5; FReturn; FEnd; FLocalGet 1; FBrIf 1; FConst 7; FOther 3; FEnd;
               FConst 9; FEnd] in
  let l := self_l 2 4 (LOG 500) (LOG 600) body [] 0 false in
  check (fun _ => true) (self_s 1 l [[1; 0]; [0; 1]; [0; 0]]%Z) = VSame /\ agree_sem (self_s 1 l []) = true /\
  match parse_body body, flagged_body (self_s 1 l []) with
  | Some (t, fe), Some fb =>
      map (fun args => match exec_fn [(1,0);(2,1);(0,1)]%nat (fun i => if Nat.eqb i 0 then w_before (LOG 500) (flags_fn fb i) else flags_fn fb i)
                               [] (LOG 600) true 200 t fe (mkC (args ++ [0;0;0;0])%Z [0%Z] [] []) with
                       | OReturn c => trace c | _ => [] end) [[1; 0]; [0; 1]; [0; 0]]%Z
  | _, _ => [] end = [[500; 600]; [500; 600]; [500; 7; 600]]%Z.
Proof. vm_compute. repeat split; reflexivity. Qed.

(* ---- end to end on the mirror of the implementation (Proofs/Flatten.v) ----
   [resolve] is the executable mirror of Module::resolve_special_instrumentation (one left-to-right pass over the FLAT
   instruction vector with its block stack and the two pending-probe maps) and [emit] the mirror of the encoder's
   plain lowering; the correspondence run ties both to /repo on every check.  For every flat body that parses,
   every flag assignment without replacements in the fragment [okI] (plain instructions are not structural, no
   semantic-after on branch instructions: the shapes of D16-D18), every entry code and exit code X: the code the mirror emits IS the flattening of a tree on
   which the plain Wasm interpreter reproduces every outcome of the probe-semantics interpreter [exec_fn .. true]
   (results, globals, event trace, traps). *)
Theorem C17_emitted_code_simulates_the_probe_semantics :
  forall ftypes (F : nat -> flags) ops t fe entry X ty nres loc,
  parse_body ops = Some (t, fe) -> nonrepl F -> forallb (okI F) t = true -> t <> [] ->
  let Fe := with0 entry F in
  pcode X ->
  (forall i, pcode (bef Fe i) /\ pcode (aft Fe i) /\ pcode (be_ Fe i) /\ pcode (bx_ Fe i) /\ pcode (sa_ Fe i)) ->
  neutral X -> neutral (bef Fe 0) -> arity ftypes (BtFunc ty) = (0, nres)%nat ->
  exists tree : list instr,
    emit (fst (resolve true entry X ty (flagged F 0 ops) loc)) = flat tree ++ [FEnd]
    /\ forall fuel c ob,
      exec_fn ftypes Fe [] X true fuel t fe c = ob -> ob <> OFuel -> stack c = [] ->
      (forall c1 n p c', exec ftypes (TreeLower.F0 Fe) X true fuel false t c1 = OBr n p c' -> n = 0%nat) ->
      exists fuel' ob', exec_fn ftypes nof [] [] false fuel' tree 0 c = ob' /\ res_eq nres ob ob'.
Proof. exact resolve_flatten_real_sim. Qed.
Print Assumptions C17_emitted_code_simulates_the_probe_semantics.
(* the tree is the one the checker compares with the real output: whenever the observed body equals the mirror's,
   CheckSem.tree_tie accepts *)
Theorem C17_tree_tie_follows_from_the_correspondence :
  forall (c : scase) b g g', model (s_l c) = Some (b, g) -> c_obs (s_l c) = Some (b, g') -> tree_tie c = true.
Proof. exact tree_tie_of_model. Qed.
Print Assumptions C17_tree_tie_follows_from_the_correspondence.
(* the shape of the former D15 (block-exit on an `if` whose then-arm contains a construct) is inside the theorem:
   the pending exit code is keyed by the if's own block id *)
Example C17_flatten_former_D15_witness_holds :
  frag exF exD15 /\
  emit (fst (resolve true [] [] 0%N (flatF exF exD15 ++ [(FEnd, exF 10)]) (mkLocals 0 0 [])))
  = flat (flat_map (lower exF []) exD15) ++ f_before (exF 10) ++ [FEnd].
Proof. exact resolve_flatten_former_D15_witness_holds. Qed.
