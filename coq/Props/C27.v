(* C27 -- Component round trip preserves structure at any nesting depth.  Statements only.

   Model (Model/Comp.v): [stream] = the inline payload sequence of wasmparser's parse_all, [parse] = the loop of
   Component::parse_comp with its per-level stack, the pushes on the parent's stack, the run-length section log,
   [replay] = Component::encode_comp; [roundtrip sf t = replay sf (parse t)], where [sf] is the table of
   component-type items that wrappers.rs re-encodes differently (D28, D29; empty when there is none);
   [reenc_hit sf t]: some component-type item of t (any depth) has a different image in sf.
   Specification (Check/CheckComp.v): [eqv out t] -- equal normal forms: same kind sequence after merging adjacent
   item sections of one kind, same items in order, same modules / custom / start sections, same component-name
   entries, recursively for nested components.
   [wf t]: per component at most one start section, at most one component-name entry of kind 0 and no unknown
   name subsection (what the validator / binary format guarantee).
   [known_D14 t]: some component strictly below the root has more nested bodies at depth >= 2 below it than its
   closing chain absorbs (deep > chain), see CheckComp.v.

   The full-strength statement "forall t, wf t -> roundtrip t equivalent to t" is FALSE of the faithful model
   (C27_refuted_D14, C27_refuted_D14_panic, C27_refuted_D28); what holds, for every tree of any width, any
   interleaving and ANY depth, is the statement outside D14 and for trees without a re-encoded item (D28 / D29). *)
From Coq Require Import List NArith Bool.
Import ListNotations.
From Orca Require Import Util Comp CheckComp CompProofs.

(* The round trip of the model is exact outside D14: it yields the normal form of the input with the items
   re-encoded -- for every tree, without a bound on depth or width. *)
Theorem C27_roundtrip_exact :
  forall (sf : list (N * N)) (t : list node),
    wf t = true -> known_D14 t = false -> roundtrip sf t = Some (expect_body sf t).
Proof. exact roundtrip_exact. Qed.
Print Assumptions C27_roundtrip_exact.

(* Hence: outside D14 and without an item that wrappers.rs re-encodes differently (D28, D29), parse-then-encode
   yields a tree equivalent to the input. *)
Theorem C27_roundtrip :
  forall (sf : list (N * N)) (t : list node),
    wf t = true -> known_D14 t = false -> reenc_hit sf t = false ->
    exists out, roundtrip sf t = Some out /\ eqv out t.
Proof. exact roundtrip_equiv. Qed.
Print Assumptions C27_roundtrip.

(* The depth-bounded form of DESIGN.md section 5: nesting depth <= 2 (root = 0) is always outside D14. *)
Theorem C27_depth2 :
  forall (sf : list (N * N)) (t : list node),
    wf t = true -> (depth t <= 2)%nat -> reenc_hit sf t = false ->
    exists out, roundtrip sf t = Some out /\ eqv out t.
Proof. intros sf t Hw Hd. apply roundtrip_equiv; [exact Hw|apply d14_needs_depth3; exact Hd]. Qed.
Print Assumptions C27_depth2.

(* The unrestricted statement is refuted by the smallest witness: a section follows the only child of a
   component that has a grandchild -- (component (component (component (core module)) (type ..))). *)
Theorem C27_refuted_D14 :
  exists t, wf t = true /\ known_D14 t = true /\ reenc_hit [] t = false /\
            exists out, roundtrip [] t = Some out /\ ~ eqv out t.
Proof. exists witness_D14. exact roundtrip_refuted_D14. Qed.
Print Assumptions C27_refuted_D14.

(* A D14 leak can also end in a panic: the child's start section leaks into a parent that has its own, and
   encode_comp asserts start_section.len() == 1. *)
Theorem C27_refuted_D14_panic :
  exists t, wf t = true /\ known_D14 t = true /\ roundtrip [] t = None.
Proof. exists witness_D14_panic. exact roundtrip_refuted_D14_panic. Qed.
Print Assumptions C27_refuted_D14_panic.

(* The re-encoding table [sf] (component-type item |-> the item as wrappers.rs re-encodes it) used to describe two
   genuine defects, D28 (payload-less stream inside a type declaration -> future) and D29 (explicit core rec group
   inside an instance type -> separate types).  Both are repaired in /repo ("fix:" commits), the harness now
   supplies the empty table, and a deviation of the real output is a model/implementation mismatch.  The statement
   below records why such a deviation matters: an item that is re-encoded differently breaks the round trip. *)
Theorem C27_a_reencoded_item_breaks_the_round_trip :
  exists sf t, wf t = true /\ known_D14 t = false /\ reenc_hit sf t = true /\
               exists out, roundtrip sf t = Some out /\ ~ eqv out t.
Proof. exists [(1, 2)]%N, [NItems ICompType [1%N]]. exact roundtrip_refuted_D28. Qed.
Print Assumptions C27_a_reencoded_item_breaks_the_round_trip.

(* Whenever the implementation's observed output agrees with the model (correspondence check) on a case inside the
   domain and outside every known class (D14), and the validator accepts the output, the independent property checker
   accepts it. *)
Theorem C27_checker_sound :
  forall c : ccase,
    agree c = true -> domain27 c = true -> classes27 c = [] -> obs_valid c = true -> holds27 c = true.
Proof. exact checker27_sound. Qed.
Print Assumptions C27_checker_sound.

(* the boolean checker decides the specification *)
Theorem C27_eqvb_reflects : forall a b, eqvb a b = true <-> eqv a b.
Proof. exact eqvb_eqv. Qed.
Print Assumptions C27_eqvb_reflects.

(* non-vacuity: a depth-3 tree (harmless: nothing follows the last child) with adjacent item sections of one kind,
   a name section in the middle, a start section and nested modules satisfies all hypotheses, and its round trip
   is the expected normal form *)
Example C27_nonvacuous :
  let t := [NItems IImport [1]; NItems IImport [2; 3]; NNames [(9, 4); (0, 5)]; NItems IAlias [6];
            NComp [NMod 7 [20]; NItems ICoreInst [8]; NItems ICoreInst []; NComp [NCustom 9; NComp [NMod 10 []]]];
            NStart 11; NMod 12 []; NMod 13 []]%N in
  wf t = true /\ known_D14 t = false /\ reenc_hit [] t = false /\ depth t = 4%nat /\
  roundtrip [] t
  = Some [NItems IImport [1; 2; 3]; NItems IAlias [6];
          NComp [NMod 7 []; NItems ICoreInst [8]; NComp [NCustom 9; NComp [NMod 10 []; NNames []]; NNames []]; NNames []];
          NStart 11; NMod 12 []; NMod 13 []; NNames [(0, 5); (9, 4)]]%N.
Proof. vm_compute. repeat split; reflexivity. Qed.
