(* C27 -- Component round trip preserves structure at any nesting depth.  Statements only.

   Model (Model/Comp.v): [stream] = the inline payload sequence of wasmparser's parse_all, [parse] = the loop of
   Component::parse_comp with its per-level stack (while the payloads of a nested body are skipped, a ModuleSection /
   ComponentSection payload pushes and an End pops), the run-length section log,
   [replay] = Component::encode_comp; [roundtrip sf t = replay sf (parse t)], where [sf] is the table of
   component-type items that wrappers.rs re-encodes differently (empty nowadays: D28 and D29 are repaired);
   [reenc_hit sf t]: some component-type item of t (any depth) has a different image in sf.
   Specification (Check/CheckComp.v): [eqv out t] -- equal normal forms: same kind sequence after merging adjacent
   item sections of one kind, same items in order, same modules / custom / start sections, same component-name
   entries, recursively for nested components.
   [wf t]: per component at most one start section, at most one component-name entry of kind 0 and no unknown
   name subsection (what the validator / binary format guarantee).

   The full-strength statement "forall t, wf t -> roundtrip t equivalent to t" holds of the model: for every tree of
   any width, any interleaving and ANY depth.  (It used to be false: parse_comp skipped a nested body with a stack on
   which the child had pushed one entry per direct child of its own, so that sections behind a body at depth >= 2
   leaked into the parent -- D14, repaired by "fix: skip nested modules and components by following their nesting,
   at any depth".  The two former refutation witnesses are kept below as positive examples.) *)
From Coq Require Import List NArith Bool.
Import ListNotations.
From Orca Require Import Util Comp CheckComp CompProofs.

(* The round trip of the model is exact: it yields the normal form of the input with the items
   re-encoded -- for every well-formed tree, without a bound on depth or width. *)
Theorem C27_roundtrip_exact :
  forall (sf : list (N * N)) (t : list node),
    wf t = true -> roundtrip sf t = Some (expect_body sf t).
Proof. exact roundtrip_exact. Qed.
Print Assumptions C27_roundtrip_exact.

(* Hence: without an item that wrappers.rs re-encodes differently (there is none since the repair of D28 and D29: the
   harness supplies the empty table, for which [reenc_hit [] t = false] whatever t is), parse-then-encode yields a
   tree equivalent to the input, at any nesting depth. *)
Theorem C27_roundtrip :
  forall (sf : list (N * N)) (t : list node),
    wf t = true -> reenc_hit sf t = false ->
    exists out, roundtrip sf t = Some out /\ eqv out t.
Proof. exact roundtrip_equiv. Qed.
Print Assumptions C27_roundtrip.

(* The depth-bounded form of DESIGN.md section 5 (nesting depth <= 2, root = 0): now merely an instance of
   C27_roundtrip, kept under its name. *)
Theorem C27_depth2 :
  forall (sf : list (N * N)) (t : list node),
    wf t = true -> (depth t <= 2)%nat -> reenc_hit sf t = false ->
    exists out, roundtrip sf t = Some out /\ eqv out t.
Proof. intros sf t Hw _. apply roundtrip_equiv. exact Hw. Qed.
Print Assumptions C27_depth2.

(* The smallest witness of the former defect D14 -- a section follows the only child of a component that has a
   grandchild: (component (component (component (core module)) (type ..))), whose type section used to be duplicated
   into the root -- now round-trips to an equivalent tree. *)
Theorem C27_former_D14_witness_holds :
  let t := [NComp [NComp [NMod 1 []]; NItems ICompType [2]]]%N in
  wf t = true /\ depth t = 3%nat /\ reenc_hit [] t = false /\
  exists out, roundtrip [] t = Some out /\ eqv out t.
Proof. exact roundtrip_former_D14_witness. Qed.
Print Assumptions C27_former_D14_witness_holds.

(* The witness on which a D14 leak ended in a panic -- the child's start section leaked into a parent that has its
   own, and encode_comp asserts start_section.len() == 1 -- now round-trips to an equivalent tree as well. *)
Theorem C27_former_D14_panic_witness_holds :
  let t := [NItems IImport [1]; NComp [NItems IImport [2]; NComp [NMod 3 []]; NStart 4]; NStart 5]%N in
  wf t = true /\ depth t = 3%nat /\ reenc_hit [] t = false /\
  exists out, roundtrip [] t = Some out /\ eqv out t.
Proof. exact roundtrip_former_D14_panic_witness. Qed.
Print Assumptions C27_former_D14_panic_witness_holds.

(* The re-encoding table [sf] (component-type item |-> the item as wrappers.rs re-encodes it) used to describe two
   genuine defects, D28 (payload-less stream inside a type declaration -> future) and D29 (explicit core rec group
   inside an instance type -> separate types).  Both are repaired in /repo ("fix:" commits), the harness now
   supplies the empty table, and a deviation of the real output is a model/implementation mismatch.  The statement
   below records why such a deviation matters: an item that is re-encoded differently breaks the round trip. *)
Theorem C27_a_reencoded_item_breaks_the_round_trip :
  exists sf t, wf t = true /\ reenc_hit sf t = true /\
               exists out, roundtrip sf t = Some out /\ ~ eqv out t.
Proof. exists [(1, 2)]%N, [NItems ICompType [1%N]]. exact roundtrip_refuted_D28. Qed.
Print Assumptions C27_a_reencoded_item_breaks_the_round_trip.

(* Whenever the implementation's observed output agrees with the model (correspondence check) on a case inside the
   domain and outside every known class (none is left: [classes27] only reports re-encoded items, and the table is
   empty), and the validator accepts the output, the independent property checker accepts it. *)
Theorem C27_checker_sound :
  forall c : ccase,
    agree c = true -> domain27 c = true -> classes27 c = [] -> obs_valid c = true -> holds27 c = true.
Proof. exact checker27_sound. Qed.
Print Assumptions C27_checker_sound.

(* the boolean checker decides the specification *)
Theorem C27_eqvb_reflects : forall a b, eqvb a b = true <-> eqv a b.
Proof. exact eqvb_eqv. Qed.
Print Assumptions C27_eqvb_reflects.

(* non-vacuity: a depth-4 tree with adjacent item sections of one kind, a name section in the middle, a start section,
   nested modules, and sections that FOLLOW a nested component which itself has nested bodies (the shape that used
   to leak) satisfies all hypotheses, and its round trip is the expected normal form *)
Example C27_nonvacuous :
  let t := [NItems IImport [1]; NItems IImport [2; 3]; NNames [(9, 4); (0, 5)]; NItems IAlias [6];
            NComp [NMod 7 [20]; NItems ICoreInst [8]; NItems ICoreInst [];
                   NComp [NCustom 9; NComp [NMod 10 []; NMod 14 []]; NItems ICompType [15]];
                   NItems IExport [16]; NStart 17];
            NStart 11; NMod 12 []; NMod 13 []]%N in
  wf t = true /\ reenc_hit [] t = false /\ depth t = 4%nat /\
  roundtrip [] t
  = Some [NItems IImport [1; 2; 3]; NItems IAlias [6];
          NComp [NMod 7 []; NItems ICoreInst [8];
                 NComp [NCustom 9; NComp [NMod 10 []; NMod 14 []; NNames []]; NItems ICompType [15]; NNames []];
                 NItems IExport [16]; NStart 17; NNames []];
          NStart 11; NMod 12 []; NMod 13 []; NNames [(0, 5); (9, 4)]]%N.
Proof. vm_compute. repeat split; reflexivity. Qed.
