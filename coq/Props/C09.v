(* C09 — deletion removes exactly the deleted entity.  Statements only. *)
From Coq Require Import List Arith NArith Bool.
Import ListNotations.
From Orca Require Import Util Reindex Reorg ReidxProofs CheckReidx SelfReidx.
Local Open Scope N_scope.

(* after recalculate_ids a deleted item survives in the index space only as a later-region import (D06) or
   as a converted original import (D26); every live item is kept *)
Theorem C09_deleted_survivors :
  forall (orig : nat) (l : list item) (i : item), In i (spec orig l) -> it_del i = true ->
    (is_import i = true /\ In i (skipn orig l)) \/ (is_local i = true /\ In i (firstn orig l)).
Proof. exact spec_deleted_survivors. Qed.
Print Assumptions C09_deleted_survivors.
Theorem C09_live_items_kept :
  forall (orig : nat) (l : list item) (i : item), In i l -> it_del i = false -> In i (spec orig l).
Proof. exact spec_keeps_live. Qed.
Print Assumptions C09_live_items_kept.
(* a reference whose id no remaining item carries has no map entry: encode panics instead of emitting an index *)
Theorem C09_dangling_reference_is_loud : forall l k, ~ In k (map it_id l) -> lookup (mapping l) k = None.
Proof. exact mapping_absent. Qed.
Print Assumptions C09_dangling_reference_is_loud.

(* D26: an import converted to a local and then deleted stays among the locals and shifts later maps *)
Example C09_refuted_D26 :
  let c := self_r [(0, 1); (0, 2)] [99] [] [] [ImportToLocal 0 31; Delete SF 0; ImportToLocal 1 32] [mkSite KCode SF 1 (OFunc 2)] in
  agree c = true /\ dom_of (verdict09 c) = true /\ holds_of (verdict09 c) = false /\ known_D26 c = true.
Proof. vm_compute. repeat split; reflexivity. Qed.
(* loud failure: a live reference to a deleted function makes encode panic *)
Example C09_loud :
  let c := self_r [(0, 1)] [11; 12; 99] [] [] [Delete SF 1] [mkSite KCode SF 1 (OFunc 3)] in
  agree c = true /\ o_enc c = None /\ dom_of (verdict09 c) = true /\ holds_of (verdict09 c) = true.
Proof. vm_compute. repeat split; reflexivity. Qed.
Example C09_nonvacuous :
  let c := self_r [(0, 1)] [11; 12; 99] [5; 6] [7] [Delete SF 1; Delete SG 0; AddLocal SM 8; Delete SM 0]
             [mkSite KCode SF 2 (OFunc 3); mkSite KCode SG 1 (OFunc 3); mkSite KCode SM 1 (OFunc 3)] in
  agree c = true /\ dom_of (verdict09 c) = true /\ holds_of (verdict09 c) = true.
Proof. vm_compute. repeat split; reflexivity. Qed.
