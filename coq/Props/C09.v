(* C09 — deletion removes exactly the deleted entity.  Statements only. *)
From Coq Require Import List Arith NArith Bool.
Import ListNotations.
From Orca Require Import Util Reindex Reorg ReidxProofs ReidxBind ReidxInv CheckReidx SelfReidx.
Local Open Scope N_scope.

(* after recalculate_ids no deleted item survives in the index space, whatever its kind and region (before the
   repair of D06 / D26 a deleted later-region import and a deleted converted original import did); every live item
   is kept *)
Theorem C09_deleted_survivors :
  forall (orig : nat) (l : list item) (i : item), In i (spec orig l) -> it_del i = true -> False.
Proof. exact spec_deleted_survivors. Qed.
Print Assumptions C09_deleted_survivors.
Theorem C09_live_items_kept :
  forall (orig : nat) (l : list item) (i : item), In i l -> it_del i = false -> In i (spec orig l).
Proof. exact spec_keeps_live. Qed.
Print Assumptions C09_live_items_kept.
(* a reference whose id no remaining item carries has no map entry: encode panics instead of emitting an index *)
Theorem C09_dangling_reference_is_loud : forall l k, ~ In k (map it_id l) -> lookup (mapping l) k = None.
Proof. exact mapping_absent. Qed.
Print Assumptions C09_dangling_reference_is_loud.

(* former D26 (an import converted to a local and then deleted stayed among the locals and shifted later maps;
   repaired): the witness now satisfies the property *)
Example C09_former_D26_witness_holds :
  let c := self_r [(0, 1); (0, 2)] [99] [] [] [ImportToLocal 0 31; Delete SF 0; ImportToLocal 1 32] [mkSite KCode SF 1 (OFunc 2)] in
  agree c = true /\ dom_of (verdict09 c) = true /\ holds_of (verdict09 c) = true.
Proof. vm_compute. repeat split; reflexivity. Qed.
(* former D06 on a deletion history *)
Example C09_former_D06_witness_holds :
  let c := self_r [] [11; 99] [] [] [AddImport SF 21; Delete SF 2] [mkSite KCode SF 0 (OFunc 1)] in
  agree c = true /\ dom_of (verdict09 c) = true /\ holds_of (verdict09 c) = true.
Proof. vm_compute. repeat split; reflexivity. Qed.
(* loud failure: a live reference to a deleted function makes encode panic *)
Example C09_loud :
  let c := self_r [(0, 1)] [11; 12; 99] [] [] [Delete SF 1] [mkSite KCode SF 1 (OFunc 3)] in
  agree c = true /\ o_enc c = None /\ dom_of (verdict09 c) = true /\ holds_of (verdict09 c) = true.
Proof. vm_compute. repeat split; reflexivity. Qed.
Example C09_nonvacuous :
  let c := self_r [(0, 1)] [11; 12; 99] [5; 6] [7] [Delete SF 1; Delete SG 0; AddLocal SM 8; Delete SM 0]
             [mkSite KCode SF 2 (OFunc 3); mkSite KCode SG 1 (OFunc 3); mkSite KCode SM 1 (OFunc 3)] in
  agree c = true /\ dom_of (verdict09 c) = true /\ holds_of (verdict09 c) = true.
Proof. vm_compute. repeat split; reflexivity. Qed.

(* ---- over every reachable state (Proofs/ReidxInv.v): the recomputed index space is
   exactly the live items, each once, the emitted module lists exactly their entities in that order, every live
   item's id maps to its position, a deleted item's id has no entry (a remaining reference fails loudly), and
   index_space never hits its own length assertion *)
Theorem C09_index_space_is_exactly_the_live_items :
  forall m x, wf m ->
  forall l mp, index_space (get_sp m x) = Ok (l, mp) ->
  space_of_model m l x = map it_fp l /\ NoDup (map it_id l) /\
  (forall it, In it l <-> In it (s_items (get_sp m x)) /\ it_del it = false) /\
  (forall p it, nth_error l p = Some it -> lookup mp (it_id it) = Some (N.of_nat p)).
Proof. exact wf_space_is_index_space. Qed.
Print Assumptions C09_index_space_is_exactly_the_live_items.
Theorem C09_deleted_ids_are_unmapped :
  forall m x, wf m ->
  forall l mp, index_space (get_sp m x) = Ok (l, mp) ->
  forall id, (forall it, In it (s_items (get_sp m x)) -> it_id it = id -> it_del it = true) -> lookup mp id = None.
Proof. exact wf_deleted_unmapped. Qed.
Print Assumptions C09_deleted_ids_are_unmapped.
Theorem C09_wf_reached_by_every_history :
  forall h m rets m' rets' b, wf m -> run_pref m h rets = (m', rets', b) -> wf m'.
Proof. exact run_pref_wf. Qed.
Print Assumptions C09_wf_reached_by_every_history.
Theorem C09_index_space_total : forall m x, wf m -> exists l mp, index_space (get_sp m x) = Ok (l, mp).
Proof. exact wf_index_space_total. Qed.
Print Assumptions C09_index_space_total.
