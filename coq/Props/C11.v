(* C11 — converting a local function to an import redirects all its uses.  Statements only. *)
From Coq Require Import List Arith NArith Bool.
Import ListNotations.
From Orca Require Import Util Reindex Reorg ReidxProofs ReidxBind ReidxInv CheckReidx SelfReidx.
Local Open Scope N_scope.

(* the index-space theorems are shared by the three re-indexed spaces (functions, globals, memories) *)
Theorem C11_index_space_closed_form :
  forall s : space, s_recalc s = true -> (N.to_nat (s_num s - s_added s) <= length (s_items s))%nat ->
    forall l m, index_space s = Ok (l, m) ->
      l = spec (N.to_nat (s_num s - s_added s)) (s_items s) /\ m = mapping l.
Proof. exact index_space_closed_form. Qed.
Print Assumptions C11_index_space_closed_form.
Theorem C11_mapping_position :
  forall l p it, NoDup (map it_id l) -> nth_error l p = Some it -> lookup (mapping l) (it_id it) = Some (N.of_nat p).
Proof. exact mapping_pos. Qed.
Print Assumptions C11_mapping_position.

(* former D02 (conversions in descending order, or mixed with add_import_func: the import section listed the new
   imports in call order, the index space in function-vector order; repaired: the import section follows the index
   space): the witnesses now satisfy the property *)
Example C11_former_D02_witness_holds :
  let c := self_r [] [11; 12; 99] [] [] [LocalToImport 1 21; LocalToImport 0 22]
             [mkSite KCode SF 0 (OFunc 2); mkSite KCode SF 1 (OFunc 2)] in
  agree c = true /\ dom_of (verdict11 c) = true /\ holds_of (verdict11 c) = true
  /\ option_map e_imports (o_enc c) = Some [(0, 22); (0, 21)].
Proof. vm_compute. repeat split; reflexivity. Qed.
Example C11_former_D02_mixed_witness_holds :
  let c := self_r [] [11; 12; 99] [] [] [AddImport SF 21; LocalToImport 0 22]
             [mkSite KCode SF 0 (OFunc 2); mkSite KCode SF 3 (OFunc 2); mkSite KCode SF 1 (OFunc 2)] in
  agree c = true /\ dom_of (verdict11 c) = true /\ holds_of (verdict11 c) = true
  /\ option_map e_imports (o_enc c) = Some [(0, 22); (0, 21)].
Proof. vm_compute. repeat split; reflexivity. Qed.
Example C11_nonvacuous :
  let c := self_r [(0, 1)] [11; 12; 99] [] [] [LocalToImport 2 31]
             [mkSite KCode SF 1 (OFunc 3); mkSite KCode SF 0 (OFunc 3); mkSite KCode SF 2 (OFunc 3)] in
  agree c = true /\ dom_of (verdict11 c) = true /\ holds_of (verdict11 c) = true.
Proof. vm_compute. repeat split; reflexivity. Qed.

(* ---- over every reachable state (Proofs/ReidxInv.v): after a successful convert_local_fn_to_import of the
   local function id with an import of fingerprint fp, the id (which every former use
   carries) is mapped to the index at which the emitted module has exactly that import *)
Theorem C11_converted_function_id_designates_the_import :
  forall m id fp m' r it, wf m -> Reindex.step m (LocalToImport id fp) = Ok (m', r) ->
  nthN (s_items (m_f m)) id = Some it -> is_local it = true ->
  forall l mp, index_space (m_f m') = Ok (l, mp) ->
  exists q, lookup mp id = Some q /\ nthN (space_of_model m' l SF) q = Some fp.
Proof. exact l2i_binding. Qed.
Print Assumptions C11_converted_function_id_designates_the_import.
Theorem C11_wf_is_an_invariant_of_every_edit :
  forall m o m' r, wf m -> Reindex.step m o = Ok (m', r) -> wf m'.
Proof. exact step_wf. Qed.
Print Assumptions C11_wf_is_an_invariant_of_every_edit.
