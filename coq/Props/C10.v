(* C10 — replacing an import with a built function redirects all its uses.  Statements only. *)
From Coq Require Import List Arith NArith Bool.
Import ListNotations.
From Orca Require Import Util Reindex Reorg ReidxProofs ReidxBind ReidxInv CheckReidx SelfReidx.
Local Open Scope N_scope.

(* the index-space theorems are shared by the three re-indexed spaces (functions, globals, memories) *)
Theorem C10_index_space_closed_form :
  forall s : space, s_recalc s = true -> (N.to_nat (s_num s - s_added s) <= length (s_items s))%nat ->
    forall l m, index_space s = Ok (l, m) ->
      l = spec (N.to_nat (s_num s - s_added s)) (s_items s) /\ m = mapping l.
Proof. exact index_space_closed_form. Qed.
Print Assumptions C10_index_space_closed_form.
Theorem C10_mapping_position :
  forall l p it, NoDup (map it_id l) -> nth_error l p = Some it -> lookup (mapping l) (it_id it) = Some (N.of_nat p).
Proof. exact mapping_pos. Qed.
Print Assumptions C10_mapping_position.

(* former D07 (replace_import_in_module used the ImportsID as the FunctionID: with a memory import in front,
   replacing import #1 - the only function import, function index 0 - looked at function 1, a local, and silently
   refused; repaired: the function is resolved through the import): the witness now satisfies the property *)
Example C10_former_D07_witness_holds :
  let c := self_r [(2, 1); (0, 2)] [99] [] [] [ImportToLocal 1 31] [mkSite KCode SF 0 (OFunc 1)] in
  agree c = true /\ dom_of (verdict10 c) = true /\ holds_of (verdict10 c) = true.
Proof. vm_compute. repeat split; reflexivity. Qed.
Example C10_nonvacuous :
  let c := self_r [(0, 1); (0, 2)] [11; 99] [] [] [ImportToLocal 1 31]
             [mkSite KCode SF 1 (OFunc 3); mkSite KCode SF 0 (OFunc 3); mkSite KCode SF 2 (OFunc 3)] in
  agree c = true /\ dom_of (verdict10 c) = true /\ holds_of (verdict10 c) = true.
Proof. vm_compute. repeat split; reflexivity. Qed.

(* ---- over every reachable state (Proofs/ReidxInv.v): after a successful replace_import_in_module of import
   entry k with a body of fingerprint fp, the function id p of the function that was this import (the id
   every former use carries; it differs from k when non-function imports precede it: the function is resolved
   through the import since the repair of D07) is mapped to the index at which the emitted module has exactly that
   body. *)
Theorem C10_replaced_import_id_designates_the_new_body :
  forall m k fp m' r p it, wf m -> Reindex.step m (ImportToLocal k fp) = Ok (m', r) ->
  nthN (s_items (m_f m)) p = Some it -> it_imp it = Some k ->
  forall l mp, index_space (m_f m') = Ok (l, mp) ->
  exists q, lookup mp p = Some q /\ nthN (space_of_model m' l SF) q = Some fp.
Proof. exact i2l_binding. Qed.
Print Assumptions C10_replaced_import_id_designates_the_new_body.
Theorem C10_wf_is_an_invariant_of_every_edit :
  forall m o m' r, wf m -> Reindex.step m o = Ok (m', r) -> wf m'.
Proof. exact step_wf. Qed.
Print Assumptions C10_wf_is_an_invariant_of_every_edit.
