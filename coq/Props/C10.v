(* C10 — replacing an import with a built function redirects all its uses.  Statements only. *)
From Coq Require Import List Arith NArith Bool.
Import ListNotations.
From Orca Require Import Util Reindex Reorg ReidxProofs CheckReidx SelfReidx.
Local Open Scope N_scope.

(* the index-space theorems are shared by the three re-indexed spaces (functions, globals, memories) *)
Theorem C10_index_space_closed_form :
  forall s : space, s_recalc s = true -> (N.to_nat (s_num s - s_added s) <= length (s_items s))%nat ->
    forall l m, index_space s = Ok (l, m) ->
      l = spec (N.to_nat (s_num s - s_added s)) (s_items s) /\ m = mapping l.
Proof. exact index_space_closed_form. Qed.
Print Assumptions C10_index_space_closed_form.
Theorem C10_mapping_position :
  forall l p it, NoDup (map it_id l) -> nth_error l p = Some it -> lookup (mapping l) (it_id it) = Some (N.of_nat p).
Proof. exact mapping_pos. Qed.
Print Assumptions C10_mapping_position.

(* D07: replace_import_in_module uses the ImportsID as the FunctionID: with a memory import in front, replacing
   import #1 (the only function import, function index 0) looks at function 1, a local, and silently refuses *)
Example C10_refuted_D07 :
  let c := self_r [(2, 1); (0, 2)] [99] [] [] [ImportToLocal 1 31] [mkSite KCode SF 0 (OFunc 1)] in
  agree c = true /\ dom_of (verdict10 c) = true /\ holds_of (verdict10 c) = false /\ known_D07 c = true.
Proof. vm_compute. repeat split; reflexivity. Qed.
Example C10_nonvacuous :
  let c := self_r [(0, 1); (0, 2)] [11; 99] [] [] [ImportToLocal 1 31]
             [mkSite KCode SF 1 (OFunc 3); mkSite KCode SF 0 (OFunc 3); mkSite KCode SF 2 (OFunc 3)] in
  agree c = true /\ dom_of (verdict10 c) = true /\ holds_of (verdict10 c) = true.
Proof. vm_compute. repeat split; reflexivity. Qed.
