(* C06 — function references stay bound to the same function across edits.  Statements only.
   (The same theorems about the index space serve C07 and C08: the three spaces share the code.) *)
From Coq Require Import List Arith NArith Bool.
Import ListNotations.
From Orca Require Import Util Reindex Reorg ReidxProofs ReidxBind ReidxInv CheckReidx SelfReidx GenRefers RefersThm ReidxHandles GenReorg GenReorgProofs.
Local Open Scope N_scope.

(* reorganise_generic (the one-pass remove/insert/push loop over a snapshot) in closed form, for every
   vector and every number of original imports: surviving original imports, every later import, live later
   locals, converted original imports. *)
Theorem C06_reorganise_closed_form :
  forall (orig : N) (l : list item), (N.to_nat orig <= length l)%nat ->
    Reindex.reorganise orig l = spec (N.to_nat orig) l.
Proof. exact reorganise_spec_N. Qed.
Print Assumptions C06_reorganise_closed_form.

Theorem C06_index_space_closed_form :
  forall s : space, s_recalc s = true -> (N.to_nat (s_num s - s_added s) <= length (s_items s))%nat ->
    forall l m, index_space s = Ok (l, m) ->
      l = spec (N.to_nat (s_num s - s_added s)) (s_items s) /\ m = mapping l.
Proof. exact index_space_closed_form. Qed.
Print Assumptions C06_index_space_closed_form.

(* the id map sends every item's stored id to the item's new position, is injective, and has no entry for
   an id no remaining item carries (such a reference makes encode panic: loud failure) *)
Theorem C06_mapping_position :
  forall l p it, NoDup (map it_id l) -> nth_error l p = Some it -> lookup (mapping l) (it_id it) = Some (N.of_nat p).
Proof. exact mapping_pos. Qed.
Print Assumptions C06_mapping_position.
Theorem C06_mapping_injective :
  forall l p q a b, NoDup (map it_id l) -> nth_error l p = Some a -> nth_error l q = Some b ->
    lookup (mapping l) (it_id a) = lookup (mapping l) (it_id b) -> p = q.
Proof. exact mapping_injective. Qed.
Print Assumptions C06_mapping_injective.
Theorem C06_mapping_absent : forall l k, ~ In k (map it_id l) -> lookup (mapping l) k = None.
Proof. exact mapping_absent. Qed.
Print Assumptions C06_mapping_absent.

(* over the regenerated tables: the operators with a function_index field are exactly call, return_call, ref.func,
   and exactly those are rewritten *)
Theorem C06_function_operator_tables_exact :
  missing ops_with_func_index refers_to_func_list = [] /\ missing refers_to_func_list ops_with_func_index = [].
Proof. exact refers_to_func_complete. Qed.
Print Assumptions C06_function_operator_tables_exact.

(* The full property (every reference kind designates the entity the caller's id denoted; the import
   section order agrees with the index space; the output validates) was false of the faithful model in the classes
   D02, D05, D06 (all repaired: the former witnesses below satisfy it now; no known class is left for this engine);
   on the real output it is decided per history by CheckReidx.verdict06. *)

(* former D02 (converting local functions to imports in descending order: import-section order and index order
   disagreed; repaired: the import section is emitted in index order): the witness now satisfies the property, the
   import converted second (fingerprint 22, function 0) comes first in the import section *)
Example C06_former_D02_witness_holds :
  let c := self_r [] [11; 12; 99] [] [] [LocalToImport 1 21; LocalToImport 0 22]
             [mkSite KCode SF 0 (OFunc 2); mkSite KCode SF 1 (OFunc 2)] in
  agree c = true /\ dom_of (verdict06 c) = true /\ holds_of (verdict06 c) = true
  /\ option_map e_imports (o_enc c) = Some [(0, 22); (0, 21)].
Proof. vm_compute. repeat split; reflexivity. Qed.
(* former D05 (a `ref.func` expression item of an element segment was copied although its target moved; repaired: the
   constant expressions kept as parsed are re-indexed): the witness now satisfies the property, the item is
   emitted as `ref.func 0`; and an item that refers to a deleted function makes encode fail loudly *)
Example C06_former_D05_witness_holds :
  let c := self_r [] [11; 12; 99] [] [] [Delete SF 0] [mkSite KElemExpr SF 1 ONone] in
  agree c = true /\ dom_of (verdict06 c) = true /\ holds_of (verdict06 c) = true
  /\ option_map e_sites (o_enc c) = Some [(0, 0)].
Proof. vm_compute. repeat split; reflexivity. Qed.
(* the other two constant expressions D05 named: a table initialiser `ref.func f` is re-indexed like an element item *)
Example C06_table_initialiser_is_reindexed :
  let c := self_r [] [11; 12; 99] [] [] [Delete SF 0] [mkSite KTableInit SF 1 ONone] in
  agree c = true /\ dom_of (verdict06 c) = true /\ holds_of (verdict06 c) = true
  /\ option_map e_sites (o_enc c) = Some [(0, 0)].
Proof. vm_compute. repeat split; reflexivity. Qed.
Example C06_former_D05_deleted_target_is_loud :
  let c := self_r [] [11; 12; 99] [] [] [Delete SF 1] [mkSite KElemExpr SF 1 ONone] in
  agree c = true /\ o_enc c = None /\ dom_of (verdict06 c) = true /\ holds_of (verdict06 c) = true.
Proof. vm_compute. repeat split; reflexivity. Qed.
(* former D06 (an added import that is deleted again stayed in the index space; repaired: recalculate_ids drops
   every deleted item): the witness now satisfies the property *)
Example C06_former_D06_witness_holds :
  let c := self_r [] [11; 99] [] [] [AddImport SF 21; Delete SF 2] [mkSite KCode SF 0 (OFunc 1)] in
  agree c = true /\ dom_of (verdict06 c) = true /\ holds_of (verdict06 c) = true.
Proof. vm_compute. repeat split; reflexivity. Qed.
(* non-vacuity: an addition, a deletion and a conversion with live references: the property holds *)
Example C06_nonvacuous :
  let c := self_r [(0, 1); (1, 2)] [11; 12; 99] [5] [] [AddImport SF 21; Delete SF 1; AddLocal SF 31]
             [mkSite KCode SF 0 (OFunc 3); mkSite KCode SF 2 (OFunc 3); mkSite KCode SF 4 (OFunc 3); mkSite KCode SF 5 (OFunc 3); mkSite KExport SF 3 (OExport 0)] in
  agree c = true /\ dom_of (verdict06 c) = true /\ holds_of (verdict06 c) = true.
Proof. vm_compute. repeat split; reflexivity. Qed.

(* ---- the binding theorem over every reachable state (Proofs/ReidxInv.v) ----
   [wf] (stored ids are positions, the import-section entries are linked one-to-one to the import items, the
   counters bound the original region) holds of every base module and is preserved by every edit of the API
   model; hence, after ANY history, with no premise left (the former classes D02 / D06 / D26 are repaired: the import
   section is emitted in index order and deleted items are dropped), every live item's id is mapped to the index at
   which Wasm's index rule
   (imports of the kind in import-section order, then the emitted locals) finds exactly that item; deleted items
   have no map entry (a remaining reference makes encode panic) and nothing deleted is left in the space. *)
Theorem C06_wf_is_an_invariant_of_every_edit :
  forall m o m' r, wf m -> Reindex.step m o = Ok (m', r) -> wf m'.
Proof. exact step_wf. Qed.
Print Assumptions C06_wf_is_an_invariant_of_every_edit.
Theorem C06_wf_holds_of_every_base_module : forall c : rcase, wf (mk_base c).
Proof. exact wf_mk_base. Qed.
Print Assumptions C06_wf_holds_of_every_base_module.
Theorem C06_binding_after_any_history :
  forall base h m rets, wf base -> run_pref base h [] = (m, rets, false) ->
  forall x,
  forall l mp, index_space (get_sp m x) = Ok (l, mp) ->
  forall it, In it (s_items (get_sp m x)) -> it_del it = false ->
  exists q, lookup mp (it_id it) = Some q /\ nthN (space_of_model m l x) q = Some (it_fp it).
Proof. exact reachable_binding. Qed.
Print Assumptions C06_binding_after_any_history.
(* the same on what the encoder model emits, in the checker's vocabulary ([designates] = Wasm's index rule on
   the emitted import section and local sections), for every case (no known class is excluded any more) *)
Theorem C06_binding_on_the_emitted_module :
  forall (c : rcase) e,
  encode (final_model c) (dead_exports (h_ops c)) (sites c) = Ok e ->
  forall x l mp, index_space (get_sp (final_model c) x) = Ok (l, mp) ->
  (forall it, In it (s_items (get_sp (final_model c) x)) -> it_del it = false ->
     exists q, lookup mp (it_id it) = Some q /\ designates e x q = Some (it_fp it)) /\
  (forall it, In it (s_items (get_sp (final_model c) x)) -> it_del it = true -> lookup mp (it_id it) = None) /\
  (forall it, In it l -> it_del it = false).
Proof. exact case_binding_outside_known_classes. Qed.
Print Assumptions C06_binding_on_the_emitted_module.
(* the premises are satisfiable after a six-edit history touching all three spaces; the former D02 witness (an import
   added before a conversion) is bound correctly *)
Example C06_binding_nonvacuous : True.
Proof. pose proof reachable_binding_nonvacuous. pose proof reachable_binding_former_D02_witness. exact I. Qed.

(* Stable handles: the id an addition returned (a built function, an added global or memory) still designates the
   added item after ANY later history that does not delete / convert that very item, and the emitted module has
   that item at the index the id is mapped to -- so a reference through the returned id stays bound to it. *)
Theorem C06_returned_id_stays_bound :
  forall base h1 o x fp h2 m0 r0 m1 id m rets dead sites e,
  wf base -> run_pref base h1 [] = (m0, r0, false) ->
  adds o x fp = true -> Reindex.step m0 o = Ok (m1, Some id) ->
  run_pref m1 h2 [] = (m, rets, false) -> existsb (fun o' => names o' x id) h2 = false ->
  encode m dead sites = Ok e ->
  forall l mp, index_space (get_sp m x) = Ok (l, mp) ->
  exists q, lookup mp id = Some q /\ designates e x q = Some fp.
Proof. exact returned_id_designates_in_emitted_module. Qed.
Print Assumptions C06_returned_id_stays_bound.

(* Tie to the source by translation: the loop body of Module::reorganise_generic and of get_mapping_generic, as the
   translator reads them from /repo/src/ir/module/mod.rs on every check and turns them into Gallina statement by
   statement (Gen/GenReorg.v), ARE the hand-written model the theorems above speak about -- for all arguments. *)
Theorem C06_translated_reorganise_is_the_model :
  (forall orig idx val st, gen_rstep orig idx val st = Reindex.rstep orig idx val st) /\
  (forall orig items, gen_reorganise orig items = Reindex.reorganise orig items) /\
  (forall l pos acc, gen_mapping_from pos l acc = mapping_from pos l acc).
Proof. exact (conj gen_rstep_is_rstep (conj gen_reorganise_is_reorganise gen_mapping_is_mapping)). Qed.
Print Assumptions C06_translated_reorganise_is_the_model.
Theorem C06_translated_recalculate_ids_is_index_space : forall s, s_recalc s = true ->
  index_space s =
  let l := gen_reorganise (s_num s - s_added s) (s_items s) in
  let m := gen_mapping_from 0 l [] in
  if N.eqb (lenN l) (lenN m) then Ok (l, m) else Panic 100.
Proof. exact gen_recalculate_is_index_space. Qed.
Print Assumptions C06_translated_recalculate_ids_is_index_space.
